//go:build !verifreplay

package gorilla

import (
	"encoding/json"
	"fmt"

	"github.com/vipnode/vipnode/v2/internal/verifapi"
	"github.com/vipnode/vipnode/v2/jsonrpc2"
)

// VerifC17WS: concurrent writers (and readers) on the websocket codec never
// overlap inside the connection, and every message arrives whole, once.
func VerifC17WS() {
	conn := verifConn()
	codec := &wsCodec{conn: conn}
	n := verifapi.Param("writers", 2)
	done := make(chan error, n)
	for i := 0; i < n; i++ {
		go func(i int) {
			id, _ := json.Marshal(i + 1)
			done <- codec.WriteMessage(&jsonrpc2.Message{ID: id, Version: jsonrpc2.Version, Request: &jsonrpc2.Request{Method: fmt.Sprint("m", i)}})
		}(i)
	}
	for i := 0; i < n; i++ {
		verifapi.Assert(<-done == nil, "c17.ws-write-ok")
	}
	verifapi.Assert(!verifOverlap(conn), "c17.ws-writers-never-interleave")
	// concurrent readers
	got := make(chan string, n)
	for i := 0; i < n; i++ {
		go func() {
			m, err := codec.ReadMessage()
			if err != nil {
				got <- "error"
				return
			}
			got <- string(m.ID)
		}()
	}
	seen := map[string]int{}
	for i := 0; i < n; i++ {
		seen[<-got]++
	}
	verifapi.Reach("c17.ws")
	verifapi.Assert(!verifOverlap(conn), "c17.ws-readers-never-interleave")
	for i := 0; i < n; i++ {
		id, _ := json.Marshal(i + 1)
		verifapi.Assert(seen[string(id)] == 1, "c17.ws-each-message-read-exactly-once")
	}
}

// VerifC17WSHeld: messages read from the websocket codec stay what they were
// when later messages are read (a reader such as Remote.Serve hands each
// message to its own goroutine and goes on reading): k messages are written,
// all are read and kept, then every one is compared with what was sent.
func VerifC17WSHeld() {
	conn := verifConn()
	codec := &wsCodec{conn: conn}
	n := verifapi.Param("msgs", 3)
	for i := 0; i < n; i++ {
		id, _ := json.Marshal(100 + i)
		if err := codec.WriteMessage(&jsonrpc2.Message{ID: id, Version: jsonrpc2.Version, Request: &jsonrpc2.Request{Method: fmt.Sprint("m", i)}}); err != nil {
			verifapi.Unreachable("c17.ws-write-ok")
		}
	}
	var held []*jsonrpc2.Message
	for i := 0; i < n; i++ {
		m, err := codec.ReadMessage()
		verifapi.Assert(err == nil && m != nil, "c17.ws-every-written-message-is-read")
		if err != nil || m == nil {
			return
		}
		held = append(held, m)
	}
	verifapi.Reach("c17.ws.held")
	for i, m := range held {
		want, _ := json.Marshal(100 + i)
		verifapi.Assert(string(m.ID) == string(want), "c17.ws-message-intact-after-later-reads")
		verifapi.Assert(m.Request != nil && m.Request.Method == fmt.Sprint("m", i), "c17.ws-message-intact-after-later-reads")
	}
}

// VerifC17WSForeign: the messages the other side sends arrive exactly once,
// intact and in order whichever kind of data frame (text or binary) it uses
// for each of them.
func VerifC17WSForeign() {
	conn := verifConn()
	codec := &wsCodec{conn: conn}
	n := verifapi.Param("msgs", 3)
	for i := 0; i < n; i++ {
		id, _ := json.Marshal(100 + i)
		msg := &jsonrpc2.Message{ID: id, Version: jsonrpc2.Version, Request: &jsonrpc2.Request{Method: fmt.Sprint("m", i)}}
		verifPeerWrites(conn, msg, verifapi.Bool(fmt.Sprint("binary", i)))
	}
	for i := 0; i < n; i++ {
		m, err := codec.ReadMessage()
		verifapi.Assert(err == nil && m != nil, "c17.ws-every-written-message-is-read")
		if err != nil || m == nil {
			return
		}
		want, _ := json.Marshal(100 + i)
		verifapi.Assert(string(m.ID) == string(want) && m.Request != nil && m.Request.Method == fmt.Sprint("m", i), "c17.ws-messages-read-in-order-and-intact")
	}
	verifapi.Reach("c17.ws.foreign")
	_, err := codec.ReadMessage()
	verifapi.Assert(err != nil, "c17.ws-nothing-read-twice")
}
