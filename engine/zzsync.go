package main

// sync.Map as an association list per map object: Load / Store / LoadOrStore / LoadAndDelete /
// Delete / Range with Go's == on the keys (a symbolic comparison forks). Every operation is atomic,
// which is what sync.Map guarantees; it is a synchronisation point for the scheduler and carries no
// happens-before edge in the race analysis (the map itself is never reported as racy).

import "fmt"

type syncMapState struct {
	keys, vals []Value
}

func (m *Machine) syncMapOf(v Value, what string) *syncMapState {
	p, ok := v.(PtrVal)
	if !ok || p.obj == nil {
		panic(goPanic{msg: "nil pointer dereference (sync.Map." + what + ")"})
	}
	if m.syncMaps == nil {
		m.syncMaps = map[string]*syncMapState{}
	}
	k := fmt.Sprintf("%p/%v", p.obj, p.path)
	st := m.syncMaps[k]
	if st == nil {
		st = &syncMapState{}
		m.syncMaps[k] = st
	}
	return st
}

func (m *Machine) syncMapFind(st *syncMapState, key Value) int {
	for i, k := range st.keys {
		if m.branch(m.valueEq(k, key)) {
			return i
		}
	}
	return -1
}

// regSP registers an intercept whose call is a scheduling point (the scheduler may switch before it).
func regSP(name string, f func(m *Machine, g *Goroutine, a []Value) Value) {
	reg(name, func(m *Machine, g *Goroutine, c *callCtx) (Value, stepStatus) {
		if m.maybePreempt(g) {
			return nil, stBlocked
		}
		return f(m, g, c.args), stNext
	})
}

func init() {
	regSP("(*sync.Map).Load", func(m *Machine, g *Goroutine, a []Value) Value {
		st := m.syncMapOf(a[0], "Load")
		if i := m.syncMapFind(st, a[1]); i >= 0 {
			return TupleVal{st.vals[i], tTrue}
		}
		return TupleVal{IfaceVal{}, tFalse}
	})
	regSP("(*sync.Map).Store", func(m *Machine, g *Goroutine, a []Value) Value {
		st := m.syncMapOf(a[0], "Store")
		if i := m.syncMapFind(st, a[1]); i >= 0 {
			st.vals[i] = a[2]
			return nil
		}
		st.keys, st.vals = append(st.keys, a[1]), append(st.vals, a[2])
		return nil
	})
	regSP("(*sync.Map).LoadOrStore", func(m *Machine, g *Goroutine, a []Value) Value {
		st := m.syncMapOf(a[0], "LoadOrStore")
		if i := m.syncMapFind(st, a[1]); i >= 0 {
			return TupleVal{st.vals[i], tTrue}
		}
		st.keys, st.vals = append(st.keys, a[1]), append(st.vals, a[2])
		return TupleVal{a[2], tFalse}
	})
	del := func(m *Machine, st *syncMapState, key Value) (Value, bool) {
		i := m.syncMapFind(st, key)
		if i < 0 {
			return IfaceVal{}, false
		}
		v := st.vals[i]
		st.keys = append(append([]Value{}, st.keys[:i]...), st.keys[i+1:]...)
		st.vals = append(append([]Value{}, st.vals[:i]...), st.vals[i+1:]...)
		return v, true
	}
	regSP("(*sync.Map).Delete", func(m *Machine, g *Goroutine, a []Value) Value {
		del(m, m.syncMapOf(a[0], "Delete"), a[1])
		return nil
	})
	regSP("(*sync.Map).LoadAndDelete", func(m *Machine, g *Goroutine, a []Value) Value {
		v, ok := del(m, m.syncMapOf(a[0], "LoadAndDelete"), a[1])
		return TupleVal{v, mkBool(ok)}
	})
	reg("(*sync.Map).Range", func(m *Machine, g *Goroutine, c *callCtx) (Value, stepStatus) {
		st := m.syncMapOf(c.args[0], "Range")
		fn, ok := c.args[1].(FuncVal)
		if !ok {
			panic(abortf("sync.Map.Range with %s", describe(c.args[1])))
		}
		keys, vals := append([]Value{}, st.keys...), append([]Value{}, st.vals...)
		var step func(i int)
		step = func(i int) {
			if i >= len(keys) {
				c.deliver(nil)
				return
			}
			m.callClosure(g, fn, []Value{keys[i], vals[i]}, func(ret Value) {
				if t, ok := ret.(*Term); ok && !m.branch(t) {
					c.deliver(nil)
					return
				}
				step(i + 1)
			})
		}
		step(0)
		return nil, stStay
	})
}

func init() {
	// os/signal: no signal is ever delivered in the model; Notify registers nothing.
	regV("os/signal.Notify", func(m *Machine, g *Goroutine, a []Value) Value { return nil })
	regV("os/signal.Stop", func(m *Machine, g *Goroutine, a []Value) Value { return nil })
}

// sync.Pool: Put remembers the item; Get hands out ANY remembered item or a new one (New, or nil without it) -
// the choice is explored. (The real pool may also drop items at any time, which "a new one" covers.) Get and
// Put are scheduling points and carry no happens-before edge.
type syncPoolState struct{ items []Value }

func (m *Machine) syncPoolOf(v Value, what string) *syncPoolState {
	p, ok := v.(PtrVal)
	if !ok || p.obj == nil {
		panic(goPanic{msg: "nil pointer dereference (sync.Pool." + what + ")"})
	}
	if m.syncPools == nil {
		m.syncPools = map[string]*syncPoolState{}
	}
	k := fmt.Sprintf("%p/%v", p.obj, p.path)
	st := m.syncPools[k]
	if st == nil {
		st = &syncPoolState{}
		m.syncPools[k] = st
	}
	return st
}

func init() {
	regSP("(*sync.Pool).Put", func(m *Machine, g *Goroutine, a []Value) Value {
		st := m.syncPoolOf(a[0], "Put")
		if iv, ok := a[1].(IfaceVal); ok && iv.v == nil {
			return nil // Put(nil) is ignored
		}
		st.items = append(st.items, a[1])
		return nil
	})
	reg("(*sync.Pool).Get", func(m *Machine, g *Goroutine, c *callCtx) (Value, stepStatus) {
		if m.maybePreempt(g) {
			return nil, stBlocked
		}
		st := m.syncPoolOf(c.args[0], "Get")
		if n := len(st.items); n > 0 {
			if k := m.choose(n+1, "pool.get"); k < n {
				it := st.items[k]
				st.items = append(append([]Value{}, st.items[:k]...), st.items[k+1:]...)
				return it, stNext
			}
		}
		p := c.args[0].(PtrVal)
		sv := getPath(p.obj.v, p.path).(StructVal)
		fn, ok := sv.f[len(sv.f)-1].(FuncVal)
		if !ok || (fn.fn == nil && fn.native == nil) {
			return IfaceVal{}, stNext
		}
		m.callClosure(g, fn, nil, func(v Value) { c.deliver(v) })
		return nil, stStay
	})
}
