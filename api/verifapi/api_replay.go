//go:build verifreplay

// Replay build of the harness API: inputs come from a replay file written by
// gosym (the solver's assignment); assertions report natively.
package verifapi

import (
	"encoding/json"
	"io"
	"fmt"
	"math/big"
	"os"
	"reflect"
	"runtime"
	"sort"
	"strings"
	"sync"
	"testing"
	"time"
)

type replayFile struct {
	Model  map[string]string `json:"model"`
	Params map[string]int    `json:"params"`
	Assert string            `json:"assert"`
}

var (
	mu        sync.Mutex
	rf        replayFile
	names     = map[string]int{}
	failures  []string
	assumeBad bool
	clock     = time.Unix(1600000000, 0)
	baseG     int
)

// RunReplay loads the assignment and runs the harness.
func RunReplay(t *testing.T, path string, harness func()) {
	b, err := os.ReadFile(path)
	if err != nil {
		t.Fatalf("replay file: %v", err)
	}
	if err := json.Unmarshal(b, &rf); err != nil {
		t.Fatalf("replay file: %v", err)
	}
	mu.Lock()
	names = map[string]int{} // the test may be repeated (-count) in one process
	failures = nil
	assumeBad = false
	mu.Unlock()
	baseG = runtime.NumGoroutine()
	done := make(chan struct{})
	go func() {
		defer close(done)
		defer func() {
			if r := recover(); r != nil {
				if _, ok := r.(stopReplay); ok {
					return
				}
				fmt.Printf("VERIF-PANIC %v\n", r)
				buf := make([]byte, 4096)
				fmt.Printf("%s\n", buf[:runtime.Stack(buf, false)])
				mu.Lock()
				failures = append(failures, fmt.Sprint("panic: ", r))
				mu.Unlock()
			}
		}()
		harness()
	}()
	select {
	case <-done:
	case <-time.After(30 * time.Second):
		fmt.Println("VERIF-DEADLOCK harness did not return within 30s")
		t.Fatalf("harness hung")
	}
	if assumeBad {
		fmt.Println("VERIF-ASSUME-VIOLATED (assignment does not satisfy the harness assumptions natively)")
	}
	if len(failures) > 0 {
		t.Fatalf("replay: %d assertion failure(s): %v", len(failures), failures)
	}
}

type stopReplay struct{}

func unique(base string) string {
	mu.Lock()
	defer mu.Unlock()
	n := names[base]
	names[base] = n + 1
	if n == 0 {
		return base
	}
	return fmt.Sprintf("%s#%d", base, n+1)
}

func val(name string) (string, bool) {
	v, ok := rf.Model[name]
	return v, ok
}

func bigOf(name string) *big.Int {
	s, ok := val(name)
	if !ok {
		return new(big.Int)
	}
	s = strings.TrimSpace(s)
	s = strings.TrimPrefix(s, "(")
	s = strings.TrimSuffix(s, ")")
	s = strings.ReplaceAll(s, " ", "")
	b, ok := new(big.Int).SetString(s, 10)
	if !ok {
		return new(big.Int)
	}
	return b
}

func Int64(name string) int64   { return bigOf(unique(name)).Int64() }
func Int(name string) int       { return int(bigOf(unique(name)).Int64()) }
func Uint64(name string) uint64 { return bigOf(unique(name)).Uint64() }
func Byte(name string) byte     { return byte(bigOf(unique(name)).Uint64()) }
func Bool(name string) bool {
	s, _ := val(unique(name))
	return s == "true"
}
func Choose(name string, n int) int {
	k := int(bigOf("@choose:" + unique(name)).Int64())
	if k < 0 || k >= n {
		return 0
	}
	return k
}
func BigInt(name string) *big.Int { return bigOf(unique(name)) }
func Time(name string) time.Time {
	b := bigOf(unique(name))
	sec, ns := new(big.Int).DivMod(b, big.NewInt(1000000000), new(big.Int))
	return time.Unix(sec.Int64(), ns.Int64())
}
func Dur(name string) time.Duration { return time.Duration(bigOf(unique(name)).Int64()) }
func StrAtom(name string) string {
	n := unique(name)
	if s, ok := rf.Model[n+"!str"]; ok {
		return s // the model made it equal to this concrete string of the run
	}
	ln := int(bigOf(n + "!len").Int64())
	if ln < 0 || ln > 1<<16 {
		ln = 0
	}
	return strings.Repeat("x", ln)
}
func StrBytes(name string, n int) string {
	u := unique(name)
	b := make([]byte, n)
	for i := range b {
		b[i] = byte(bigOf(fmt.Sprintf("%s[%d]", u, i)).Int64())
	}
	return string(b)
}

func Assume(c bool) {
	if !c {
		// an assumption that breaks only AFTER an assertion has failed does not invalidate the replay: the
		// symbolic path ended at that assertion, and the inputs declared after it were never solved for
		mu.Lock()
		if len(failures) == 0 {
			assumeBad = true
		}
		mu.Unlock()
		panic(stopReplay{})
	}
}

func Assert(c bool, id string) {
	if !c {
		fmt.Printf("VERIF-ASSERT-FAILED id=%s\n", id)
		mu.Lock()
		failures = append(failures, id)
		mu.Unlock()
	}
}
func Reach(id string)           {}
func Class(name string, c bool) {}
func Observe(name string, v interface{}) {
	fmt.Printf("VERIF-OBSERVE %s = %v\n", name, v)
}
func SetNow(t time.Time) { mu.Lock(); clock = t; mu.Unlock() }
func Now() time.Time     { mu.Lock(); defer mu.Unlock(); return clock }
func MapOrderAll(on bool) {}
func Unreachable(id string) { Assert(false, id) }
func LiveGoroutines() int {
	time.Sleep(20 * time.Millisecond)
	n := runtime.NumGoroutine() - baseG - 1
	if n < 0 {
		n = 0
	}
	return n
}
func Yield()   { runtime.Gosched() }
func Quiesce() { time.Sleep(50 * time.Millisecond) }
func Param(name string, def int) int {
	if v, ok := rf.Params[name]; ok {
		return v
	}
	return def
}
func IsSymbolic() bool { return false }

type Snap interface{}

func Snapshot(v interface{}) Snap {
	var sb strings.Builder
	walk(reflect.ValueOf(v), &sb, map[uintptr]bool{}, 0)
	return sb.String()
}

func Same(a, b Snap) bool { return a.(string) == b.(string) }

func walk(v reflect.Value, sb *strings.Builder, seen map[uintptr]bool, depth int) {
	if depth > 40 {
		sb.WriteString("<deep>")
		return
	}
	if !v.IsValid() {
		sb.WriteString("nil")
		return
	}
	t := v.Type()
	if t.PkgPath() == "math/big" && t.Name() == "Int" {
		neg := v.Field(0).Bool()
		abs := v.Field(1)
		x := new(big.Int)
		for i := abs.Len() - 1; i >= 0; i-- {
			x.Lsh(x, uint(abs.Index(i).Type().Bits()))
			x.Or(x, new(big.Int).SetUint64(abs.Index(i).Uint()))
		}
		if neg {
			x.Neg(x)
		}
		sb.WriteString("big:" + x.String())
		return
	}
	if t.PkgPath() == "time" && t.Name() == "Time" {
		// wall, ext: compare as the instant
		wall := v.Field(0).Uint()
		ext := v.Field(1).Int()
		var sec, ns int64
		if wall&(1<<63) != 0 {
			sec = int64(wall<<1>>31) + 59453308800
			ns = int64(wall & (1<<30 - 1))
		} else {
			sec = ext
			ns = int64(wall & (1<<30 - 1))
		}
		fmt.Fprintf(sb, "time:%d.%09d", sec-62135596800, ns)
		return
	}
	if t.PkgPath() == "sync" {
		sb.WriteString("sync")
		return
	}
	switch v.Kind() {
	case reflect.Bool:
		fmt.Fprint(sb, v.Bool())
	case reflect.Int, reflect.Int8, reflect.Int16, reflect.Int32, reflect.Int64:
		fmt.Fprint(sb, v.Int())
	case reflect.Uint, reflect.Uint8, reflect.Uint16, reflect.Uint32, reflect.Uint64, reflect.Uintptr:
		fmt.Fprint(sb, v.Uint())
	case reflect.String:
		fmt.Fprintf(sb, "%q", v.String())
	case reflect.Ptr:
		if v.IsNil() {
			sb.WriteString("nilptr")
			return
		}
		if seen[v.Pointer()] {
			sb.WriteString("&back")
			return
		}
		seen[v.Pointer()] = true
		sb.WriteString("&")
		walk(v.Elem(), sb, seen, depth+1)
		delete(seen, v.Pointer())
	case reflect.Interface:
		if v.IsNil() {
			sb.WriteString("nil")
			return
		}
		sb.WriteString("(" + v.Elem().Type().String() + ")")
		walk(v.Elem(), sb, seen, depth+1)
	case reflect.Struct:
		sb.WriteString("{")
		for i := 0; i < v.NumField(); i++ {
			walk(v.Field(i), sb, seen, depth+1)
			sb.WriteString(";")
		}
		sb.WriteString("}")
	case reflect.Slice, reflect.Array:
		sb.WriteString("[")
		for i := 0; i < v.Len(); i++ {
			walk(v.Index(i), sb, seen, depth+1)
			sb.WriteString(";")
		}
		sb.WriteString("]")
	case reflect.Map:
		var parts []string
		it := v.MapRange()
		for it.Next() {
			var kb, vb strings.Builder
			walk(it.Key(), &kb, seen, depth+1)
			walk(it.Value(), &vb, seen, depth+1)
			parts = append(parts, kb.String()+":"+vb.String())
		}
		sort.Strings(parts)
		sb.WriteString("map{" + strings.Join(parts, ";") + "}")
	case reflect.Func:
		if v.IsNil() {
			sb.WriteString("func(nil)")
		} else {
			sb.WriteString("func")
		}
	case reflect.Chan:
		fmt.Fprintf(sb, "chan#%d", v.Len())
	default:
		fmt.Fprintf(sb, "<%s>", v.Kind())
	}
}

func FireTimers(n int) int                { time.Sleep(10 * time.Millisecond); return 0 }
func Tickers() int                        { return 0 }
func TickInterval(i int) time.Duration    { return -1 }

func FireTicker(i int) bool { time.Sleep(10 * time.Millisecond); return false }

func KVConflicts() int  { return 0 }
func OnCrash(f func())  {}
func NoCrash()          {}

func GuardedBy(m interface{}, mu interface{}) {}
func Unguard()                               {}
func LocksHeld() int                         { return 0 }

func URLParts(uri, scheme, user string, hasUser bool, hostport, rest string) {}


// replayStream is the native loop-back stream: reads are cut where the
// symbolic run cut them (abstract positions: 2*i = start of message i, 2*i+1 = inside it).
type replayStream struct {
	buf  []byte
	ends []int
	pos  int
	cuts int
}

func NewStream() io.ReadWriteCloser { return &replayStream{} }

// WriteMistyped: see api_sym.go.
func WriteMistyped(w io.Writer, v interface{}) {
	b, err := json.Marshal(v)
	if err != nil {
		panic(err)
	}
	members := map[string]json.RawMessage{}
	if err := json.Unmarshal(b, &members); err != nil {
		panic(err)
	}
	members["jsonrpc"] = json.RawMessage("2")
	if b, err = json.Marshal(members); err != nil {
		panic(err)
	}
	w.Write(append(b, '\n'))
}

// KVStorm has no native counterpart (real conflicts need real concurrent writers).
func KVStorm(n int) {}

// StreamHistory has no native counterpart (the history is not materialised).
func StreamHistory(rwc io.ReadWriteCloser) {}

// NewPipe: the native counterpart is a buffered blocking pipe.
func NewPipe() io.ReadWriteCloser {
	p := &replayPipe{}
	p.cond = sync.NewCond(&p.mu)
	return p
}

type replayPipe struct {
	mu     sync.Mutex
	cond   *sync.Cond
	buf    []byte
	closed bool
}

func (p *replayPipe) Write(b []byte) (int, error) {
	p.mu.Lock()
	defer p.mu.Unlock()
	if p.closed {
		return 0, io.ErrClosedPipe
	}
	p.buf = append(p.buf, b...)
	p.cond.Broadcast()
	return len(b), nil
}

func (p *replayPipe) Read(b []byte) (int, error) {
	p.mu.Lock()
	defer p.mu.Unlock()
	for len(p.buf) == 0 && !p.closed {
		p.cond.Wait()
	}
	if len(p.buf) == 0 {
		return 0, io.EOF
	}
	n := copy(b, p.buf)
	p.buf = p.buf[n:]
	return n, nil
}

func (p *replayPipe) Close() error {
	p.mu.Lock()
	defer p.mu.Unlock()
	p.closed = true
	p.cond.Broadcast()
	return nil
}

func (s *replayStream) Write(p []byte) (int, error) {
	s.buf = append(s.buf, p...)
	s.ends = append(s.ends, len(s.buf))
	return len(p), nil
}
func (s *replayStream) Close() error { return nil }
func (s *replayStream) Read(p []byte) (int, error) {
	if s.pos >= len(s.buf) {
		return 0, io.EOF
	}
	i := 0
	for i < len(s.ends) && s.ends[i] <= s.pos {
		i++
	}
	start := 0
	if i > 0 {
		start = s.ends[i-1]
	}
	abs := 2 * i
	if s.pos > start {
		abs++
	}
	n := 2*len(s.ends) - abs
	k := 0
	if n > 1 {
		k = int(bigOf(fmt.Sprintf("@choose:chunk#%d", s.cuts)).Int64())
		if k < 0 || k >= n {
			k = n - 1
		}
	}
	s.cuts++
	q := abs + 1 + k
	target := 0
	if q%2 == 0 {
		target = s.ends[q/2-1]
	} else {
		st := 0
		if q/2 > 0 {
			st = s.ends[q/2-1]
		}
		target = st + (s.ends[q/2]-st)/2
		if target <= s.pos {
			target = s.pos + 1
		}
	}
	c := copy(p, s.buf[s.pos:target])
	s.pos += c
	return c, nil
}

var jsonSamples = map[string]string{"string": `"x"`, "number": `7`, "bool": `true`, "object": `{}`, "array": `[]`, "null": `null`}

func JSONArgs(isArray bool, kinds ...string) []byte {
	if !isArray {
		return []byte(`{"a":1}`)
	}
	parts := []string{}
	for _, k := range kinds {
		parts = append(parts, jsonSamples[k])
	}
	return []byte("[" + strings.Join(parts, ",") + "]")
}

var reflectCalls int

// ReflectCalls cannot be observed natively; harnesses that need it count in their receivers.
func ReflectCalls() int { return reflectCalls }
