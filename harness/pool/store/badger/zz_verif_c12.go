package badger

import (
	"strings"
	"fmt"
	"math/big"
	"time"

	"github.com/vipnode/vipnode/v2/internal/verifapi"
	"github.com/vipnode/vipnode/v2/internal/verifmodels/storespec"
	"github.com/vipnode/vipnode/v2/pool/store"
	"github.com/vipnode/vipnode/v2/pool/store/memory"
)

func verifDriver() store.Store {
	if verifapi.Param("driver", 0) == 0 {
		return memory.New()
	}
	return verifOpen()
}

type verifC12 struct {
	d     store.Store
	spec  *storespec.Spec
	ids   []store.NodeID
	accts []store.Account
	site  int
}

func sameErr(a, b error) bool { return a == b }

// allOrders switches the exploration of every map iteration order on around a driver call (tier
// parameter maporder_all): the reference model and the harness iterate maps too, but their
// results do not depend on the order, so only the driver's iterations are multiplied out.
//
// One kind of driver call per path (chosen by the explorer) gets all orders, the others the
// insertion order: the orders of different calls add up instead of multiplying.
func (w *verifC12) allOrders(on bool, site int) {
	if verifapi.Param("maporder_all", 0) != 1 {
		return
	}
	if w.site == 0 {
		w.site = 1 + verifapi.Choose("orders.site", 5)
	}
	if w.site == 1+site {
		verifapi.MapOrderAll(on)
	}
}

func (w *verifC12) idArg(name string) store.NodeID {
	return w.ids[verifapi.Choose(name, len(w.ids))]
}
func (w *verifC12) acctArg(name string) store.Account {
	return w.accts[verifapi.Choose(name, len(w.accts))]
}

func setOf(ids []store.NodeID) map[store.NodeID]int {
	r := map[store.NodeID]int{}
	for _, id := range ids {
		r[id]++
	}
	return r
}

// op applies operation k (with symbolic / chosen arguments) to the driver and the model and compares the results.
func (w *verifC12) op(k int, tag string) {
	d, s := w.d, w.spec
	switch k {
	case 0: // CheckAndSaveNonce
		id := []string{string(w.ids[0]), string(w.accts[0])}[verifapi.Choose(tag+"nid", 2)]
		n := verifapi.Int64(tag + "nonce")
		err := d.CheckAndSaveNonce(id, n)
		switch s.CheckAndSaveNonce(id, n) {
		case 1:
			verifapi.Assert(err == nil, "c12.nonce-accept")
		case 0:
			verifapi.Assert(err == store.ErrInvalidNonce, "c12.nonce-reject")
		default:
			if err == nil {
				s.Mark[id] = n
			}
		}
	case 1: // SetNode
		n := store.Node{ID: w.idArg(tag + "id"), IsHost: verifapi.Bool(tag + "ishost"), Kind: []string{"geth", "parity"}[verifapi.Choose(tag+"kind", 2)],
			LastSeen: verifapi.Now(), BlockNumber: verifapi.Uint64(tag + "blk"), URI: "enode://x@192.0.2.1:30303"}
		if verifapi.Bool(tag + "never-seen") {
			n.LastSeen = time.Time{} // a record without a check-in is stored as given
		}
		verifapi.Class("setnode-on-existing-node-resets-peers-in-memory-only", true)
		verifapi.Assert(sameErr(d.SetNode(n), s.SetNode(n)), "c12.setnode-result")
	case 2: // GetNode
		id := w.idArg(tag + "id")
		got, err := d.GetNode(id)
		want, werr := s.GetNode(id)
		verifapi.Assert(sameErr(err, werr), "c12.getnode-error")
		if err == nil && werr == nil {
			verifapi.Assert(verifapi.Same(verifapi.Snapshot(*got), verifapi.Snapshot(want)), "c12.getnode-value")
		}
	case 3: // UpdateNodePeers
		id := w.idArg(tag + "id")
		var list []string
		for i, p := range w.ids {
			for j := 0; j < verifapi.Choose(fmt.Sprint(tag, "rep", i), 2); j++ {
				list = append(list, string(p))
			}
		}
		blk := verifapi.Uint64(tag + "blk")
		w.allOrders(true, 0)
		inactive, err := d.UpdateNodePeers(id, list, blk)
		w.allOrders(false, 0)
		ev, either, werr := s.UpdateNodePeers(id, list, blk)
		verifapi.Assert(sameErr(err, werr), "c12.updatepeers-error")
		if err == nil && werr == nil {
			got := setOf(inactive)
			verifapi.Class("self-reported-peer-timestamp-differs", id != "" && got[id] > 0)
			for _, p := range w.ids {
				if either[p] {
					if got[p] > 0 {
						delete(s.Peers[id], p)
					}
					continue
				}
				if ev[p] {
					verifapi.Assert(got[p] == 1, "c12.updatepeers-evicted")
				} else {
					verifapi.Assert(got[p] == 0, "c12.updatepeers-kept")
				}
			}
		}
	case 4: // AddNodeBalance
		id := w.idArg(tag + "id")
		c := verifapi.BigInt(tag + "amount")
		verifapi.Assert(sameErr(d.AddNodeBalance(id, c), s.AddNodeBalance(id, c)), "c12.addnodebalance-result")
	case 5: // AddAccountBalance
		a := w.acctArg(tag + "acct")
		c := verifapi.BigInt(tag + "amount")
		verifapi.Assert(d.AddAccountBalance(a, c) == nil, "c12.addaccountbalance-result")
		s.AddAccountBalance(a, c)
	case 6: // AddAccountNode
		a, id := w.acctArg(tag+"acct"), w.idArg(tag+"id")
		verifapi.Assert(sameErr(d.AddAccountNode(a, id), s.AddAccountNode(a, id)), "c12.addaccountnode-result")
	default: // read-only operations are exercised by observe()
	}
}

// observe compares every getter of the driver with the model.
func (w *verifC12) observe(focus int) {
	d, s := w.d, w.spec
	now := verifapi.Now()
	if focus == 0 {
		w.observeBalances()
		return
	}
	for _, id := range w.ids {
		got, err := d.GetNode(id)
		want, werr := s.GetNode(id)
		verifapi.Assert(sameErr(err, werr), "c12.obs.getnode-error")
		if err == nil && werr == nil {
			verifapi.Assert(verifapi.Same(verifapi.Snapshot(*got), verifapi.Snapshot(want)), "c12.obs.getnode-value")
		}
		w.allOrders(true, 1)
		peers, perr := d.NodePeers(id)
		w.allOrders(false, 1)
		wp, wperr := s.NodePeers(id)
		verifapi.Class("setnode-on-existing-node-resets-peers-in-memory-only", true)
		verifapi.Assert(sameErr(perr, wperr), "c12.obs.nodepeers-error")
		if perr == nil && wperr == nil {
			verifapi.Assert(len(peers) == len(wp), "c12.obs.nodepeers-size")
			for _, p := range peers {
				verifapi.Assert(wp[p.ID], "c12.obs.nodepeers-member")
			}
		}
	}
	// aggregate statistics
	w.allOrders(true, 2)
	st, err := d.Stats()
	w.allOrders(false, 2)
	verifapi.Assert(err == nil, "c12.obs.stats-error")
	if err == nil {
		hosts, clients, maxBlk := s.Counts()
		verifapi.Assert(st.NumTotalHosts == hosts && st.NumTotalClients == clients, "c12.obs.stats-node-counts")
		verifapi.Assert(st.LatestBlockNumber == maxBlk, "c12.obs.stats-latest-block")
		// active counts: LastSeen strictly inside the window counts, exactly on the edge is free
		since := now.Add(-store.ExpireInterval)
		minH, maxH, minC, maxC := 0, 0, 0, 0
		for _, n := range s.Nodes {
			in, edge := n.LastSeen.After(since), n.LastSeen.Equal(since)
			if n.IsHost {
				if in {
					minH++
				}
				if in || edge {
					maxH++
				}
			} else {
				if in {
					minC++
				}
				if in || edge {
					maxC++
				}
			}
		}
		verifapi.Assert(minH <= st.NumActiveHosts && st.NumActiveHosts <= maxH, "c12.obs.stats-active-hosts")
		verifapi.Assert(minC <= st.NumActiveClients && st.NumActiveClients <= maxC, "c12.obs.stats-active-clients")
	}
	// active-host queries: every kind, every limit 0..2
	kinds, limits := []string{"", "geth", "parity"}, []int{0, 1, 2}
	if w.site == 1+3 {
		// every map iteration order of this call is explored: one (kind, limit) query per path,
		// chosen by the explorer, instead of nine in a row (whose orders would multiply)
		kinds = kinds[verifapi.Choose("obs.kind", 3):][:1]
		limits = limits[verifapi.Choose("obs.limit", 3):][:1]
	}
	for _, kind := range kinds {
		el, edge := s.ActiveSet(kind)
		for _, limit := range limits {
			w.allOrders(true, 3)
			r, err := d.ActiveHosts(kind, limit)
			w.allOrders(false, 3)
			verifapi.Assert(err == nil, "c12.obs.activehosts-error")
			seen := map[store.NodeID]bool{}
			for _, h := range r {
				verifapi.Assert(el[h.ID] || edge[h.ID], "c12.obs.activehosts-eligible")
				verifapi.Assert(!seen[h.ID], "c12.obs.activehosts-no-duplicates")
				seen[h.ID] = true
			}
			if len(edge) == 0 {
				want := len(el)
				if limit > 0 && limit < want {
					want = limit
				}
				verifapi.Assert(len(r) == want, "c12.obs.activehosts-count")
			}
			if limit > 0 {
				verifapi.Assert(len(r) <= limit, "c12.obs.activehosts-limit")
			}
		}
	}
}

// observeBalances compares the balance / link getters and the ledger statistics.
func (w *verifC12) observeBalances() {
	d, s := w.d, w.spec
	for _, id := range w.ids {
		bal, berr := d.GetNodeBalance(id)
		wb, wberr := s.GetNodeBalance(id)
		verifapi.Assert(sameErr(berr, wberr), "c12.obs.nodebalance-error")
		if berr == nil && wberr == nil {
			verifapi.Assert(bal.Credit.Cmp(wb) == 0, "c12.obs.nodebalance-follows-wallet-once-linked")
			// the owner recorded in the balance decides whether the payment layer looks up a deposit
			verifapi.Assert(bal.Account == s.Owner(s.Link[id]), "c12.obs.nodebalance-owner")
		}
		for _, a := range w.accts {
			verifapi.Assert(sameErr(d.IsAccountNode(a, id), s.IsAccountNode(a, id)), "c12.obs.isaccountnode")
		}
		// the empty account owns nothing
		verifapi.Assert(sameErr(d.IsAccountNode("", id), s.IsAccountNode("", id)), "c12.obs.isaccountnode")
	}
	for _, a := range w.accts {
		bal, err := d.GetAccountBalance(a)
		verifapi.Assert(err == nil && bal.Credit.Cmp(s.GetAccountBalance(a)) == 0, "c12.obs.accountbalance")
		verifapi.Assert(bal.Account == s.Owner(a), "c12.obs.accountbalance-owner")
		w.allOrders(true, 4)
		nodes, err := d.GetAccountNodes(a)
		w.allOrders(false, 4)
		want := s.GetAccountNodes(a)
		verifapi.Assert(err == nil && len(nodes) == len(want), "c12.obs.accountnodes-size")
		for _, n := range nodes {
			verifapi.Assert(want[n], "c12.obs.accountnodes-member")
		}
	}
	st, err := d.Stats()
	verifapi.Assert(err == nil, "c12.obs.stats-error")
	if err == nil {
		verifapi.Assert(st.TotalCredit.Cmp(s.TotalCredit()) == 0, "c12.obs.stats-total-credit")
		// trial balances = balance cells not owned by a wallet
		verifapi.Class("addaccountbalance-leaves-account-empty-in-memory", true)
		verifapi.Assert(st.NumTrialBalances == len(s.Trial), "c12.obs.stats-trial-balances")
	}
}

// VerifC12: set-up script with symbolic flags and amounts, the clock
// advances, then k arbitrary operations; after every operation results are
// compared with the reference model, at the end every getter is compared.
func VerifC12() {
	w := &verifC12{d: verifDriver()}
	w.spec = storespec.New(verifapi.Now)
	w.ids = []store.NodeID{store.NodeID(verifapi.NodeID(0)), store.NodeID(verifapi.NodeID(1)), ""}
	if verifapi.Param("spellings", 0) == 1 {
		// node ids are self-reported strings: the second node spells its id in upper case, and the lower-case
		// spelling is a different (here never registered) id
		w.ids = []store.NodeID{store.NodeID(verifapi.NodeID(0)), store.NodeID(strings.ToUpper(verifapi.NodeID(1))), store.NodeID(verifapi.NodeID(1))}
	}
	w.accts = []store.Account{store.Account(verifapi.Wallet(0)), store.Account(verifapi.Wallet(1))}
	focus := verifapi.Param("focus", 0) // 0: balances and links, 1: nodes, peers, active hosts, 2: nonces
	t0 := verifapi.Time("t0")
	verifapi.SetNow(t0)
	// set-up: two nodes, optionally registered / linked / credited / tracking each other
	for i := 0; i < 2; i++ {
		id := w.ids[i]
		if verifapi.Bool(fmt.Sprint("reg", i)) {
			n := store.Node{ID: id, IsHost: i == 1, Kind: "geth", LastSeen: t0}
			if focus == 1 {
				n.IsHost = verifapi.Bool(fmt.Sprint("ishost", i))
				n.Kind = []string{"geth", "parity"}[verifapi.Choose(fmt.Sprint("kind", i), 2)]
				n.BlockNumber = verifapi.Uint64(fmt.Sprint("blk", i))
			}
			verifapi.Assert(sameErr(w.d.SetNode(n), w.spec.SetNode(n)), "c12.setup.setnode")
		}
		if focus != 0 {
			continue
		}
		if verifapi.Bool(fmt.Sprint("credited", i)) {
			c := verifapi.BigInt(fmt.Sprint("credit", i))
			verifapi.Assert(sameErr(w.d.AddNodeBalance(id, c), w.spec.AddNodeBalance(id, c)), "c12.setup.addnodebalance")
		}
		if k := verifapi.Choose(fmt.Sprint("link", i), 3); k > 0 {
			a := w.accts[k-1]
			verifapi.Assert(sameErr(w.d.AddAccountNode(a, id), w.spec.AddAccountNode(a, id)), "c12.setup.addaccountnode")
		}
	}
	if focus == 1 && verifapi.Bool("tracks") {
		inactive, err := w.d.UpdateNodePeers(w.ids[0], []string{string(w.ids[1])}, 1)
		_, _, werr := w.spec.UpdateNodePeers(w.ids[0], []string{string(w.ids[1])}, 1)
		verifapi.Assert(sameErr(err, werr) && len(inactive) == 0, "c12.setup.updatepeers")
	}
	if focus != 0 {
		dt := verifapi.Dur("dt")
		verifapi.Assume(dt >= 0)
		verifapi.Assume(dt < time.Duration(1000000000000))
		verifapi.SetNow(t0.Add(dt))
	}
	ops := [][]int{{4, 5, 6}, {1, 2, 3}, {0}}[focus]
	steps := verifapi.Param("steps", 1)
	for k := 0; k < steps; k++ {
		w.op(ops[verifapi.Choose(fmt.Sprint("op", k), len(ops))], fmt.Sprint("s", k, "."))
	}
	verifapi.Reach("c12.observe")
	if focus == 2 {
		// a second submission decides whether the first one was recorded
		w.op(0, "again.")
		return
	}
	w.observe(focus)
}

var _ = big.NewInt
