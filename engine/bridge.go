package main

// Reflection bridge: pure standard-library functions are executed for real
// when all their arguments are concrete (concrete in -> concrete out; the
// trusted base is the Go standard library itself). With symbolic arguments the
// function's SSA body is interpreted instead.

import (
	"encoding/hex"
	"fmt"
	"go/types"
	"math/big"
	"net"
	"net/url"
	"reflect"
	"sort"
	"strconv"
	"strings"
	"unicode"
	"unicode/utf8"
	"unsafe"
)

type notConcrete struct{ why string }

func (m *Machine) toGo(v Value, rt reflect.Type) reflect.Value {
	switch rt.Kind() {
	case reflect.String:
		s, ok := v.(StrVal)
		if !ok || !s.concrete() {
			panic(notConcrete{"string"})
		}
		return reflect.ValueOf(s.s).Convert(rt)
	case reflect.Bool:
		t, ok := v.(*Term)
		if !ok || !t.isConst() {
			panic(notConcrete{"bool"})
		}
		return reflect.ValueOf(t.bv).Convert(rt)
	case reflect.Int, reflect.Int8, reflect.Int16, reflect.Int32, reflect.Int64:
		t, ok := v.(*Term)
		if !ok || !t.isConst() {
			panic(notConcrete{"int"})
		}
		return reflect.ValueOf(t.iv.Int64()).Convert(rt)
	case reflect.Uint, reflect.Uint8, reflect.Uint16, reflect.Uint32, reflect.Uint64, reflect.Uintptr:
		t, ok := v.(*Term)
		if !ok || !t.isConst() {
			panic(notConcrete{"uint"})
		}
		return reflect.ValueOf(t.iv.Uint64()).Convert(rt)
	case reflect.Ptr:
		p, ok := v.(PtrVal)
		if !ok {
			panic(notConcrete{"ptr"})
		}
		if p.obj == nil {
			return reflect.Zero(rt)
		}
		n := reflect.New(rt.Elem())
		setAny(n.Elem(), m.toGo(m.load(p), rt.Elem()))
		return n
	case reflect.Struct:
		sv, ok := v.(StructVal)
		if !ok {
			panic(notConcrete{"struct"})
		}
		n := reflect.New(rt).Elem()
		if len(sv.f) != rt.NumField() {
			panic(abortf("bridge: struct %s field count mismatch", rt))
		}
		for i := range sv.f {
			f := n.Field(i)
			setAny(f, m.toGo(sv.f[i], f.Type()))
		}
		return n
	case reflect.Slice:
		s, ok := v.(SliceVal)
		if !ok {
			panic(notConcrete{"slice"})
		}
		if s.arr == nil {
			return reflect.Zero(rt)
		}
		arr, ok := s.arr.v.(ArrayVal)
		if !ok {
			panic(notConcrete{"blob"})
		}
		n := reflect.MakeSlice(rt, s.len, s.len)
		for i := 0; i < s.len; i++ {
			setAny(n.Index(i), m.toGo(arr.e[s.off+i], rt.Elem()))
		}
		return n
	case reflect.Interface:
		iv, ok := v.(IfaceVal)
		if ok && iv.typ == nil {
			return reflect.Zero(rt)
		}
		panic(notConcrete{"interface"})
	}
	panic(notConcrete{"kind " + rt.Kind().String()})
}

func setAny(dst reflect.Value, v reflect.Value) {
	if dst.CanSet() {
		dst.Set(v)
		return
	}
	reflect.NewAt(dst.Type(), unsafe.Pointer(dst.UnsafeAddr())).Elem().Set(v)
}

func readable(v reflect.Value) reflect.Value {
	if v.CanInterface() || !v.CanAddr() {
		return v
	}
	return reflect.NewAt(v.Type(), unsafe.Pointer(v.UnsafeAddr())).Elem()
}

func (m *Machine) fromGo(rv reflect.Value, t types.Type) Value {
	switch rv.Kind() {
	case reflect.String:
		return StrVal{s: rv.String()}
	case reflect.Bool:
		return mkBool(rv.Bool())
	case reflect.Int, reflect.Int8, reflect.Int16, reflect.Int32, reflect.Int64:
		return mkInt(rv.Int())
	case reflect.Uint, reflect.Uint8, reflect.Uint16, reflect.Uint32, reflect.Uint64, reflect.Uintptr:
		return mkIntBig(newBigU(rv.Uint()))
	case reflect.Ptr:
		if rv.IsNil() {
			return PtrVal{}
		}
		et := t.Underlying().(*types.Pointer).Elem()
		o := m.newObj(m.fromGo(rv.Elem(), et), et, "bridge")
		return PtrVal{obj: o}
	case reflect.Struct:
		st := t.Underlying().(*types.Struct)
		if st.NumFields() != rv.NumField() {
			panic(abortf("bridge: struct %s field count mismatch", rv.Type()))
		}
		// make addressable copy so unexported fields can be read
		cp := reflect.New(rv.Type()).Elem()
		cp.Set(rv)
		f := make([]Value, rv.NumField())
		for i := range f {
			f[i] = m.fromGo(readable(cp.Field(i)), st.Field(i).Type())
		}
		return StructVal{f}
	case reflect.Slice:
		if rv.IsNil() {
			return SliceVal{}
		}
		et := t.Underlying().(*types.Slice).Elem()
		n := rv.Len()
		e := make([]Value, n)
		for i := 0; i < n; i++ {
			e[i] = m.fromGo(rv.Index(i), et)
		}
		o := m.newObj(ArrayVal{e}, types.NewArray(et, int64(n)), "bridge")
		return SliceVal{arr: o, len: n, cap: n}
	case reflect.Interface:
		if rv.IsNil() {
			return IfaceVal{}
		}
		if e, ok := rv.Interface().(error); ok {
			return m.freshError(e.Error())
		}
	}
	panic(abortf("bridge: cannot convert result of kind %s", rv.Kind()))
}

func regBridge(name string, f interface{}) {
	fv := reflect.ValueOf(f)
	ft := fv.Type()
	icTable[name] = func(m *Machine, g *Goroutine, c *callCtx) (val Value, st stepStatus) {
		fallback := false
		func() {
			defer func() {
				if r := recover(); r != nil {
					if _, ok := r.(notConcrete); ok {
						fallback = true
						return
					}
					panic(r)
				}
			}()
			in := make([]reflect.Value, ft.NumIn())
			if ft.IsVariadic() {
				panic(abortf("bridge: variadic %s", name))
			}
			if len(c.args) != len(in) {
				panic(abortf("bridge %s: %d args, want %d", name, len(c.args), len(in)))
			}
			for i := range in {
				in[i] = m.toGo(c.args[i], ft.In(i))
			}
			out := fv.Call(in)
			res := c.fn.Signature.Results()
			switch len(out) {
			case 0:
				val = nil
			case 1:
				val = m.fromGo(out[0], res.At(0).Type())
			default:
				tv := make(TupleVal, len(out))
				for i := range out {
					tv[i] = m.fromGo(out[i], res.At(i).Type())
				}
				val = tv
			}
			st = stNext
		}()
		if !fallback {
			return val, st
		}
		// symbolic arguments: interpret the real body
		if c.fn.Blocks == nil {
			panic(abortf("%s called with symbolic arguments and has no Go body", name))
		}
		onRet := c.deliver
		m.pushFrame(g, c.fn, c.args, nil, nil, func(v Value) { onRet(v) })
		return nil, stStay
	}
}

func newBigU(u uint64) *big.Int { return new(big.Int).SetUint64(u) }

func init() {
	// net/url
	regBridge("net/url.Parse", url.Parse)
	regBridge("(*net/url.URL).String", (*url.URL).String)
	regBridge("(*net/url.URL).Hostname", (*url.URL).Hostname)
	regBridge("(*net/url.URL).Port", (*url.URL).Port)
	regBridge("net/url.User", url.User)
	regBridge("net/url.UserPassword", url.UserPassword)
	regBridge("(*net/url.Userinfo).Username", (*url.Userinfo).Username)
	regBridge("(*net/url.Userinfo).String", (*url.Userinfo).String)
	// strings
	regBridge("strings.HasPrefix", strings.HasPrefix)
	regBridge("strings.HasSuffix", strings.HasSuffix)
	regBridge("strings.Contains", strings.Contains)
	regBridge("strings.ContainsRune", strings.ContainsRune)
	regBridge("strings.Index", strings.Index)
	regBridge("strings.IndexByte", strings.IndexByte)
	regBridge("strings.IndexRune", strings.IndexRune)
	regBridge("strings.LastIndex", strings.LastIndex)
	regBridge("strings.LastIndexByte", strings.LastIndexByte)
	regBridge("strings.Split", strings.Split)
	regBridge("strings.SplitN", strings.SplitN)
	regBridge("strings.ToLower", strings.ToLower)
	regBridge("strings.ToUpper", strings.ToUpper)
	regBridge("strings.TrimSpace", strings.TrimSpace)
	regBridge("strings.TrimPrefix", strings.TrimPrefix)
	regBridge("strings.TrimSuffix", strings.TrimSuffix)
	regBridge("strings.Trim", strings.Trim)
	regBridge("strings.TrimLeft", strings.TrimLeft)
	regBridge("strings.TrimRight", strings.TrimRight)
	regBridge("strings.Join", strings.Join)
	regBridge("strings.Repeat", strings.Repeat)
	regBridge("strings.Replace", strings.Replace)
	regBridge("strings.ReplaceAll", strings.ReplaceAll)
	regBridge("strings.EqualFold", strings.EqualFold)
	regBridge("strings.Fields", strings.Fields)
	regBridge("strings.Count", strings.Count)
	regBridge("strings.Title", strings.Title)
	// strconv
	regBridge("strconv.Itoa", strconv.Itoa)
	regBridge("strconv.Atoi", strconv.Atoi)
	regBridge("strconv.Quote", strconv.Quote)
	regBridge("strconv.FormatInt", strconv.FormatInt)
	regBridge("strconv.FormatUint", strconv.FormatUint)
	regBridge("strconv.ParseInt", strconv.ParseInt)
	regBridge("strconv.ParseUint", strconv.ParseUint)
	regBridge("strconv.ParseBool", strconv.ParseBool)
	// net
	regBridge("net.ParseIP", net.ParseIP)
	regBridge("(net.IP).IsLoopback", net.IP.IsLoopback)
	regBridge("(net.IP).IsUnspecified", net.IP.IsUnspecified)
	regBridge("(net.IP).String", net.IP.String)
	regBridge("net.SplitHostPort", net.SplitHostPort)
	regBridge("net.JoinHostPort", net.JoinHostPort)
	// hex
	regBridge("encoding/hex.EncodeToString", hex.EncodeToString)
	regBridge("encoding/hex.DecodeString", hex.DecodeString)
	// unicode
	regBridge("unicode.IsUpper", unicode.IsUpper)
	regBridge("unicode.IsLower", unicode.IsLower)
	regBridge("unicode.IsLetter", unicode.IsLetter)
	regBridge("unicode.IsDigit", unicode.IsDigit)
	regBridge("unicode.IsNumber", unicode.IsNumber)
	regBridge("unicode.IsPunct", unicode.IsPunct)
	regBridge("unicode.IsSpace", unicode.IsSpace)
	regBridge("unicode.ToUpper", unicode.ToUpper)
	regBridge("unicode.ToLower", unicode.ToLower)
	regBridge("unicode/utf8.RuneCountInString", utf8.RuneCountInString)
	regBridge("unicode/utf8.ValidString", utf8.ValidString)
	regBridge("unicode/utf8.RuneLen", utf8.RuneLen)
	regBridge("unicode/utf8.DecodeRuneInString", utf8.DecodeRuneInString)
	regBridge("unicode/utf8.DecodeLastRuneInString", utf8.DecodeLastRuneInString)
	regBridge("unicode/utf8.DecodeRune", utf8.DecodeRune)
	regBridge("unicode/utf8.RuneCount", utf8.RuneCount)
	regBridge("unicode/utf8.Valid", utf8.Valid)
	regBridge("unicode/utf8.ValidRune", utf8.ValidRune)
	// sort.Strings mutates its argument in place
	regV("sort.Strings", func(m *Machine, g *Goroutine, a []Value) Value {
		s := a[0].(SliceVal)
		if s.arr == nil {
			return nil
		}
		arr := s.arr.v.(ArrayVal)
		ss := make([]string, s.len)
		for i := range ss {
			ss[i] = cstr(arr.e[s.off+i], "sort.Strings")
		}
		sort.Strings(ss)
		for i := range ss {
			m.store(PtrVal{obj: s.arr, path: []int{s.off + i}}, StrVal{s: ss[i]})
		}
		return nil
	})
	_ = fmt.Sprint
}
