package payment

import (
	"context"
	"errors"
	"fmt"
	"math/big"
	"strings"
	"time"

	"github.com/vipnode/vipnode/v2/internal/verifapi"
	"github.com/vipnode/vipnode/v2/internal/verifmodels/sigs"
	"github.com/vipnode/vipnode/v2/pool"
	"github.com/vipnode/vipnode/v2/pool/store"
)

type verifPayWorld struct {
	db      store.Store
	dep     *pool.VerifDeposits
	pay     *PaymentService
	fee     *big.Int
	paid    map[store.Account]*big.Int
	calls   int
	inside  int // settle calls in flight
	settled int // successful settlements
	overlap bool
}

func verifNewPayWorld() *verifPayWorld {
	db := newVerifStore()
	w := &verifPayWorld{db: db, paid: map[store.Account]*big.Int{}}
	w.dep = &pool.VerifDeposits{Store: db, Deposit: map[store.Account]*big.Int{}}
	w.fee = verifapi.BigInt("fee")
	verifapi.Assume(w.fee.Sign() >= 0)
	w.pay = &PaymentService{NonceStore: db, AccountStore: db, BalanceStore: w.dep}
	fee := w.fee
	w.pay.WithdrawFee = func(amount *big.Int) *big.Int { return amount.Sub(amount, fee) } // production shape (pool.go)
	if verifapi.Param("feestyles", 0) == 1 && verifapi.Bool("fee-returns-new-value") {
		// the documented contract of WithdrawFee is "returns the new total": a fee function may as well
		// compute it into a fresh value and leave its argument alone
		w.pay.WithdrawFee = func(amount *big.Int) *big.Int { return new(big.Int).Sub(amount, fee) }
	}
	if verifapi.Bool("hasmin") {
		w.pay.WithdrawMin = verifapi.BigInt("wmin")
	}
	w.pay.Settle = func(account store.Account, amount *big.Int, newBalance *big.Int) (string, error) {
		w.calls++
		k := w.calls
		w.inside++
		if w.inside > 1 {
			w.overlap = true
		}
		verifapi.Yield()
		fails := verifapi.Bool(fmt.Sprint("settlefails", k))
		w.inside--
		if fails {
			return "", fmt.Errorf("settle failed")
		}
		if w.paid[account] == nil {
			w.paid[account] = new(big.Int)
		}
		w.paid[account].Add(w.paid[account], amount)
		w.dep.Deposit[account] = new(big.Int).Set(newBalance)
		w.settled++
		return "tx", nil
	}
	return w
}

func (w *verifPayWorld) withdraw(wal store.Account, goodSig bool) error {
	nonce := pool.VerifFreshNonce()
	sig := "garbage"
	if goodSig {
		sig = sigs.SignFor(string(wal), "pool_withdraw", nonce)
	}
	return w.pay.Withdraw(context.Background(), sig, string(wal), nonce)
}

// VerifC07History: accrue / withdraw histories on one or two wallets.
func VerifC07History() {
	w := verifNewPayWorld()
	verifapi.SetNow(verifapi.Time("t0"))
	steps := verifapi.Param("steps", 3)
	nw := verifapi.Param("wallets", 1)
	wals := []store.Account{store.Account(verifapi.Wallet(0)), store.Account(verifapi.Wallet(1))}[:nw]
	if verifapi.Bool("lowercase-wallets") {
		// a wallet may name (and sign for) its address in any case: the ledger is keyed by the string it uses
		for i := range wals {
			wals[i] = store.Account("0x" + strings.ToLower(string(wals[i])[2:]))
		}
	}
	owed := map[store.Account]*big.Int{} // deposits + accrued credit not yet settled
	ever := map[store.Account]*big.Int{} // everything ever deposited or earned
	for i, a := range wals {
		d := verifapi.BigInt(fmt.Sprint("deposit", i))
		verifapi.Assume(d.Sign() >= 0)
		w.dep.Deposit[a] = d
		owed[a] = new(big.Int).Set(d)
		ever[a] = new(big.Int).Set(d)
	}
	for s := 0; s < steps; s++ {
		wal := wals[0]
		if nw > 1 {
			wal = wals[verifapi.Choose(fmt.Sprint("wallet", s), nw)]
		}
		if verifapi.Bool(fmt.Sprint("accrue", s)) {
			// earnings of the wallet's hosts, or (negative) spending of its clients
			c := verifapi.BigInt(fmt.Sprint("earn", s))
			w.db.AddAccountBalance(wal, c)
			owed[wal].Add(owed[wal], c)
			if c.Sign() > 0 {
				ever[wal].Add(ever[wal], c) // (spending only ever reduces what can be paid out)
			}
			continue
		}
		good := verifapi.Bool(fmt.Sprint("goodsig", s))
		before, _ := w.dep.GetAccountBalance(wal)
		total := new(big.Int).Add(&before.Deposit, &before.Credit)
		paidBefore := new(big.Int)
		if w.paid[wal] != nil {
			paidBefore.Set(w.paid[wal])
		}
		snap := verifapi.Snapshot(before)
		calls := w.calls
		err := w.withdraw(wal, good)
		verifapi.Reach("c07.withdraw")
		after, _ := w.dep.GetAccountBalance(wal)
		paidNow := new(big.Int)
		if w.paid[wal] != nil {
			paidNow.Set(w.paid[wal])
		}
		delta := new(big.Int).Sub(paidNow, paidBefore)
		meets := w.pay.WithdrawMin == nil || total.Cmp(w.pay.WithdrawMin) >= 0
		if err == nil {
			verifapi.Assert(good, "c07.paid-only-when-signed")
			verifapi.Assert(meets, "c07.paid-only-when-minimum-met")
			verifapi.Assert(delta.Cmp(new(big.Int).Sub(total, w.fee)) == 0, "c07.pays-balance-minus-fee")
			verifapi.Class("credit-not-reset-after-withdraw", true)
			left := new(big.Int).Add(&after.Deposit, &after.Credit)
			verifapi.Assert(left.Sign() == 0, "c07.nothing-left-to-withdraw")
			owed[wal] = new(big.Int)
		} else {
			verifapi.Assert(delta.Sign() == 0, "c07.refused-or-failed-pays-nothing")
			verifapi.Assert(verifapi.Same(snap, verifapi.Snapshot(after)), "c07.refused-or-failed-leaves-balance")
			if !good || !meets {
				verifapi.Assert(w.calls == calls, "c07.no-settlement-attempt-when-refused")
			} else {
				// a correctly signed request that meets the minimum is executed: the only way it can fail is
				// the settlement itself
				verifapi.Assert(w.calls == calls+1, "c07.valid-request-reaches-settlement")
			}
		}
	}
	// never pays the same earnings twice: cumulative paid <= deposits + accrued (fees only reduce it)
	for _, a := range wals {
		if w.paid[a] == nil {
			continue
		}
		verifapi.Class("credit-not-reset-after-withdraw", true)
		verifapi.Assert(w.paid[a].Cmp(ever[a]) <= 0, "c07.never-pays-the-same-earnings-twice")
	}
}

// VerifC07Race: two concurrent withdrawals of one wallet.
func VerifC07Race() {
	w := verifNewPayWorld()
	verifapi.SetNow(verifapi.Time("t0"))
	wal := store.Account(verifapi.Wallet(0))
	d := verifapi.BigInt("deposit")
	c := verifapi.BigInt("credit")
	verifapi.Assume(d.Sign() >= 0 && c.Sign() >= 0)
	w.dep.Deposit[wal] = d
	w.db.AddAccountBalance(wal, c)
	owed := new(big.Int).Add(d, c)
	done := make(chan error, 2)
	for i := 0; i < 2; i++ {
		go func() { done <- w.withdraw(wal, true) }()
	}
	oks := 0
	for i := 0; i < 2; i++ {
		if err := <-done; err == nil {
			oks++
		}
	}
	verifapi.Reach("c07.race")
	paid := new(big.Int)
	if w.paid[wal] != nil {
		paid.Set(w.paid[wal])
	}
	// fees are non-negative, so whatever was paid out is bounded by what was owed
	verifapi.Class("concurrent-withdraw-double-pay", oks == 2)
	verifapi.Assert(paid.Cmp(owed) <= 0, "c07.race-never-pays-more-than-owed")
	after, _ := w.dep.GetAccountBalance(wal)
	left := new(big.Int).Add(&after.Deposit, &after.Credit)
	if oks > 0 {
		verifapi.Assert(left.Sign() == 0, "c07.race-nothing-left")
	}
}

// VerifC07RealProxy (REAL math/big code, concrete amounts): withdrawals
// through the real contract-payment proxy and its deposit cache. A refused or
// failed attempt leaves the balance as it was (also the cached deposit the
// proxy hands out by value), and the next attempt pays exactly what is owed.
func VerifC07RealProxy() {
	db := newVerifStore()
	wal := store.Account(verifapi.Wallet(0))
	// the on-chain deposit as a number with spare capacity (as decoded from the contract)
	deposit := new(big.Int).Add(big.NewInt(1000), big.NewInt(2000))
	cp := &contractPayment{store: db}
	cp.balanceCache.Getter = func(a store.Account) (*big.Int, error) { return deposit, nil }
	paid := new(big.Int)
	attempts := 0
	failFirst := verifapi.Bool("firstsettlefails")
	pay := &PaymentService{NonceStore: db, AccountStore: db, BalanceStore: cp,
		WithdrawFee: func(amount *big.Int) *big.Int { return amount.Sub(amount, big.NewInt(100)) }} // production shape (pool.go)
	minKind := verifapi.Choose("minimum", 3)
	switch minKind {
	case 1:
		pay.WithdrawMin = big.NewInt(500) // met
	case 2:
		pay.WithdrawMin = big.NewInt(6000) // not met at first
	}
	pay.Settle = func(account store.Account, amount *big.Int, newBalance *big.Int) (string, error) {
		attempts++
		if attempts == 1 && failFirst {
			return "", errors.New("settle failed")
		}
		paid.Add(paid, amount)
		deposit = new(big.Int).Set(newBalance)
		cp.balanceCache.Set(account, deposit) // the contract's balance event refreshes the cache
		return "tx", nil
	}
	verifapi.SetNow(time.Unix(1600000000, 0))
	db.AddAccountBalance(wal, big.NewInt(700))
	db.AddAccountBalance(wal, big.NewInt(1300))
	owed := int64(3000 + 2000)
	read := func() int64 {
		b, err := cp.GetAccountBalance(wal)
		if err != nil {
			verifapi.Unreachable("c07.proxy-read")
		}
		return new(big.Int).Add(&b.Deposit, &b.Credit).Int64()
	}
	verifapi.Assert(read() == owed, "c07.proxy-initial-balance")
	w := &verifPayWorld{db: db, pay: pay}
	err1 := w.withdraw(wal, true)
	if err1 != nil {
		verifapi.Assert(paid.Sign() == 0, "c07.proxy-failed-attempt-pays-nothing")
		verifapi.Assert(read() == owed, "c07.proxy-failed-attempt-leaves-balance")
		if minKind == 2 {
			// still below the minimum: refused again, still unchanged
			err2 := w.withdraw(wal, true)
			verifapi.Assert(err2 != nil && paid.Sign() == 0 && read() == owed, "c07.proxy-refused-again-unchanged")
			verifapi.Reach("c07.proxy")
			return
		}
		// the retry pays exactly what is owed minus the fee
		err2 := w.withdraw(wal, true)
		verifapi.Assert(err2 == nil, "c07.proxy-retry-succeeds")
	}
	verifapi.Reach("c07.proxy")
	if minKind != 2 {
		verifapi.Assert(paid.Int64() == owed-100, "c07.proxy-pays-balance-minus-fee-once")
		verifapi.Assert(read() == 0, "c07.proxy-nothing-left")
	}
}

// VerifC07Trial: earnings that start on a trial balance: a node earns credit
// before any wallet claims it, is linked with a signed pool_addNode, the
// wallet withdraws, the node earns again and is linked a second time (to the
// same or to another wallet), and both wallets withdraw. Every unit earned is
// paid out at most once: what was paid (plus fees) and what is still owed add
// up to exactly what was earned. Runs on both drivers.
func VerifC07Trial() {
	w := verifNewPayWorld()
	verifapi.SetNow(verifapi.Time("t0"))
	node := store.NodeID(verifapi.NodeID(0))
	wals := []store.Account{store.Account(verifapi.Wallet(0)), store.Account(verifapi.Wallet(1))}
	for _, a := range wals {
		w.dep.Deposit[a] = new(big.Int)
	}
	w.db.SetNode(store.Node{ID: node, IsHost: true})
	e1, e2 := verifapi.BigInt("earn1"), verifapi.BigInt("earn2")
	verifapi.Assume(e1.Sign() > 0 && e2.Sign() >= 0)
	earned := new(big.Int).Add(e1, e2)
	link := func(a store.Account) {
		nonce := pool.VerifFreshNonce()
		err := w.pay.AddNode(context.Background(), sigs.SignFor(string(a), "pool_addNode", nonce, string(node)), string(a), nonce, string(node))
		verifapi.Assert(err == nil, "c07.trial.link-accepted")
	}
	settled := new(big.Int) // credit taken off the ledger by successful withdrawals
	withdraw := func(a store.Account) {
		before, _ := w.db.GetAccountBalance(a)
		if err := w.withdraw(a, true); err == nil {
			after, _ := w.db.GetAccountBalance(a)
			settled.Add(settled, new(big.Int).Sub(&before.Credit, &after.Credit))
		}
	}
	w.db.AddNodeBalance(node, e1) // trial earnings
	link(wals[0])
	withdraw(wals[0])
	w.db.AddNodeBalance(node, e2) // more earnings, now on the wallet
	link(wals[verifapi.Choose("relink", 2)])
	withdraw(wals[0])
	withdraw(wals[1])
	verifapi.Reach("c07.trial")
	remaining := pool.VerifTotalCredit(w.db, []store.NodeID{node}, wals)
	verifapi.Assert(new(big.Int).Add(settled, remaining).Cmp(earned) == 0, "c07.trial.every-unit-earned-is-settled-at-most-once")
	// what the wallets received is what was settled, minus one fee per payment
	paid := new(big.Int)
	for _, a := range wals {
		if w.paid[a] != nil {
			paid.Add(paid, w.paid[a])
		}
	}
	fees := new(big.Int).Mul(w.fee, big.NewInt(int64(verifSuccessfulSettles(w))))
	verifapi.Assert(new(big.Int).Add(paid, fees).Cmp(settled) == 0, "c07.trial.paid-is-settled-credit-minus-fee")
}

func verifSuccessfulSettles(w *verifPayWorld) int { return w.settled }

// VerifC07Contract: withdrawals through the REAL contract proxy end to end -
// contractPayment.GetAccountBalance / GetBalance / balance cache as the
// balance store and contractPayment.OpSettle as the settle handler - over the
// chain model (zz_verif_chain.go): the deposit may be timelocked, the
// Ethereum node may be unreachable when the deposit is read, and the
// settlement transaction may be rejected, each at the first attempt. A refused
// or failed attempt pays nothing and changes neither the credit nor the
// on-chain deposit; over all attempts the wallet is paid exactly deposit +
// credit - fee, once, and the ledger's credit moves only by what was settled.
func VerifC07Contract() {
	db := newVerifStore()
	wal := store.Account(verifapi.Wallet(0))
	cp := verifNewContractPayment(db)
	ch := verifTheChain
	key := strings.ToLower(string(wal))
	deposit, credit := int64(7000), int64(5000)
	ch.deposit[key] = big.NewInt(deposit)
	verifapi.SetNow(time.Unix(1600000000, 0))
	db.AddAccountBalance(wal, big.NewInt(credit))
	pay := &PaymentService{NonceStore: db, AccountStore: db, BalanceStore: cp, Settle: cp.OpSettle,
		WithdrawFee: func(amount *big.Int) *big.Int { return amount.Sub(amount, big.NewInt(100)) }}
	switch verifapi.Choose("minimum", 3) {
	case 1:
		pay.WithdrawMin = big.NewInt(4000) // met by the credit alone
	case 2:
		pay.WithdrawMin = big.NewInt(9000) // met only by deposit + credit
	}
	// what goes wrong at the first attempt
	trouble := verifapi.Choose("trouble", 4)
	switch trouble {
	case 1:
		ch.timelocked[key] = true
	case 2:
		ch.failReads = 1
	case 3:
		ch.failSettles = 1
	}
	w := &verifPayWorld{db: db, pay: pay}
	storedCredit := func() int64 {
		b, err := db.GetAccountBalance(wal)
		if err != nil {
			verifapi.Unreachable("c07.contract-read")
		}
		return b.Credit.Int64()
	}
	owed := deposit + credit
	err1 := w.withdraw(wal, true)
	verifapi.Reach("c07.contract.first")
	if trouble != 0 {
		verifapi.Assert(err1 != nil, "c07.contract.troubled-attempt-refused")
	} else {
		verifapi.Assert(err1 == nil, "c07.contract.clean-attempt-succeeds")
	}
	if err1 != nil {
		verifapi.Assert(ch.paid.Sign() == 0 && len(ch.settled) == 0, "c07.contract.failed-attempt-pays-nothing")
		verifapi.Assert(ch.deposit[key].Int64() == deposit, "c07.contract.failed-attempt-leaves-deposit")
		verifapi.Assert(storedCredit() == credit, "c07.contract.failed-attempt-leaves-credit")
		// the trouble passes; the wallet tries again
		ch.timelocked[key] = false
		if verifapi.Bool("cache-expired-before-retry") {
			cp.balanceCache.Reset(0)
		}
		// the balance as the service reports it is the one from before the attempt, whether the deposit is
		// looked up again or still remembered from the failed attempt
		if b, berr := cp.GetAccountBalance(wal); berr == nil {
			verifapi.Assert(b.Deposit.Int64() == deposit && b.Credit.Int64() == credit, "c07.contract.failed-attempt-leaves-reported-balance")
		} else {
			verifapi.Unreachable("c07.contract.balance-read-after-trouble")
		}
		err2 := w.withdraw(wal, true)
		verifapi.Assert(err2 == nil, "c07.contract.retry-succeeds")
	}
	verifapi.Reach("c07.contract")
	verifapi.Assert(ch.paid.Int64() == owed-100 && len(ch.settled) == 1, "c07.contract.pays-deposit-plus-credit-minus-fee-once")
	verifapi.Assert(ch.deposit[key].Sign() == 0 && storedCredit() == 0, "c07.contract.nothing-left")
	// a further attempt pays nothing more (below a minimum it is refused; without one it settles zero - minus the fee)
	before := new(big.Int).Set(ch.paid)
	err3 := w.withdraw(wal, true)
	if pay.WithdrawMin != nil {
		verifapi.Assert(err3 != nil && ch.paid.Cmp(before) == 0, "c07.contract.nothing-paid-twice")
	}
	verifapi.Assert(storedCredit() == 0, "c01.contract.credit-moves-only-by-what-was-settled")
}

// VerifC07Cancel: the caller of a withdrawal goes away (its request context ends) at an arbitrary point while
// the withdrawal runs - also while the settlement is in flight; the wallet then withdraws again. A withdrawal
// that reports failure has paid nothing, and the two together never pay more than was owed.
func VerifC07Cancel() {
	w := verifNewPayWorld()
	verifapi.SetNow(verifapi.Time("t0"))
	wal := store.Account(verifapi.Wallet(0))
	d := verifapi.BigInt("deposit")
	c := verifapi.BigInt("credit")
	verifapi.Assume(d.Sign() >= 0 && c.Sign() >= 0)
	w.dep.Deposit[wal] = d
	w.db.AddAccountBalance(wal, c)
	owed := new(big.Int).Add(d, c)
	ctx, cancel := context.WithCancel(context.Background())
	nonce := pool.VerifFreshNonce()
	sig := sigs.SignFor(string(wal), "pool_withdraw", nonce)
	done := make(chan error, 1)
	go func() { done <- w.pay.Withdraw(ctx, sig, string(wal), nonce) }()
	go func() { cancel() }()
	err1 := <-done
	verifapi.Quiesce() // whatever the first request left running has finished
	paid1 := new(big.Int)
	if w.paid[wal] != nil {
		paid1.Set(w.paid[wal])
	}
	verifapi.Reach("c07.cancel.first")
	if err1 != nil {
		verifapi.Assert(paid1.Sign() == 0, "c07.cancel.failed-withdrawal-paid-nothing")
	}
	err2 := w.withdraw(wal, true)
	verifapi.Quiesce()
	verifapi.Reach("c07.cancel")
	paid := new(big.Int)
	if w.paid[wal] != nil {
		paid.Set(w.paid[wal])
	}
	verifapi.Assert(paid.Cmp(owed) <= 0, "c07.cancel.never-pays-more-than-owed")
	_ = err2
}
