package memory

import (
	"fmt"

	"github.com/vipnode/vipnode/v2/internal/verifapi"
	"github.com/vipnode/vipnode/v2/pool/store"
)

// VerifC05Step: one CheckAndSaveNonce from an arbitrary nonce table.
func VerifC05Step() {
	s := New()
	now := verifapi.Time("now")
	verifapi.SetNow(now)
	ids := []string{verifapi.NodeID(0), verifapi.NodeID(1), verifapi.Wallet(0)}
	marks := map[string]int64{}
	for i, id := range ids {
		if verifapi.Bool(fmt.Sprint("has", i)) {
			m := verifapi.Int64(fmt.Sprint("mark", i))
			verifapi.Assume(m > 0)
			s.nonces[id] = m
			marks[id] = m
		}
	}
	id := ids[verifapi.Choose("id", 3)]
	n := verifapi.Int64("n")
	before := verifapi.Snapshot(s.nonces)
	err := s.CheckAndSaveNonce(id, n)
	verifapi.Reach("c05.step")
	edge := now.Add(-store.ExpireNonce).UnixNano()
	if err == nil {
		verifapi.Assert(n > marks[id], "c05.accept-implies-above-mark")
		verifapi.Assert(n >= edge, "c05.accept-implies-fresh")
		verifapi.Assert(s.nonces[id] == n, "c05.mark-advanced")
	} else {
		verifapi.Assert(err == store.ErrInvalidNonce, "c05.error-kind")
		verifapi.Assert(!(n > marks[id] && n > edge), "c05.fresh-and-above-is-accepted")
		verifapi.Assert(verifapi.Same(before, verifapi.Snapshot(s.nonces)), "c05.reject-leaves-table")
	}
	for _, other := range ids {
		if other != id {
			verifapi.Assert(s.nonces[other] == marks[other], "c05.other-identities-untouched")
		}
	}
}
