package pool

import (
	"context"
	"errors"
	"fmt"
	"math/big"
	"time"

	"github.com/vipnode/vipnode/v2/ethnode"
	"github.com/vipnode/vipnode/v2/internal/verifapi"
	"github.com/vipnode/vipnode/v2/internal/verifmodels/sigs"
	"github.com/vipnode/vipnode/v2/jsonrpc2"
	"github.com/vipnode/vipnode/v2/pool/balance"
	"github.com/vipnode/vipnode/v2/pool/store"
)

var verifSeq int

func verifTick() int { verifSeq++; return verifSeq }

type verifCall struct {
	method string
	arg    string
	seq    int // when the call was received
	done   int // when it was acknowledged (0 = not acknowledged)
}

// verifHost is a host connection stub: a jsonrpc2.Service whose every call is
// acknowledged, refused, or left unanswered until the caller's deadline —
// chosen symbolically per call (behaviours = how many of those are allowed).
type verifHost struct {
	name       string
	addr       string
	behaviours int
	calls      []verifCall
	closed     bool
}

func (h *verifHost) RemoteAddr() string { return h.addr }

func (h *verifHost) Call(ctx context.Context, result interface{}, method string, params ...interface{}) error {
	arg := ""
	if len(params) > 0 {
		arg, _ = params[0].(string)
	}
	ix := len(h.calls)
	h.calls = append(h.calls, verifCall{method: method, arg: arg, seq: verifTick()})
	k := 0
	if h.behaviours > 1 {
		k = verifapi.Choose(fmt.Sprintf("%s.%s.%d", h.name, method, ix), h.behaviours)
	}
	switch k {
	case 0:
		verifapi.Yield()
		h.calls[ix].done = verifTick()
		return nil
	case 1:
		return errors.New("host refused")
	default:
		<-ctx.Done()
		return ctx.Err()
	}
}

func (h *verifHost) count(method, arg string) int {
	n := 0
	for _, c := range h.calls {
		if c.method == method && c.arg == arg {
			n++
		}
	}
	return n
}

func (h *verifHost) acked(method, arg string) int {
	for _, c := range h.calls {
		if c.method == method && c.arg == arg && c.done > 0 {
			return c.done
		}
	}
	return 0
}

// verifDeposits is the BalanceStore proxy that adds the on-chain deposit
// (mirrors payment.contractPayment: Deposit from the contract, Credit from the store).
type verifDeposits struct {
	store.Store
	deposit map[store.Account]*big.Int
	trial   *big.Int // deposit is zero for unlinked nodes
}

func (d *verifDeposits) GetNodeBalance(id store.NodeID) (store.Balance, error) {
	b, err := d.Store.GetNodeBalance(id)
	if err == nil && b.Account != "" {
		if dep, ok := d.deposit[b.Account]; ok {
			b.Deposit = *new(big.Int).Set(dep)
		}
	}
	return b, err
}

func (d *verifDeposits) GetAccountBalance(a store.Account) (store.Balance, error) {
	b, err := d.Store.GetAccountBalance(a)
	if err == nil {
		if dep, ok := d.deposit[a]; ok {
			b.Deposit = *new(big.Int).Set(dep)
		}
	}
	return b, err
}

type verifMgr interface {
	balance.Manager
}

// verifPool builds a pool over db with the production pay-per-interval manager.
func verifPool(db store.Store, bs store.BalanceStore, price *big.Int, interval time.Duration, min *big.Int) *VipnodePool {
	mgr := balance.PayPerInterval(bs, interval, price)
	mgr.MinBalance = min
	p := New(db, mgr)
	return p
}

var verifNonce int64

// verifFreshNonce returns a fresh, strictly increasing nonce inside the freshness window.
func verifFreshNonce() int64 {
	n := verifapi.Now().UnixNano()
	if n <= verifNonce {
		n = verifNonce + 1
	}
	verifNonce = n
	return n
}

func verifPeerInfos(ids ...string) []ethnode.PeerInfo {
	r := []ethnode.PeerInfo{}
	for _, id := range ids {
		r = append(r, ethnode.PeerInfo{ID: id})
	}
	return r
}

// verifUpdate performs a correctly signed vipnode_update.
func verifUpdate(p *VipnodePool, ctx context.Context, nodeID string, peers ...string) (*UpdateResponse, error) {
	req := UpdateRequest{PeerInfo: verifPeerInfos(peers...), BlockNumber: 1}
	nonce := verifFreshNonce()
	sig := sigs.SignFor(nodeID, "vipnode_update", nonce, req)
	return p.Update(ctx, sig, nodeID, nonce, req)
}

// verifConnect performs a correctly signed vipnode_connect on connection svc.
func verifConnect(p *VipnodePool, svc *verifHost, nodeID string, full bool, payout string) (*ConnectResponse, error) {
	req := ConnectRequest{NodeInfo: ethnode.UserAgent{Kind: ethnode.Geth, IsFullNode: full}, Payout: payout}
	nonce := verifFreshNonce()
	sig := sigs.SignFor(nodeID, "vipnode_connect", nonce, req)
	ctx := jsonrpc2.VerifCtxWithService(context.Background(), svc)
	return p.Connect(ctx, sig, nodeID, nonce, req)
}

// verifTotalCredit sums credit over all wallet accounts and trial balances through the public getters.
func verifTotalCredit(db store.Store, nodes []store.NodeID, wallets []store.Account) *big.Int {
	total := new(big.Int)
	for _, w := range wallets {
		b, _ := db.GetAccountBalance(w)
		total.Add(total, &b.Credit)
	}
	for _, id := range nodes {
		linked := false
		for _, w := range wallets {
			if db.IsAccountNode(w, id) == nil {
				linked = true
			}
		}
		if !linked {
			if b, err := db.GetNodeBalance(id); err == nil {
				total.Add(total, &b.Credit)
			}
		}
	}
	return total
}
