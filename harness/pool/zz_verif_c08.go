package pool

import (
	"context"
	"fmt"
	"time"

	"github.com/vipnode/vipnode/v2/internal/verifapi"
	"github.com/vipnode/vipnode/v2/internal/verifmodels/faultstore"
	"github.com/vipnode/vipnode/v2/internal/verifmodels/sigs"
	"github.com/vipnode/vipnode/v2/pool/store"
)

type verifCand struct {
	id        store.NodeID
	isHost    bool
	kind      string
	fresh     bool
	onEdge    bool
	connected bool
	peered    bool
	host      *VerifHost
}

// VerifC08: peer requests return only eligible, acknowledged hosts, in the right number.
func VerifC08() {
	verifapi.MapOrderAll(verifapi.Param("maporder_all", 0) == 1)
	db := newVerifStore()
	p := New(db, nil)
	now := verifapi.Time("now")
	verifapi.SetNow(now)
	lean := verifapi.Param("lean", 0) == 1 // fault runs: only the peering of the candidates and the requested count vary
	max := 0
	if !lean {
		max = verifapi.Choose("max", 3) // MaxRequestHosts 0 (unlimited), 1, 2
	}
	p.MaxRequestHosts = max
	req := verifapi.NodeID(0)
	// the requester may itself be a connected, active host of a suitable kind (hosts ask for peers too)
	reqHost := &VerifHost{Name: "requester", Addr: "192.0.2.200:1", Behaviours: 1}
	reqIsHost := verifapi.Param("reqhost", 1) == 1 && verifapi.Bool("requester-is-host")
	db.SetNode(store.Node{ID: store.NodeID(req), LastSeen: now, Kind: "geth", IsHost: reqIsHost, URI: "enode://" + req + "@192.0.2.200:30303"})
	if reqIsHost {
		p.remoteHosts[store.NodeID(req)] = reqHost
		p.remoteNodeLookup[reqHost] = store.NodeID(req)
	}
	n := verifapi.Param("hosts", 2)
	// the requested kind: any, one of the two kinds the candidates have, or a kind the pool does not know
	wantKind := ""
	if !lean {
		wantKind = []string{"", "geth", "parity", "nethermind"}[verifapi.Choose("kind", 4)]
	}
	cands := make([]*verifCand, n)
	var peered []string
	for i := 0; i < n; i++ {
		c := &verifCand{id: store.NodeID(verifapi.NodeID(1 + i))}
		simple := lean || verifapi.Param("simple", 0) == 1 // every candidate is a fresh, connected, unpeered host: only the kinds vary
		c.isHost = simple || verifapi.Bool(fmt.Sprint("ishost", i))
		c.kind = "geth"
		if !lean {
			c.kind = []string{"geth", "parity"}[verifapi.Choose(fmt.Sprint("kind", i), 2)]
		}
		// LastSeen relative to the activity window (now-120s): fresh, stale, or exactly on the edge
		age := verifapi.Dur(fmt.Sprint("age", i))
		verifapi.Assume(age >= 0)
		verifapi.Assume(age < 1000000000000)
		if simple {
			verifapi.Assume(age == 1000000000)
		}
		c.fresh = age < time.Duration(store.ExpireInterval)
		c.onEdge = age == time.Duration(store.ExpireInterval)
		c.connected = simple || verifapi.Bool(fmt.Sprint("connected", i))
		// (a legacy vipnode_client request re-registers the node first; whether the
		// tracked peers survive that is a driver difference reported under C12)
		c.peered = (lean || !simple) && verifapi.Param("legacy_client", 0) == 0 && verifapi.Bool(fmt.Sprint("peered", i))
		db.SetNode(store.Node{ID: c.id, IsHost: c.isHost, Kind: c.kind, LastSeen: now.Add(-age), URI: "enode://" + string(c.id) + "@192.0.2.1:30303"})
		c.host = &VerifHost{Name: fmt.Sprint("h", i), Addr: "192.0.2.1:1", Behaviours: verifapi.Param("behaviours", 3)}
		if c.connected {
			p.remoteHosts[c.id] = c.host
			p.remoteNodeLookup[c.host] = c.id
		}
		if c.peered {
			peered = append(peered, string(c.id))
		}
		cands[i] = c
	}
	// existing peers of the requester (recorded now, so they are tracked)
	if len(peered) > 0 {
		db.UpdateNodePeers(store.NodeID(req), peered, 0)
	}
	num := verifapi.Choose("num", 6) - 2 // -2..3
	legacy := verifapi.Param("legacy_client", 0) == 1
	// optionally one store call of the request fails (a storage fault): whatever the pool still
	// returns must satisfy the statement, and an error must come without hosts
	fs := faultstore.New(db)
	if k := verifapi.Param("faultcalls", 0); k > 0 {
		p.Store = fs
		fs.Arm(verifapi.Choose("fault-at", k+1)-1, "")
	}
	var hosts []store.Node
	var err error
	nonce := VerifFreshNonce()
	if legacy {
		creq := ClientRequest{Kind: wantKind, NumHosts: num}
		var resp *ClientResponse
		resp, err = p.Client(context.Background(), sigs.SignFor(req, "vipnode_client", nonce, creq), req, nonce, creq)
		if resp != nil {
			hosts = resp.Hosts
		}
		if num <= 0 {
			num = 3 // documented default when a legacy request names no count
		}
	} else {
		preq := PeerRequest{Num: num, Kind: wantKind}
		var resp *PeerResponse
		resp, err = p.Peer(context.Background(), sigs.SignFor(req, "vipnode_peer", nonce, preq), req, nonce, preq)
		if resp != nil {
			hosts = resp.Peers
		}
	}
	replySeq := verifTick()
	fs.Disarm()
	faulted := fs.Failed != ""
	verifapi.Reach("c08.returned")
	want := num
	if want < 0 {
		want = 0
	}
	if max > 0 && want > max {
		want = max
	}
	verifapi.Class("nonpositive-num", num < 0)
	verifapi.Class("reply-not-trimmed-to-request", true)
	verifapi.Assert(len(hosts) <= want, "c08.count-le-requested")
	eligible, ackedEligible, activeOfKind, allGood := 0, 0, 0, true
	for _, c := range cands {
		ok := c.isHost && (wantKind == "" || c.kind == wantKind) && c.fresh && c.connected && !c.peered
		if c.isHost && (wantKind == "" || c.kind == wantKind) && (c.fresh || c.onEdge) {
			activeOfKind++
			if !ok || c.onEdge {
				allGood = false
			}
		}
		acked := c.host.Acked("vipnode_whitelist", req)
		if ok {
			eligible++
			if acked > 0 {
				ackedEligible++
			} else if c.host.Behaviours != 1 {
				// it was asked and did not acknowledge - or was never asked, in which case a stub that may
				// refuse says nothing; a stub that always acknowledges (behaviours=1) counts as willing
				allGood = false
			}
		}
		in := 0
		for _, h := range hosts {
			if h.ID == c.id {
				in++
			}
		}
		if in > 0 {
			verifapi.Assert(in == 1, "c08.no-duplicate-hosts")
			verifapi.Assert(c.isHost, "c08.returned-is-host")
			verifapi.Assert(wantKind == "" || c.kind == wantKind, "c08.returned-right-kind")
			verifapi.Assert(c.fresh || c.onEdge, "c08.returned-recently-active")
			verifapi.Assert(c.connected, "c08.returned-connected")
			verifapi.Assert(!c.peered, "c08.returned-not-already-peer")
			verifapi.Assert(acked > 0 && acked < replySeq, "c08.returned-acknowledged-before-reply")
		}
		if want == 0 {
			verifapi.Assert(len(c.host.Calls) == 0, "c08.no-whitelist-call-for-nonpositive-request")
		}
	}
	for _, h := range hosts {
		verifapi.Assert(string(h.ID) != req, "c08.never-returns-requester")
	}
	verifapi.Assert(len(reqHost.Calls) == 0, "c08.requester-never-asked-to-whitelist-itself")
	if err != nil {
		verifapi.Assert(len(hosts) == 0, "c08.error-means-no-hosts")
		verifapi.Assert(ackedEligible == 0 || want == 0, "c08.error-only-when-no-host-could-be-provided")
	}
	if verifapi.Param("behaviours", 3) == 1 && eligible > 0 && want > 0 && !faulted {
		verifapi.Assert(err == nil, "c08.error-only-when-no-host-could-be-provided")
	}
	if allGood && activeOfKind == eligible && want > 0 && !faulted {
		exp := want
		if eligible < exp {
			exp = eligible
		}
		verifapi.Assert(len(hosts) == exp, "c08.full-supply-exact-count")
	}
}
