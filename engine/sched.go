package main

import (
	"fmt"
	"go/types"

	"golang.org/x/tools/go/ssa"
)

type ChanObj struct {
	id     int
	cap    int
	buf    []Value
	closed bool
	sendq  []*waiter
	recvq  []*waiter
	tag    string // "ctxdone", "tick" ... for native channels
	// race detection: clocks of the buffered messages, of past receives (capacity edge), of the close
	bufVC   []VC
	recvVCs []VC
	nSent   int
	closeVC VC
}

// raceSent: goroutine s (nil: the environment) completes a send on c as the n-th send; msgVC is
// what the message carries.
func (m *Machine) raceSendVC(c *ChanObj, s *Goroutine) VC {
	if !m.race.on {
		return nil
	}
	// the (n-cap)-th receive happens before the n-th send completes
	if k := c.nSent - c.cap; c.cap > 0 && k >= 0 && k < len(c.recvVCs) {
		m.vcAcquire(s, c.recvVCs[k])
	}
	c.nSent++
	v := vcCopy(m.vcOf(s))
	m.vcTick(s)
	return v
}

func (m *Machine) raceRecvVC(c *ChanObj, r *Goroutine, msg VC) {
	if !m.race.on {
		return
	}
	m.vcAcquire(r, msg)
	if r != nil {
		c.recvVCs = append(c.recvVCs, vcCopy(m.vcOf(r)))
		m.vcTick(r)
	} else {
		c.recvVCs = append(c.recvVCs, nil)
	}
}

type waiter struct {
	g      *Goroutine
	val    Value // for senders
	op     *WaitOp
	caseIx int
}

// WaitOp is a blocked channel operation (send, receive or select).
type WaitOp struct {
	done  bool
	instr ssa.Instruction
	sel   *ssa.Select
	chans []*ChanObj
}

func (m *Machine) newChan(cap int) *ChanObj {
	m.nextID++
	return &ChanObj{id: m.nextID, cap: cap}
}

// Scheduling is delay-bounded (Emmi/Qadeer/Rakamaric): the default scheduler
// is deterministic round-robin (next runnable goroutine after the current
// one); every deviation — preempting a goroutine that could continue, or
// skipping over runnable goroutines at a blocking switch — costs one delay per
// goroutine skipped, and a path may spend at most cfg.MaxPreempt delays.

// rrOrder lists the runnable goroutines other than g in round-robin order after g.
func (m *Machine) rrOrder(g *Goroutine) []*Goroutine {
	var r []*Goroutine
	n := len(m.gs)
	start := 0
	if g != nil {
		start = g.id + 1
	}
	for i := 0; i < n; i++ {
		o := m.gs[(start+i)%n]
		if o != g && m.runnable(o) {
			r = append(r, o)
		}
	}
	return r
}

// maybePreempt offers the scheduler a switch before a visible operation.
func (m *Machine) maybePreempt(g *Goroutine) bool {
	if g.atSched {
		return false
	}
	g.atSched = true
	left := m.cfg.MaxPreempt - m.preemptions
	if left <= 0 {
		return false
	}
	others := m.rrOrder(g)
	if len(others) == 0 {
		return false
	}
	if len(others) > left {
		others = others[:left]
	}
	k := m.choose(1+len(others), "preempt")
	if k == 0 {
		return false
	}
	m.preemptions += k
	m.cur = others[k-1]
	return true
}

func (m *Machine) runnable(g *Goroutine) bool {
	if g.done || len(g.frames) == 0 {
		return false
	}
	if g.wait != nil {
		return false // completed only by a partner / close
	}
	if g.waitMu != nil {
		return g.waitMu.holder == nil && g.waitMu.readers == 0 || g.waitRead && g.waitMu.holder == nil
	}
	if g.waitFn != nil {
		return g.waitFn()
	}
	return true
}

// complete finishes a blocked channel op of goroutine w.g with the given result.
func (m *Machine) complete(w *waiter, val Value, ok bool) {
	w.op.done = true
	g := w.g
	g.wait = nil
	fr := g.top()
	switch in := w.op.instr.(type) {
	case *ssa.Send:
	case *ssa.UnOp:
		if in.CommaOk {
			fr.locals[in] = TupleVal{val, mkBool(ok)}
		} else {
			fr.locals[in] = val
		}
	case *ssa.Select:
		res := make(TupleVal, 2)
		res[0] = mkInt(int64(w.caseIx))
		res[1] = mkBool(ok)
		for i, st := range in.States {
			if st.Dir == types.RecvOnly {
				if i == w.caseIx {
					res = append(res, val)
				} else {
					res = append(res, m.zero(st.Chan.Type().Underlying().(*types.Chan).Elem()))
				}
			}
		}
		fr.locals[in] = res
	}
	fr.pc++
	g.atSched = false
	// drop this op from other queues lazily (done flag)
}

func firstLive(q []*waiter) (*waiter, []*waiter) {
	for len(q) > 0 {
		w := q[0]
		q = q[1:]
		if !w.op.done {
			return w, q
		}
	}
	return nil, q
}

func hasLive(q []*waiter) bool {
	for _, w := range q {
		if !w.op.done {
			return true
		}
	}
	return false
}

// trySend attempts a non-blocking send.
func (m *Machine) trySend(c *ChanObj, v Value) bool {
	if c.closed {
		panic(goPanic{msg: "send on closed channel"})
	}
	if len(c.buf) == 0 {
		var w *waiter
		w, c.recvq = firstLive(c.recvq)
		if w != nil {
			if m.race.on {
				s := m.race.actor
				before := vcCopy(m.vcOf(w.g))
				m.raceRecvVC(c, w.g, m.raceSendVC(c, s))
				if c.cap == 0 {
					m.vcAcquire(s, before) // rendezvous: the receive happens before the send completes
				}
			}
			m.complete(w, v, true)
			return true
		}
	}
	if len(c.buf) < c.cap {
		c.buf = append(c.buf, v)
		if m.race.on {
			c.bufVC = append(c.bufVC, m.raceSendVC(c, m.race.actor))
		}
		return true
	}
	return false
}

func (m *Machine) canSend(c *ChanObj) bool {
	if c.closed {
		return true // will panic
	}
	return len(c.buf) < c.cap || hasLive(c.recvq)
}

func (m *Machine) tryRecv(c *ChanObj, elem types.Type) (Value, bool, bool) {
	if len(c.buf) > 0 {
		v := c.buf[0]
		c.buf = c.buf[1:]
		if m.race.on && len(c.bufVC) > 0 {
			m.raceRecvVC(c, m.race.actor, c.bufVC[0])
			c.bufVC = c.bufVC[1:]
		}
		var w *waiter
		w, c.sendq = firstLive(c.sendq)
		if w != nil {
			c.buf = append(c.buf, w.val)
			if m.race.on {
				c.bufVC = append(c.bufVC, m.raceSendVC(c, w.g))
			}
			m.complete(w, nil, true)
		}
		return v, true, true
	}
	var w *waiter
	w, c.sendq = firstLive(c.sendq)
	if w != nil {
		v := w.val
		if m.race.on {
			r := m.race.actor
			before := vcCopy(m.vcOf(r))
			m.raceRecvVC(c, r, m.raceSendVC(c, w.g))
			m.vcAcquire(w.g, before)
		}
		m.complete(w, nil, true)
		return v, true, true
	}
	if c.closed {
		if m.race.on {
			m.vcAcquire(m.race.actor, c.closeVC)
		}
		return m.zero(elem), false, true
	}
	return nil, false, false
}

func (m *Machine) canRecv(c *ChanObj) bool {
	return len(c.buf) > 0 || hasLive(c.sendq) || c.closed
}

func (m *Machine) chanSend(g *Goroutine, fr *Frame, cv ChanVal, v Value) stepStatus {
	if m.maybePreempt(g) {
		return stBlocked
	}
	if cv.c == nil {
		g.waitFn = func() bool { return false }
		return stBlocked
	}
	if m.trySend(cv.c, v) {
		return stNext
	}
	op := &WaitOp{instr: fr.block.Instrs[fr.pc]}
	cv.c.sendq = append(cv.c.sendq, &waiter{g: g, val: v, op: op})
	g.wait = op
	return stBlocked
}

func (m *Machine) chanRecv(g *Goroutine, fr *Frame, x *ssa.UnOp, cv ChanVal, commaOk bool) stepStatus {
	if m.maybePreempt(g) {
		return stBlocked
	}
	if cv.c == nil {
		g.waitFn = func() bool { return false }
		return stBlocked
	}
	elem := x.X.Type().Underlying().(*types.Chan).Elem()
	v, ok, done := m.tryRecv(cv.c, elem)
	if done {
		if commaOk {
			fr.locals[x] = TupleVal{v, mkBool(ok)}
		} else {
			fr.locals[x] = v
		}
		return stNext
	}
	op := &WaitOp{instr: x}
	cv.c.recvq = append(cv.c.recvq, &waiter{g: g, op: op})
	g.wait = op
	return stBlocked
}

func (m *Machine) chanClose(cv ChanVal) {
	c := cv.c
	if c == nil {
		panic(goPanic{msg: "close of nil channel"})
	}
	if c.closed {
		panic(goPanic{msg: "close of closed channel"})
	}
	c.closed = true
	if m.race.on {
		c.closeVC = vcCopy(m.vcOf(m.race.actor))
		m.vcTick(m.race.actor)
	}
	for _, w := range c.recvq {
		if !w.op.done {
			m.vcAcquire(w.g, c.closeVC)
			var elem types.Type
			switch in := w.op.instr.(type) {
			case *ssa.UnOp:
				elem = in.X.Type().Underlying().(*types.Chan).Elem()
			case *ssa.Select:
				elem = in.States[w.caseIx].Chan.Type().Underlying().(*types.Chan).Elem()
			}
			m.complete(w, m.zero(elem), false)
		}
	}
	c.recvq = nil
	if hasLive(c.sendq) {
		panic(goPanic{msg: "send on closed channel (blocked sender)"})
	}
}

func (m *Machine) selectOp(g *Goroutine, fr *Frame, x *ssa.Select) stepStatus {
	if m.maybePreempt(g) {
		return stBlocked
	}
	type cs struct {
		ix int
		c  *ChanObj
	}
	var ready []cs
	chans := make([]*ChanObj, len(x.States))
	for i, st := range x.States {
		cv := m.get(fr, st.Chan).(ChanVal)
		chans[i] = cv.c
		if cv.c == nil {
			continue
		}
		if st.Dir == types.SendOnly {
			if m.canSend(cv.c) {
				ready = append(ready, cs{i, cv.c})
			}
		} else if m.canRecv(cv.c) {
			ready = append(ready, cs{i, cv.c})
		}
	}
	mkRes := func(ix int, ok bool, val Value) TupleVal {
		res := TupleVal{mkInt(int64(ix)), mkBool(ok)}
		for i, st := range x.States {
			if st.Dir == types.RecvOnly {
				if i == ix {
					res = append(res, val)
				} else {
					res = append(res, m.zero(st.Chan.Type().Underlying().(*types.Chan).Elem()))
				}
			}
		}
		return res
	}
	if len(ready) > 0 {
		k := 0
		if len(ready) > 1 {
			k = m.choose(len(ready), "select")
		}
		r := ready[k]
		st := x.States[r.ix]
		if st.Dir == types.SendOnly {
			if !m.trySend(r.c, m.get(fr, st.Send)) {
				panic(abortf("select: send became unready"))
			}
			fr.locals[x] = mkRes(r.ix, false, nil)
		} else {
			v, ok, done := m.tryRecv(r.c, st.Chan.Type().Underlying().(*types.Chan).Elem())
			if !done {
				panic(abortf("select: recv became unready"))
			}
			fr.locals[x] = mkRes(r.ix, ok, v)
		}
		return stNext
	}
	if !x.Blocking {
		fr.locals[x] = mkRes(-1, false, nil)
		return stNext
	}
	op := &WaitOp{instr: x, sel: x, chans: chans}
	for i, st := range x.States {
		if chans[i] == nil {
			continue
		}
		w := &waiter{g: g, op: op, caseIx: i}
		if st.Dir == types.SendOnly {
			w.val = m.get(fr, st.Send)
			chans[i].sendq = append(chans[i].sendq, w)
		} else {
			chans[i].recvq = append(chans[i].recvq, w)
		}
	}
	g.wait = op
	return stBlocked
}

// ---- mutexes ----

func (m *Machine) mutexLock(g *Goroutine, mu *MutexObj, read bool) stepStatus {
	if m.maybePreempt(g) {
		return stBlocked
	}
	if read {
		if mu.holder == nil {
			mu.readers++
			g.waitMu = nil
			m.vcAcquire(g, mu.vc)
			return stNext
		}
	} else if mu.holder == nil && mu.readers == 0 {
		mu.holder = g
		g.waitMu = nil
		if m.race.on {
			m.vcAcquire(g, vcJoin(mu.vc, mu.rvc))
		}
		g.locks = append(g.locks, mu)
		return stNext
	}
	if mu.holder == g {
		m.checkAssert(tFalse, "no-self-deadlock", "deadlock", "goroutine locks a mutex it already holds")
	}
	g.waitMu = mu
	g.waitRead = read
	return stBlocked
}

func (m *Machine) mutexUnlock(g *Goroutine, mu *MutexObj, read bool) {
	if read {
		if mu.readers == 0 {
			panic(goPanic{msg: "sync: RUnlock of unlocked RWMutex"})
		}
		mu.readers--
		if m.race.on {
			mu.rvc = vcJoin(mu.rvc, m.vcOf(g))
			m.vcTick(g)
		}
		return
	}
	if mu.holder == nil {
		panic(goPanic{msg: "sync: unlock of unlocked mutex"})
	}
	mu.holder = nil
	if m.race.on {
		mu.vc = vcCopy(m.vcOf(g))
		m.vcTick(g)
	}
	for i, l := range g.locks {
		if l == mu {
			g.locks = append(g.locks[:i], g.locks[i+1:]...)
			break
		}
	}
}

// ---- timers and contexts ----

type timerEv struct {
	c     *ChanObj
	kind  string // "tick" | "after" | "deadline"
	ctx   *CtxObj
	fired int
	max   int
	dur   *Term
}

type CtxObj struct {
	id     int
	parent *CtxObj
	key    Value
	val    Value
	done   *ChanObj // nil for Background/WithValue chains without cancel
	err    Value    // IfaceVal error once done
	hasDl  bool
}

func (c *CtxObj) implements(it *types.Interface) bool { return true }

func (c *CtxObj) doneChan() *ChanObj {
	for x := c; x != nil; x = x.parent {
		if x.done != nil {
			return x.done
		}
	}
	return nil
}

func (c *CtxObj) errVal() Value {
	for x := c; x != nil; x = x.parent {
		if x.done != nil && x.done.closed {
			return x.err
		}
	}
	return IfaceVal{}
}

func (c *CtxObj) invoke(m *Machine, g *Goroutine, method string, args []Value) (Value, stepStatus) {
	switch method {
	case "Done":
		return ChanVal{c: c.doneChan()}, stNext
	case "Err":
		return c.errVal(), stNext
	case "Value":
		for x := c; x != nil; x = x.parent {
			if x.key != nil && m.valueEq(x.key, args[0]).isTrue() {
				return x.val, stNext
			}
		}
		return IfaceVal{}, stNext
	case "Deadline":
		return TupleVal{TimeVal{mkIntBig(zeroTimeNs)}, tFalse}, stNext
	}
	panic(abortf("context method %s", method))
}

func (m *Machine) cancelCtx(c *CtxObj, errName string) {
	if c.done == nil || c.done.closed {
		return
	}
	c.err = m.newErrorValue(errName)
	m.chanClose(ChanVal{c: c.done})
	// children with their own done channels
	for _, o := range m.ctxs {
		if o.parent != nil && o.done != nil && !o.done.closed {
			for p := o.parent; p != nil; p = p.parent {
				if p == c {
					o.err = c.err
					m.chanClose(ChanVal{c: o.done})
					break
				}
			}
		}
	}
}

// pendingEvents lists environment events that may fire when nothing else can run.
func (m *Machine) pendingEvents() []*timerEv {
	var evs []*timerEv
	for _, t := range m.timers {
		switch t.kind {
		case "deadline":
			if !t.ctx.done.closed {
				evs = append(evs, t)
			}
		case "tick":
			if t.fired < t.max && len(t.c.buf) < t.c.cap {
				evs = append(evs, t)
			}
		case "after":
			if t.fired == 0 {
				evs = append(evs, t)
			}
		}
	}
	return evs
}

func (m *Machine) fire(t *timerEv) {
	defer func(a *Goroutine) { m.race.actor = a }(m.race.actor)
	m.race.actor = nil // environment events carry no happens-before edge
	t.fired++
	m.nEvents++
	switch t.kind {
	case "deadline":
		m.cancelCtx(t.ctx, "context.DeadlineExceeded")
	case "tick", "after":
		if !m.trySend(t.c, TimeVal{m.clock}) {
			// receiver not ready and buffer full: tick dropped (as in time.Tick)
		}
	}
}

// ---- main loop ----

func (m *Machine) pick() *Goroutine {
	g := m.cur
	if g != nil && m.runnable(g) {
		return g
	}
	cands := m.rrOrder(g)
	if len(cands) == 0 {
		return nil
	}
	left := m.cfg.MaxPreempt - m.preemptions
	if left < 0 {
		left = 0
	}
	if len(cands) > left+1 {
		cands = cands[:left+1]
	}
	k := 0
	if len(cands) > 1 {
		k = m.choose(len(cands), "sched")
	}
	m.preemptions += k
	m.cur = cands[k]
	return m.cur
}

func (m *Machine) runLoop() {
	for !m.finished {
		func() {
			defer func() {
				if r := recover(); r != nil {
					if gp, ok := r.(goPanic); ok {
						m.startPanic(m.cur, gp)
						return
					}
					panic(r)
				}
			}()
			for !m.finished {
				if m.gs[0].done {
					m.finished = true
					m.endReason = "returned"
					return
				}
				g := m.pick()
				if g == nil {
					evs := m.pendingEvents()
					if len(evs) == 0 {
						m.onDeadlock()
						return
					}
					k := 0
					if len(evs) > 1 {
						k = m.choose(len(evs), "event")
					}
					m.fire(evs[k])
					continue
				}
				if g.commitPending {
					// the commit of a badger transaction is its own scheduling point
					if m.maybePreempt(g) {
						continue
					}
					g.atSched = false
					m.race.actor = g
					m.runPendingCommit(g)
					continue
				}
				if g.panicV != nil && len(g.frames) == g.unwindDepth {
					m.race.actor = g
					m.unwindStep(g)
					continue
				}
				m.race.actor = g
				m.step(g)
			}
		}()
	}
}

func (m *Machine) startPanic(g *Goroutine, p goPanic) {
	if g.panicV != nil {
		// panic while panicking: give up on this goroutine
		m.checkAssert(tFalse, "no-panic", "panic", "double panic: "+p.msg)
		panic(pathEnd{"panic"})
	}
	p.msg += m.where()
	g.panicV = &p
	g.unwindDepth = len(g.frames)
	g.wait = nil
	g.waitMu = nil
	g.waitFn = nil
}

func (m *Machine) unwindStep(g *Goroutine) {
	if len(g.frames) == 0 {
		msg := g.panicV.msg
		m.panicMsg = msg
		m.checkAssert(tFalse, "no-panic", "panic", msg)
		panic(pathEnd{"panic"})
	}
	fr := g.top()
	if len(fr.defers) > 0 {
		d := fr.defers[len(fr.defers)-1]
		fr.defers = fr.defers[:len(fr.defers)-1]
		m.invokeValue(g, fr, d.fn, d.args, nil, nil, true)
		return
	}
	g.frames = g.frames[:len(g.frames)-1]
	g.unwindDepth--
	if len(g.frames) == 0 {
		msg := g.panicV.msg
		m.panicMsg = msg
		m.checkAssert(tFalse, "no-panic", "panic", msg)
		panic(pathEnd{"panic"})
	}
}

func (m *Machine) onDeadlock() {
	desc := ""
	for _, g := range m.gs {
		if !g.done && len(g.frames) > 0 {
			fr := g.top()
			desc += fmt.Sprintf(" g%d@%s[wait=%v mu=%v fn=%v]", g.id, fr.fn.Name(), g.wait != nil, g.waitMu != nil, g.waitFn != nil)
		} else {
			desc += fmt.Sprintf(" g%d(done=%v frames=%d)", g.id, g.done, len(g.frames))
		}
	}
	m.checkAssert(tFalse, "no-deadlock", "deadlock", "all goroutines blocked:"+desc)
	panic(pathEnd{"deadlock"})
}
