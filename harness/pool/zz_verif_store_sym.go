package pool

import (
	"github.com/vipnode/vipnode/v2/pool/store"
	"github.com/vipnode/vipnode/v2/pool/store/memory"
)

func newVerifStore() store.Store { return memory.New() }
