package main

import (
	"encoding/json"
	"flag"
	"fmt"
	"os"
	"path/filepath"
	"runtime"
	"sort"
	"strconv"
	"strings"
	"time"
)

func usage() {
	fmt.Fprintln(os.Stderr, `usage:
  gosym run -pkg <rel pkg> -func <Harness> [-workers N] [-p k=v ...]   explore one harness (development)
  gosym check <property-id> <quick|thorough>                           run a registered check
  gosym replay <file>                                                  re-run a stored counterexample natively`)
	os.Exit(2)
}

func main() {
	if len(os.Args) < 2 {
		usage()
	}
	if d := os.Getenv("VERIF_DIR"); d != "" {
		verifDir = d
	}
	if d := os.Getenv("GOSYM_REPO"); d != "" {
		repoDir = d
	}
	switch os.Args[1] {
	case "run":
		cmdRun(os.Args[2:])
	case "check":
		if len(os.Args) < 4 {
			usage()
		}
		os.Exit(cmdCheck(os.Args[2], os.Args[3]))
	case "replay":
		if len(os.Args) < 3 {
			usage()
		}
		os.Exit(cmdReplay(os.Args[2]))
	default:
		usage()
	}
}

type paramFlags map[string]int

func (p paramFlags) String() string { return fmt.Sprint(map[string]int(p)) }
func (p paramFlags) Set(s string) error {
	kv := strings.SplitN(s, "=", 2)
	if len(kv) != 2 {
		return fmt.Errorf("want k=v")
	}
	n, err := strconv.Atoi(kv[1])
	if err != nil {
		return err
	}
	p[kv[0]] = n
	return nil
}

func cmdRun(args []string) {
	fs := flag.NewFlagSet("run", flag.ExitOnError)
	pkg := fs.String("pkg", "", "package path relative to the repo module")
	fn := fs.String("func", "", "harness function")
	workers := fs.Int("workers", runtime.NumCPU(), "parallel workers")
	preempt := fs.Int("preempt", 0, "max preemptions per path")
	ticks := fs.Int("ticks", 2, "max ticks per ticker")
	maxPaths := fs.Int("maxpaths", 0, "path budget")
	cross := fs.Bool("cross", false, "cross-check assertion queries with z3-new")
	prop := fs.String("prop", "", "property id for known findings")
	verbose := fs.Bool("v", false, "print violations in full")
	params := paramFlags{}
	fs.Var(params, "p", "harness parameter k=v")
	fs.Parse(args)
	ld, err := loadProgram([]string{*pkg})
	if err != nil {
		fmt.Fprintln(os.Stderr, "load:", err)
		os.Exit(2)
	}
	cfg := &HarnessCfg{Name: *fn, Pkg: *pkg, Func: *fn, MaxPreempt: *preempt, MaxTicks: *ticks, MaxPaths: *maxPaths, Params: params}
	if *prop != "" {
		cfg.Known = loadKnown(*prop)
	}
	res, err := exploreHarness(ld, cfg, *workers, *cross)
	if err != nil {
		fmt.Fprintln(os.Stderr, "explore:", err)
		os.Exit(2)
	}
	fmt.Print(res.summary())
	for _, v := range res.Violations {
		fmt.Printf("  VIOL %s kind=%s known=%v classes=%v %s\n", v.AssertID, v.Kind, v.Known, v.Classes, v.Msg)
		if *verbose {
			ks := make([]string, 0, len(v.Model))
			for k := range v.Model {
				ks = append(ks, k)
			}
			sort.Strings(ks)
			for _, k := range ks {
				fmt.Printf("      %s = %s\n", k, v.Model[k])
			}
			for k, o := range v.Observed {
				fmt.Printf("      obs %s = %s\n", k, o)
			}
		}
	}
}

func loadKnown(prop string) []KnownFinding {
	b, err := os.ReadFile(filepath.Join(verifDir, "known-findings.json"))
	if err != nil {
		return nil
	}
	var all []KnownFinding
	if err := json.Unmarshal(b, &all); err != nil {
		fmt.Fprintln(os.Stderr, "known-findings.json:", err)
		os.Exit(2)
	}
	var r []KnownFinding
	for _, k := range all {
		if k.Property == prop {
			r = append(r, k)
		}
	}
	return r
}

var startTime = time.Now()
