//go:build verifreplay

package request

import (
	"crypto/ecdsa"
	"encoding/base64"
	"encoding/hex"

	"github.com/ethereum/go-ethereum/crypto"
	"github.com/vipnode/vipnode/v2/internal/verifapi"
)

var verifKeys = []string{
	`Qz7wmX+MXfvY85IsJMnMFd8fOI4msOT24bp6Iw/NuPo=`, `OX9lnxz+fWNmEEBXCKfEmEsh5oGhCXXdHJBqilgZPNc=`, `pebDrvrc9iHxN8k7YJva6bvr6Mzimb9ZbFrGpVy/Wb0=`,
	`cl3X1He2rNZiXbsii3M9zxBTi9B7gB1Tqgk6u5rMytE=`, `+0HMUDyMBxFbNat59Vl6Sg+3EcVgiXt1y+JNtnjKb18=`, `exk5qBaBxCex5A5Rx9/0qokyz4tu2aAwCJNzsEtIXnk=`,
	`eqS1AIeHCa6xA4WWE2Q8hooTFVyUtQasJeDH3TSxkGU=`, `DvqsYyCf9KmbmcC34hTwIjzVWSJnXKTxSxJAlKABSBs=`,
}

func verifKey(identity string) *ecdsa.PrivateKey {
	i := verifapi.KeyIndex(identity)
	if i < 0 {
		panic("no key for identity")
	}
	data, _ := base64.StdEncoding.DecodeString(verifKeys[i])
	k, err := crypto.ToECDSA(data)
	if err != nil {
		panic(err)
	}
	return k
}

// verifSignV: see zz_verif_c04_sym.go.
func verifSignV(key *ecdsa.PrivateKey, v int, method, id string, nonce int64, arg verifArgs, extra int64) (string, int64, error) {
	for k := int64(0); k < 256; k++ {
		sig, err := Sign(key, method, id, nonce, arg, extra+k)
		if err != nil {
			return "", extra, err
		}
		if b, derr := hex.DecodeString(sig); derr == nil && len(b) == 65 && int(b[64]) == v {
			return sig, extra + k, nil
		}
	}
	panic("no signature with the wanted recovery id")
}
