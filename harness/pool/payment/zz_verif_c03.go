package payment

import (
	"context"
	"errors"
	"math/big"
	"strings"
	"time"

	"github.com/vipnode/vipnode/v2/internal/verifapi"
	"github.com/vipnode/vipnode/v2/internal/verifmodels/sigs"
	"github.com/vipnode/vipnode/v2/pool"
	"github.com/vipnode/vipnode/v2/pool/balance"
	"github.com/vipnode/vipnode/v2/pool/store"
)

// VerifC03RealProxy: the minimum-balance rule through the real contract
// payment proxy (contractPayment.GetNodeBalance + its deposit cache; only the
// contract call itself is a stub returning a symbolic deposit): a client
// linked to a wallet is judged on deposit + credit, a trial client (no
// wallet, hence no deposit) on its credit alone; at connect and at a billed
// keep-alive.
func VerifC03RealProxy() {
	db := newVerifStore()
	client := store.NodeID(verifapi.NodeID(0))
	host := store.NodeID(verifapi.NodeID(1))
	wal := store.Account(verifapi.Wallet(0))
	now := verifapi.Time("now")
	last := verifapi.Time("last")
	verifapi.Assume(!now.Before(last))
	verifapi.SetNow(now)
	db.SetNode(store.Node{ID: client, LastSeen: last})
	db.SetNode(store.Node{ID: host, IsHost: true, LastSeen: now})
	credit := verifapi.BigInt("credit")
	deposit := verifapi.BigInt("deposit")
	verifapi.Assume(deposit.Sign() >= 0)
	linked := verifapi.Bool("linked")
	if linked {
		db.AddAccountNode(wal, client)
	}
	db.AddNodeBalance(client, credit)
	lookups := 0
	cp := &contractPayment{store: db}
	cp.balanceCache.Getter = func(a store.Account) (*big.Int, error) {
		lookups++
		verifapi.Assert(a == wal, "c03.proxy.deposit-looked-up-for-the-clients-wallet")
		return new(big.Int).Set(deposit), nil
	}
	mgr := balance.PayPerInterval(cp, 60000000000, big.NewInt(100000000000))
	min := verifapi.BigInt("min")
	mgr.MinBalance = min
	spendable := new(big.Int).Set(credit)
	if linked {
		spendable.Add(spendable, deposit)
	}
	if verifapi.Bool("atconnect") {
		err := mgr.OnClient(store.Node{ID: client})
		verifapi.Reach("c03.proxy")
		if lbe, ok := err.(balance.LowBalanceError); ok {
			verifapi.Assert(spendable.Cmp(min) < 0, "c03.proxy.client-at-or-above-min-never-refused")
			verifapi.Assert(lbe.CurrentBalance.Cmp(spendable) == 0, "c03.proxy.error-reports-actual-balance")
		} else {
			verifapi.Assert(err == nil, "c03.proxy.no-other-error")
			verifapi.Assert(spendable.Cmp(min) >= 0, "c03.proxy.client-below-min-refused")
		}
		verifapi.Assert(linked || lookups == 0, "c03.proxy.no-deposit-for-trial-clients")
		return
	}
	// a keep-alive billing one host for the elapsed time
	charge := new(big.Int).Mul(big.NewInt(int64(now.Sub(last))), big.NewInt(100000000000))
	charge.Div(charge, big.NewInt(60000000000))
	_, err := mgr.OnUpdate(store.Node{ID: client, LastSeen: last}, []store.Node{{ID: host, IsHost: true}})
	verifapi.Reach("c03.proxy")
	want := new(big.Int).Sub(spendable, charge)
	billed := charge.Sign() != 0
	if lbe, ok := err.(balance.LowBalanceError); ok {
		verifapi.Assert(want.Cmp(min) < 0, "c03.proxy.update-at-or-above-min-never-cut-off")
		verifapi.Assert(lbe.CurrentBalance.Cmp(want) == 0, "c03.proxy.update-error-reports-balance-after-charge")
	} else {
		verifapi.Assert(err == nil, "c03.proxy.no-other-error")
		verifapi.Assert(!(billed && want.Cmp(min) < 0), "c03.proxy.update-below-min-cut-off")
	}
	after, _ := cp.GetNodeBalance(client)
	verifapi.Assert(new(big.Int).Add(&after.Credit, &after.Deposit).Cmp(want) == 0, "c03.proxy.charge-applied")
}

// VerifC03RealBig: a history of billed keep-alives through the real
// contract-payment proxy with the REAL math/big code interpreted (concrete
// amounts): the balance manager must not alter the numbers the store handed
// out to it (a copied big.Int shares its digits), so after every keep-alive
// the stored credit, the refusal decision and the reported balance are exactly
// what the arithmetic says.
func VerifC03RealBig() {
	db := newVerifStore()
	client := store.NodeID(verifapi.NodeID(0))
	host := store.NodeID(verifapi.NodeID(1))
	wal := store.Account(verifapi.Wallet(0))
	now := time.Unix(1600000000, 0)
	verifapi.SetNow(now)
	db.SetNode(store.Node{ID: client, LastSeen: now})
	db.SetNode(store.Node{ID: host, IsHost: true, LastSeen: now})
	// optionally a second host, which shares a wallet with the first one or is on trial
	nh := verifapi.Param("hosts", 1)
	host2 := store.NodeID(verifapi.NodeID(2))
	peers := []store.Node{{ID: host, IsHost: true}}
	shared := false
	if nh == 2 {
		db.SetNode(store.Node{ID: host2, IsHost: true, LastSeen: now})
		peers = append(peers, store.Node{ID: host2, IsHost: true})
		if shared = verifapi.Bool("hosts-share-wallet"); shared {
			hw := store.Account(verifapi.Wallet(1))
			db.AddAccountNode(hw, host)
			db.AddAccountNode(hw, host2)
		}
	}
	db.AddAccountNode(wal, client)
	db.AddNodeBalance(client, big.NewInt(300))
	db.AddNodeBalance(client, big.NewInt(200)) // 500, in a number with spare capacity (as every accumulated credit has)
	deposit := int64([]int{0, 100, 1000}[verifapi.Choose("deposit", 3)])
	cp := &contractPayment{store: db}
	cp.balanceCache.Getter = func(a store.Account) (*big.Int, error) { return big.NewInt(deposit), nil }
	mgr := balance.PayPerInterval(cp, time.Minute, big.NewInt(60)) // 1 unit per second and host
	const min = 50
	mgr.MinBalance = big.NewInt(min)
	credit := int64(500)
	last := now
	// the wallet may also try to withdraw in between; the attempt is refused (minimum not met) and
	// must leave what the balance manager reads - deposit and credit - as it was
	pay := &PaymentService{NonceStore: db, AccountStore: db, BalanceStore: cp, WithdrawMin: big.NewInt(1000000000),
		Settle: func(store.Account, *big.Int, *big.Int) (string, error) { return "", errors.New("not reached") }}
	steps := verifapi.Param("steps", 3)
	// a balance handed out now (a pool_account reply somebody keeps) is a snapshot (C10)
	first, _ := cp.GetAccountBalance(wal)
	for k := 0; k < steps; k++ {
		if verifapi.Param("withdraws", 1) == 1 && verifapi.Bool("withdraw-attempt") {
			nonce := pool.VerifFreshNonce()
			err := pay.Withdraw(context.Background(), sigs.SignFor(string(wal), "pool_withdraw", nonce), string(wal), nonce)
			verifapi.Assert(err != nil, "c03.real.withdraw-below-minimum-refused")
		}
		dt := []int64{10, 200, 400}[verifapi.Choose("dt", 3)]
		now = now.Add(time.Duration(dt) * time.Second)
		verifapi.SetNow(now)
		_, err := mgr.OnUpdate(store.Node{ID: client, LastSeen: last}, peers)
		last = now
		credit -= dt * int64(nh)
		if lbe, ok := err.(balance.LowBalanceError); ok {
			verifapi.Assert(credit+deposit < min, "c03.real.update-at-or-above-min-never-cut-off")
			verifapi.Assert(lbe.CurrentBalance.Int64() == credit+deposit, "c03.real.error-reports-actual-balance")
		} else {
			verifapi.Assert(err == nil, "c03.real.no-other-error")
			verifapi.Assert(credit+deposit >= min, "c03.real.update-below-min-cut-off")
		}
		stored, _ := db.GetAccountBalance(wal)
		verifapi.Assert(stored.Credit.Int64() == credit, "c03.real.stored-credit-is-previous-minus-charge")
		seen, _ := cp.GetAccountBalance(wal)
		verifapi.Assert(seen.Deposit.Int64() == deposit, "c03.real.deposit-read-is-the-deposit")
		hb, _ := db.GetNodeBalance(host)
		earned := 500 - credit
		if nh == 2 && !shared {
			earned /= 2 // each host has its own (trial) balance
		}
		verifapi.Assert(hb.Credit.Int64() == earned, "c03.real.host-credited-what-the-client-paid")
		if nh == 2 {
			hb2, _ := db.GetNodeBalance(host2)
			verifapi.Assert(hb2.Credit.Int64() == earned, "c03.real.host-credited-what-the-client-paid")
		}
		// a (re)connect at this point is judged on the same balance
		cerr := mgr.OnClient(store.Node{ID: client})
		verifapi.Assert((cerr != nil) == (credit+deposit < min), "c03.real.connect-judged-on-actual-balance")
		// ... and is a pure read: the ledger still adds up to what it started with (C01)
		stored, _ = db.GetAccountBalance(wal)
		sum := stored.Credit.Int64()
		hb, _ = db.GetNodeBalance(host)
		sum += hb.Credit.Int64()
		if nh == 2 && !shared {
			hb2, _ := db.GetNodeBalance(host2)
			sum += hb2.Credit.Int64()
		}
		verifapi.Assert(stored.Credit.Int64() == credit && sum == 500, "c01.real.connect-and-keepalive-preserve-the-sum")
	}
	verifapi.Reach("c03.real")
	verifapi.Assert(first.Credit.Int64() == 500 && first.Deposit.Int64() == deposit, "c10.real.handed-out-balance-is-a-snapshot")
}

// VerifC03ContractEvents: admission decisions through the real contract proxy
// (chain model behind the binding) while the wallet's on-chain deposit
// CHANGES: the first decision looks the deposit up (and caches it), then the
// deposit is topped up or withdrawn on-chain and the contract's Balance event
// reaches the cache as the subscription delivers it (under the checksummed
// address), and the next decision - at connect or at a billed keep-alive - is
// taken on the NEW deposit plus the credit.
func VerifC03ContractEvents() {
	db := newVerifStore()
	wal := store.Account(verifapi.Wallet(verifapi.Choose("wallet", 3)))
	client := store.NodeID(verifapi.NodeID(0))
	host := store.NodeID(verifapi.NodeID(1))
	cp := verifNewContractPayment(db)
	ch := verifTheChain
	key := strings.ToLower(string(wal))
	now := verifapi.Time("now")
	verifapi.SetNow(now)
	db.SetNode(store.Node{ID: client, LastSeen: now})
	db.SetNode(store.Node{ID: host, IsHost: true, LastSeen: now})
	db.AddAccountNode(wal, client)
	credit := verifapi.BigInt("credit")
	db.AddNodeBalance(client, credit)
	d1, d2 := verifapi.BigInt("deposit1"), verifapi.BigInt("deposit2")
	verifapi.Assume(d1.Sign() >= 0 && d2.Sign() >= 0)
	ch.deposit[key] = d1
	min := verifapi.BigInt("min")
	mgr := balance.PayPerInterval(cp, 60000000000, big.NewInt(100000000000))
	mgr.MinBalance = min
	judge := func(err error, spendable *big.Int, tag string) {
		if lbe, ok := err.(balance.LowBalanceError); ok {
			verifapi.Assert(spendable.Cmp(min) < 0, "c03.events.client-at-or-above-min-never-refused")
			verifapi.Assert(lbe.CurrentBalance.Cmp(spendable) == 0, "c03.events.error-reports-actual-balance")
		} else {
			verifapi.Assert(err == nil, "c03.events.no-other-error")
			verifapi.Assert(spendable.Cmp(min) >= 0, "c03.events.client-below-min-refused")
		}
	}
	// the deposit lookup may be in trouble at the first attempt (the chain read fails, or the deposit is
	// time-locked): that is an error of its own - never a verdict about a balance the pool could not read
	if trouble := verifapi.Choose("lookup-trouble", 3); trouble != 0 {
		if trouble == 1 {
			ch.failReads = 1
		} else {
			ch.timelocked[key] = true
		}
		var err error
		if verifapi.Bool("trouble-at-keepalive") {
			verifapi.SetNow(now.Add(30000000000))
			_, err = mgr.OnUpdate(store.Node{ID: client, LastSeen: now}, []store.Node{{ID: host, IsHost: true}})
			credit = new(big.Int).Sub(credit, big.NewInt(50000000000)) // (if the charge was made)
		} else {
			err = mgr.OnClient(store.Node{ID: client})
		}
		verifapi.Reach("c03.events.trouble")
		if lbe, ok := err.(balance.LowBalanceError); ok {
			spendable := new(big.Int).Add(credit, d1)
			verifapi.Assert(spendable.Cmp(min) < 0, "c03.events.unreadable-deposit-is-not-a-low-balance")
			verifapi.Assert(lbe.CurrentBalance.Cmp(spendable) == 0, "c03.events.error-reports-actual-balance")
		}
		return
	}
	judge(mgr.OnClient(store.Node{ID: client}), new(big.Int).Add(credit, d1), "first")
	// the deposit changes on-chain; the contract emits Balance(wallet, new deposit)
	ch.deposit[key] = d2
	ch.onBalance(wal, new(big.Int).Set(d2))
	verifapi.Reach("c03.events")
	if verifapi.Bool("then-connect") {
		judge(mgr.OnClient(store.Node{ID: client}), new(big.Int).Add(credit, d2), "second")
		return
	}
	dt := verifapi.Dur("dt")
	verifapi.Assume(dt > 0 && dt < 100000000000)
	verifapi.SetNow(now.Add(dt))
	charge := new(big.Int).Div(new(big.Int).Mul(big.NewInt(int64(dt)), big.NewInt(100000000000)), big.NewInt(60000000000))
	_, err := mgr.OnUpdate(store.Node{ID: client, LastSeen: now}, []store.Node{{ID: host, IsHost: true}})
	if charge.Sign() != 0 {
		judge(err, new(big.Int).Sub(new(big.Int).Add(credit, d2), charge), "keepalive")
	}
}
