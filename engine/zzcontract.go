package main

// The payment contract binding (github.com/vipnode/vipnode-contract/go/vipnodepool, abigen output)
// at the level contractPayment uses it: Accounts (a constant call) and OpSettle (a transaction).
// ABI packing, RLP, transaction signing and the Ethereum node behind bind.ContractBackend are
// outside the technique; the two binding methods hand over to the chain model the harness package
// defines (verifChainAccounts / verifChainOpSettle in pool/payment), which natively sits behind a
// fake ContractBackend that decodes the same two calls - so contractPayment's own code (GetBalance,
// OpSettle, the balance cache, the proxying getters) runs for real in both worlds.

import (
	"strings"
)

func (m *Machine) chainHook(name string) FuncVal {
	fn := m.ld.findFunc("pool/payment", name)
	if fn == nil {
		panic(abortf("contract binding used without the harness chain model (%s)", name))
	}
	return FuncVal{fn: fn}
}

func addrString(v Value, what string) StrVal {
	if o, ok := v.(OpaqueVal); ok && strings.HasPrefix(o.tag, "addr:") {
		return StrVal{s: o.tag[5:]}
	}
	panic(abortf("%s: address is not a modelled common.Address: %s", what, describe(v)))
}

func init() {
	const vp = "github.com/vipnode/vipnode-contract/go/vipnodepool."
	reg("(*"+vp+"VipnodePoolCaller).Accounts", func(m *Machine, g *Goroutine, c *callCtx) (Value, stepStatus) {
		m.callClosure(g, m.chainHook("verifChainAccounts"), []Value{addrString(c.args[2], "Accounts")}, func(ret Value) {
			t := ret.(TupleVal)
			c.deliver(TupleVal{StructVal{[]Value{t[0], t[1]}}, t[2]})
		})
		return nil, stStay
	})
	reg("(*"+vp+"VipnodePoolTransactor).OpSettle", func(m *Machine, g *Goroutine, c *callCtx) (Value, stepStatus) {
		if p, ok := c.args[1].(PtrVal); !ok || p.obj == nil {
			panic(goPanic{msg: "nil pointer dereference (TransactOpts)"})
		}
		m.callClosure(g, m.chainHook("verifChainOpSettle"), []Value{addrString(c.args[2], "OpSettle"), c.args[3], c.args[4]}, func(ret Value) {
			if iv, ok := ret.(IfaceVal); ok && iv.typ != nil {
				c.deliver(TupleVal{PtrVal{}, ret})
				return
			}
			tt := m.namedType("github.com/ethereum/go-ethereum/core/types", "Transaction")
			c.deliver(TupleVal{PtrVal{obj: m.newObj(m.zero(tt), tt, "types.Transaction")}, IfaceVal{}})
		})
		return nil, stStay
	})
	regV("(*github.com/ethereum/go-ethereum/core/types.Transaction).Hash", func(m *Machine, g *Goroutine, a []Value) Value {
		if p, ok := a[0].(PtrVal); !ok || p.obj == nil {
			panic(goPanic{msg: "nil pointer dereference (*types.Transaction).Hash"})
		}
		return OpaqueVal{tag: "txhash"}
	})
	regV("(github.com/ethereum/go-ethereum/common.Hash).Hex", func(m *Machine, g *Goroutine, a []Value) Value {
		return StrVal{s: "0x7478"}
	})
}
