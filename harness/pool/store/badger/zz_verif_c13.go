package badger

import (
	"errors"
	"fmt"
	"math/big"
	"time"

	"github.com/dgraph-io/badger/v2"
	"github.com/vipnode/vipnode/v2/internal/verifapi"
	"github.com/vipnode/vipnode/v2/pool/store"
)

type verifObs struct {
	Nodes    []interface{}
	Peers    []interface{}
	Balances []interface{}
	Links    []interface{}
	Marks    []interface{}
	Stats    interface{}
}

// verifObserve reads everything observable through the driver's API.
func verifObserve(s *badgerStore, ids []store.NodeID, accts []store.Account) verifapi.Snap {
	var o verifObs
	for _, id := range ids {
		n, err := s.GetNode(id)
		if err == nil {
			o.Nodes = append(o.Nodes, *n)
		} else {
			o.Nodes = append(o.Nodes, "absent")
		}
		ps, err := s.NodePeers(id)
		ids2 := map[store.NodeID]bool{}
		for _, p := range ps {
			ids2[p.ID] = true
		}
		o.Peers = append(o.Peers, ids2, err == nil)
		b, err := s.GetNodeBalance(id)
		o.Balances = append(o.Balances, b, err == nil)
		for _, a := range accts {
			o.Links = append(o.Links, s.IsAccountNode(a, id) == nil)
		}
		m, ok := verifMark(s, string(id))
		o.Marks = append(o.Marks, m, ok)
	}
	for _, a := range accts {
		b, _ := s.GetAccountBalance(a)
		o.Balances = append(o.Balances, b)
	}
	st, _ := s.Stats()
	o.Stats = []interface{}{st.NumTotalHosts, st.NumTotalClients, st.TotalCredit, st.NumTrialBalances, st.LatestBlockNumber}
	return verifapi.Snapshot(o)
}

func verifC13Setup(s *badgerStore, ids []store.NodeID, accts []store.Account, t0 time.Time, flags []bool, credits []*big.Int, links []int, tracks bool) {
	for i := 0; i < 2; i++ {
		if flags[i] {
			s.SetNode(store.Node{ID: ids[i], IsHost: i == 1, Kind: "geth", LastSeen: t0})
		}
		if flags[2+i] {
			s.AddNodeBalance(ids[i], credits[i])
		}
		if links[i] > 0 {
			s.AddAccountNode(accts[links[i]-1], ids[i])
		}
	}
	if tracks {
		s.UpdateNodePeers(ids[0], []string{string(ids[1])}, 1)
	}
}

func verifC13Op(s *badgerStore, k int, ids []store.NodeID, accts []store.Account, id store.NodeID, a store.Account, amount *big.Int, nonce int64) {
	switch k {
	case 0:
		s.SetNode(store.Node{ID: id, IsHost: true, Kind: "parity", LastSeen: verifapi.Now(), BlockNumber: 9})
	case 1:
		s.UpdateNodePeers(id, []string{string(ids[0]), string(ids[1])}, 5)
	case 2:
		s.AddNodeBalance(id, amount)
	case 3:
		s.AddAccountBalance(a, amount)
	case 4:
		s.AddAccountNode(a, id)
	case 5:
		s.CheckAndSaveNonce(string(id), nonce)
	}
}

// VerifC13Crash: every mutating driver operation, started from an arbitrary
// database, with the process killed before or after any committing
// transaction: what is read back afterwards is exactly the state before the
// operation or the state after the whole operation.
func VerifC13Crash() {
	ids := []store.NodeID{store.NodeID(verifapi.NodeID(0)), store.NodeID(verifapi.NodeID(1))}
	accts := []store.Account{store.Account(verifapi.Wallet(0)), store.Account(verifapi.Wallet(1))}
	t0 := verifapi.Time("t0")
	verifapi.SetNow(t0)
	flags := []bool{true, true, true, verifapi.Bool("credited1")}
	tracks := true
	if verifapi.Param("fullsetup", 0) == 1 {
		flags = []bool{verifapi.Bool("reg0"), verifapi.Bool("reg1"), verifapi.Bool("credited0"), verifapi.Bool("credited1")}
		tracks = verifapi.Bool("tracks")
	}
	credits := []*big.Int{verifapi.BigInt("credit0"), verifapi.BigInt("credit1")}
	links := []int{verifapi.Choose("link0", 3), verifapi.Choose("link1", 3)}
	main, twin := verifOpen(), verifOpen()
	verifC13Setup(main, ids, accts, t0, flags, credits, links, tracks)
	verifC13Setup(twin, ids, accts, t0, flags, credits, links, tracks)
	dt := verifapi.Dur("dt")
	verifapi.Assume(dt >= 0 && dt < time.Duration(1000000000000))
	verifapi.SetNow(t0.Add(dt))
	k := verifapi.Choose("op", 6)
	id := ids[verifapi.Choose("id", 2)]
	a := accts[verifapi.Choose("acct", 2)]
	amount := verifapi.BigInt("amount")
	nonce := verifapi.Int64("nonce")
	pre := verifObserve(main, ids, accts)
	verifC13Op(twin, k, ids, accts, id, a, amount, nonce)
	post := verifObserve(twin, ids, accts)
	verifapi.OnCrash(func() {
		// restart: a new driver instance over the same database
		re := &badgerStore{db: main.db, nonceExpire: main.nonceExpire}
		cur := verifObserve(re, ids, accts)
		verifapi.Reach("c13.crash-point")
		verifapi.Assert(verifapi.Same(cur, pre) || verifapi.Same(cur, post), "c13.crash-leaves-pre-or-post-state")
	})
	verifC13Op(main, k, ids, accts, id, a, amount, nonce)
	verifapi.NoCrash()
	re := &badgerStore{db: main.db, nonceExpire: main.nonceExpire}
	verifapi.Reach("c13.completed")
	verifapi.Assert(verifapi.Same(verifObserve(re, ids, accts), post), "c13.acknowledged-change-read-back-after-reopen")
}

func verifKeyPresent(db *badger.DB, key string) bool {
	ok := false
	db.View(func(txn *badger.Txn) error { ok = hasKey(txn, []byte(key)); return nil })
	return ok
}

// VerifC13Migrate: opening a database of any format version.
func VerifC13Migrate() {
	s := verifOpen()
	db := s.db
	ids := []store.NodeID{store.NodeID(verifapi.NodeID(0)), store.NodeID(verifapi.NodeID(1))}
	accts := []store.Account{store.Account(verifapi.Wallet(0)), store.Account(verifapi.Wallet(1))}
	t0 := verifapi.Time("t0")
	verifapi.SetNow(t0)
	// arbitrary content in every key space
	flags := []bool{verifapi.Bool("reg0"), verifapi.Bool("reg1"), verifapi.Bool("credited0"), verifapi.Bool("credited1")}
	credits := []*big.Int{verifapi.BigInt("credit0"), verifapi.BigInt("credit1")}
	links := []int{verifapi.Choose("link0", 3), 0}
	verifC13Setup(s, ids, accts, t0, flags, credits, links, verifapi.Bool("tracks"))
	hadNonce := verifapi.Bool("hasnonce")
	if hadNonce {
		n := verifapi.Int64("oldnonce")
		db.Update(func(txn *badger.Txn) error { return setItem(txn, []byte("vip:nonce:"+string(ids[0])), &n) })
		db.Update(func(txn *badger.Txn) error { return setItem(txn, []byte("vip:nonce:"+string(accts[0])), &n) })
	}
	// the on-disk format version: absent, or -1..4
	vsel := verifapi.Choose("version", 7)
	version := vsel - 2 // -1..4; vsel 0 = absent (reads as 0)
	if vsel > 0 {
		db.Update(func(txn *badger.Txn) error { return setVersion(txn, version) })
	} else {
		version = 0
	}
	obs := func() verifapi.Snap {
		var o verifObs
		for _, id := range ids {
			n, err := s.GetNode(id)
			if err == nil {
				o.Nodes = append(o.Nodes, *n)
			} else {
				o.Nodes = append(o.Nodes, "absent")
			}
			ps, _ := s.NodePeers(id)
			o.Peers = append(o.Peers, len(ps))
			b, err := s.GetNodeBalance(id)
			o.Balances = append(o.Balances, b, err == nil)
			for _, a := range accts {
				o.Links = append(o.Links, s.IsAccountNode(a, id) == nil)
			}
		}
		for _, a := range accts {
			b, _ := s.GetAccountBalance(a)
			o.Balances = append(o.Balances, b)
		}
		return verifapi.Snapshot(o)
	}
	pre := obs()
	all := verifapi.Snapshot(db)
	err := MigrateLatest(db, "test-db")
	verifapi.Reach("c13.migrate")
	var now int
	db.View(func(txn *badger.Txn) error { now, _ = getVersion(txn); return nil })
	switch {
	case version == dbVersion:
		verifapi.Assert(err == nil, "c13.current-version-opens")
		verifapi.Assert(verifapi.Same(all, verifapi.Snapshot(db)), "c13.reopening-current-database-changes-nothing")
	case version > dbVersion || version < 0:
		verifapi.Assert(err != nil, "c13.unsupported-version-refused")
		verifapi.Assert(verifapi.Same(all, verifapi.Snapshot(db)), "c13.refused-migration-changes-nothing")
	default:
		verifapi.Assert(err == nil, "c13.older-format-migrates")
		verifapi.Assert(now == dbVersion, "c13.migrated-to-current-version")
		verifapi.Assert(verifapi.Same(pre, obs()), "c13.migration-keeps-nodes-and-balances")
		verifapi.Assert(!verifKeyPresent(db, "vip:nonce:"+string(ids[0])) && !verifKeyPresent(db, "vip:nonce:"+string(accts[0])), "c13.old-format-nonces-dropped")
	}
}

// VerifC13StepMustBump: a migration step that does not raise the version is an error and nothing is committed.
func VerifC13StepMustBump() {
	s := verifOpen()
	bump := verifapi.Choose("bump", 3) // the step moves the version by -1, 0 or +1
	m := Migration{LatestVersion: 1, DatabaseID: "x", Steps: []MigrationStep{func(txn *badger.Txn) error {
		if verifapi.Bool("stepfails") {
			return errors.New("step failed")
		}
		setItem(txn, []byte("vip:marker"), &bump)
		return setVersion(txn, bump-1)
	}}}
	all := verifapi.Snapshot(s.db)
	err := m.Migrate(s.db)
	verifapi.Reach("c13.stepmustbump")
	if bump-1 <= 0 {
		verifapi.Assert(err != nil, "c13.step-without-version-bump-is-an-error")
	}
	if err != nil {
		verifapi.Assert(verifapi.Same(all, verifapi.Snapshot(s.db)), "c13.failed-migration-commits-nothing")
	}
}

var _ = fmt.Sprint

// VerifC13Reader: a concurrent reader of one of the driver's single-
// transaction getters (Stats, GetNodeBalance, NodePeers) while a mutating
// operation is in progress sees the state before the operation or the state
// after all of it - never a half-applied multi-key operation (a trial balance
// already removed but not yet merged, a link without its balance record).
func VerifC13Reader() {
	ids := []store.NodeID{store.NodeID(verifapi.NodeID(0)), store.NodeID(verifapi.NodeID(1))}
	accts := []store.Account{store.Account(verifapi.Wallet(0)), store.Account(verifapi.Wallet(1))}
	t0 := verifapi.Time("t0")
	verifapi.SetNow(t0)
	flags := []bool{true, true, true, verifapi.Bool("credited1")}
	credits := []*big.Int{verifapi.BigInt("credit0"), verifapi.BigInt("credit1")}
	links := []int{verifapi.Choose("link0", 3), verifapi.Choose("link1", 3)}
	main, twin := verifOpen(), verifOpen()
	verifC13Setup(main, ids, accts, t0, flags, credits, links, true)
	verifC13Setup(twin, ids, accts, t0, flags, credits, links, true)
	k := 1 + verifapi.Choose("op", 4) // UpdateNodePeers, AddNodeBalance, AddAccountBalance, AddAccountNode
	id := ids[verifapi.Choose("id", 2)]
	a := accts[verifapi.Choose("acct", 2)]
	amount := verifapi.BigInt("amount")
	rid := ids[verifapi.Choose("reader.id", 2)]
	which := verifapi.Choose("reader", 3)
	read := func(s *badgerStore) verifapi.Snap {
		switch which {
		case 0:
			st, err := s.Stats()
			return verifapi.Snapshot([]interface{}{st.NumTotalHosts, st.NumTotalClients, st.TotalCredit, st.NumTrialBalances, st.LatestBlockNumber, err == nil})
		case 1:
			b, err := s.GetNodeBalance(rid)
			return verifapi.Snapshot([]interface{}{b, err == nil})
		}
		ps, err := s.NodePeers(rid)
		set := map[store.NodeID]bool{}
		for _, p := range ps {
			set[p.ID] = true
		}
		return verifapi.Snapshot([]interface{}{set, err == nil})
	}
	pre := read(main)
	verifC13Op(twin, k, ids, accts, id, a, amount, 0)
	post := read(twin)
	done := make(chan struct{})
	go func() {
		verifC13Op(main, k, ids, accts, id, a, amount, 0)
		close(done)
	}()
	seen := read(main)
	<-done
	verifapi.Reach("c13.reader")
	verifapi.Assert(verifapi.Same(seen, pre) || verifapi.Same(seen, post), "c13.reader-sees-pre-or-post-state")
	verifapi.Assert(verifapi.Same(read(main), post), "c13.reader-final-state")
}

// VerifC13Pairs: two acknowledged operations that overlap (two agents being
// served at once) on the KV model, conflicts and retries included: what is
// read back afterwards - also by a new driver instance over the same database
// - equals the result of one of the two serial orders; in particular credit
// acknowledged while a node is being linked to a wallet is neither lost nor
// left on a trial balance nobody reads.
func VerifC13Pairs() {
	ids := []store.NodeID{store.NodeID(verifapi.NodeID(0)), store.NodeID(verifapi.NodeID(1))}
	accts := []store.Account{store.Account(verifapi.Wallet(0)), store.Account(verifapi.Wallet(1))}
	t0 := verifapi.Time("t0")
	verifapi.SetNow(t0)
	// node 0: registered, with or without trial credit, unlinked or linked to wallet 0; node 1: registered, unlinked
	flags := []bool{true, true, verifapi.Bool("credited0"), false}
	credits := []*big.Int{verifapi.BigInt("credit0"), big.NewInt(0)}
	links := []int{verifapi.Choose("link0", 2), 0}
	conc, ab, ba := verifOpen(), verifOpen(), verifOpen()
	for _, s := range []*badgerStore{conc, ab, ba} {
		verifC13Setup(s, ids, accts, t0, flags, credits, links, true)
	}
	// mutating operations whose acknowledgement promises an effect: peers, credits, links; the first one
	// acts on node 0 / wallet 0, the second on either node / wallet (unordered pairs: op1 <= op2)
	k1, k2 := 1+verifapi.Choose("op1", 6), 1+verifapi.Choose("op2", 6)
	verifapi.Assume(k1 <= k2)
	if a, b := verifapi.Param("pair_a", 0), verifapi.Param("pair_b", 0); a > 0 {
		verifapi.Assume(k1 == a && k2 == b) // one pair only (registrations of this harness under other properties)
	}
	verifReregBare = k2 == 5 && verifapi.Bool("rereg-bare")
	id1, id2 := ids[0], ids[verifapi.Choose("id2", 2)]
	a1, a2 := accts[0], accts[verifapi.Choose("acct2", 2)]
	m1, m2 := verifapi.BigInt("amount1"), verifapi.BigInt("amount2")
	op := func(s *badgerStore, which int) error {
		if which == 1 {
			return verifC13OpErr(s, k1, ids, id1, a1, m1)
		}
		return verifC13OpErr(s, k2, ids, id2, a2, m2)
	}
	e1ab, e2ab := op(ab, 1), op(ab, 2)
	e2ba, e1ba := op(ba, 2), op(ba, 1)
	done := make(chan int, 2)
	var e1, e2 error
	go func() { e1 = op(conc, 1); done <- 1 }()
	go func() { e2 = op(conc, 2); done <- 2 }()
	<-done
	<-done
	verifapi.Reach("c13.pairs")
	if e1 != nil || e2 != nil {
		// a refused operation (conflict reported to the caller, unregistered node) promises nothing:
		// only runs in which both calls were acknowledged are compared
		return
	}
	if e1ab != nil || e2ab != nil || e2ba != nil || e1ba != nil {
		return
	}
	verifapi.Reach("c13.pairs.both-acknowledged")
	re := &badgerStore{db: conc.db, nonceExpire: conc.nonceExpire}
	got := verifObserve(re, ids, accts)
	verifapi.Assert(verifapi.Same(got, verifObserve(ab, ids, accts)) || verifapi.Same(got, verifObserve(ba, ids, accts)), "c13.pairs.acknowledged-changes-read-back-as-in-a-serial-order")
}

// verifReregBare: which record a re-registration (operation 5) writes.
var verifReregBare bool

func verifC13OpErr(s *badgerStore, k int, ids []store.NodeID, id store.NodeID, a store.Account, amount *big.Int) error {
	switch k {
	case 1:
		_, err := s.UpdateNodePeers(id, []string{string(ids[0]), string(ids[1])}, 5)
		return err
	case 2:
		return s.AddNodeBalance(id, amount)
	case 3:
		return s.AddAccountBalance(a, amount)
	case 4:
		return s.AddAccountNode(a, id)
	case 6: // a keep-alive reporting another peer set (an update still in flight on an old connection)
		_, err := s.UpdateNodePeers(id, []string{string(ids[1])}, 6)
		return err
	case 5: // the node registers again (a reconnect): a new record for the same id
		if verifReregBare {
			// ... as a bare light client: the record clears what the earlier one carried (kind, host flag, uri)
			return s.SetNode(store.Node{ID: id, LastSeen: verifapi.Now()})
		}
		return s.SetNode(store.Node{ID: id, IsHost: true, Kind: "parity", URI: "enode://" + string(id) + "@192.0.2.9:30303", LastSeen: verifapi.Now(), BlockNumber: 9})
	}
	return nil
}

// VerifC13Storm: acknowledged means applied, however contended the key is. One
// mutating operation whose transaction may hit up to n injected conflicts in a
// row (writers the path does not contain): if the driver acknowledges it, what
// is read back is exactly the effect of the operation; if it reports an error,
// nothing changed.
func VerifC13Storm() {
	ids := []store.NodeID{store.NodeID(verifapi.NodeID(0)), store.NodeID(verifapi.NodeID(1))}
	accts := []store.Account{store.Account(verifapi.Wallet(0)), store.Account(verifapi.Wallet(1))}
	t0 := verifapi.Time("t0")
	verifapi.SetNow(t0)
	flags := []bool{true, true, true, false}
	credits := []*big.Int{verifapi.BigInt("credit0"), big.NewInt(0)}
	links := []int{verifapi.Choose("link0", 2), 0}
	main, twin := verifOpen(), verifOpen()
	verifC13Setup(main, ids, accts, t0, flags, credits, links, true)
	verifC13Setup(twin, ids, accts, t0, flags, credits, links, true)
	k := 1 + verifapi.Choose("op", 4)
	id := ids[verifapi.Choose("id", 2)]
	a := accts[verifapi.Choose("acct", 2)]
	amount := verifapi.BigInt("amount")
	pre := verifObserve(main, ids, accts)
	terr := verifC13OpErr(twin, k, ids, id, a, amount)
	post := verifObserve(twin, ids, accts)
	verifapi.KVStorm(verifapi.Param("conflict_storm", 12))
	err := verifC13OpErr(main, k, ids, id, a, amount)
	verifapi.KVStorm(0)
	verifapi.Reach("c13.storm")
	got := verifObserve(&badgerStore{db: main.db, nonceExpire: main.nonceExpire}, ids, accts)
	if err == nil {
		verifapi.Assert(terr == nil && verifapi.Same(got, post), "c13.storm.acknowledged-operation-is-applied")
	} else {
		verifapi.Assert(verifapi.Same(got, pre), "c13.storm.refused-operation-changes-nothing")
	}
}

// VerifC13ReadBack: what the driver acknowledged is what a new driver
// instance over the same database reads back - checked against the values
// themselves, not against another run of the driver: node records, peer sets,
// wallet links in both directions (IsAccountNode and the wallet's node list),
// balances by node and by wallet, accepted nonces. The node ids are real ids
// of every leading hex digit class (the keys are built from them).
func VerifC13ReadBack() {
	all := []store.NodeID{store.NodeID(verifapi.NodeID(0)), store.NodeID(verifapi.NodeID(1)), store.NodeID(verifapi.NodeID(2)), store.NodeID(verifapi.NodeID(3)), store.NodeID(verifapi.NodeID(4))}
	host := all[verifapi.Choose("host", len(all))]
	client := all[verifapi.Choose("client", len(all))]
	verifapi.Assume(host != client)
	wal := store.Account(verifapi.Wallet(verifapi.Choose("wallet", 3)))
	t0 := verifapi.Time("t0")
	verifapi.SetNow(t0)
	s := verifOpen()
	hn := store.Node{ID: host, IsHost: true, Kind: "geth", URI: "enode://" + string(host) + "@192.0.2.1:30303", LastSeen: t0, Payout: wal}
	cn := store.Node{ID: client, Kind: "parity", LastSeen: t0}
	ok := s.SetNode(hn) == nil && s.SetNode(cn) == nil
	earned, spent := verifapi.BigInt("earned"), verifapi.BigInt("spent")
	ok = ok && s.AddNodeBalance(host, earned) == nil && s.AddNodeBalance(client, spent) == nil
	ok = ok && s.AddAccountNode(wal, host) == nil
	linkBoth := verifapi.Bool("client-linked-too")
	if linkBoth {
		ok = ok && s.AddAccountNode(wal, client) == nil
	}
	// a second tracked peer of another shape: a bare light client (no kind, no URI, no payout, not a host)
	var other store.NodeID
	for _, id := range all {
		if id != host && id != client {
			other = id
			break
		}
	}
	ok = ok && s.SetNode(store.Node{ID: other, LastSeen: t0}) == nil
	_, err := s.UpdateNodePeers(client, []string{string(host), string(other)}, 7)
	ok = ok && err == nil
	nonce := verifapi.Int64("nonce")
	verifapi.Assume(nonce > t0.UnixNano()-int64(store.ExpireNonce) && nonce <= t0.UnixNano())
	ok = ok && s.CheckAndSaveNonce(string(client), nonce) == nil
	verifapi.Assert(ok, "c13.readback.setup-acknowledged")
	// the pool is closed and reopened
	re := &badgerStore{db: s.db, nonceExpire: s.nonceExpire}
	verifapi.Reach("c13.readback")
	got, err := re.GetNode(host)
	verifapi.Assert(err == nil && got.ID == host && got.IsHost && got.Kind == "geth" && got.URI == hn.URI && got.Payout == wal, "c13.readback.node")
	gc, err := re.GetNode(client)
	verifapi.Assert(err == nil && gc.ID == client && !gc.IsHost && gc.Kind == "parity" && gc.BlockNumber == 7, "c13.readback.node")
	verifapi.MapOrderAll(true)
	peers, err := re.NodePeers(client)
	verifapi.MapOrderAll(false)
	verifapi.Assert(err == nil && len(peers) == 2 && (peers[0].ID == host && peers[1].ID == other || peers[0].ID == other && peers[1].ID == host), "c13.readback.peers")
	// each tracked peer comes back as its own stored record, whatever the other peers look like
	for _, pn := range peers {
		if rec, gerr := re.GetNode(pn.ID); gerr == nil {
			verifapi.Assert(verifapi.Same(verifapi.Snapshot(pn), verifapi.Snapshot(*rec)), "c13.readback.peer-records")
		} else {
			verifapi.Unreachable("c13.readback.peer-record-missing")
		}
	}
	verifapi.Assert(re.IsAccountNode(wal, host) == nil, "c13.readback.link")
	verifapi.Assert((re.IsAccountNode(wal, client) == nil) == linkBoth, "c13.readback.link")
	nodes, err := re.GetAccountNodes(wal)
	want := 1
	if linkBoth {
		want = 2
	}
	verifapi.Assert(err == nil && len(nodes) == want, "c13.readback.wallet-node-list")
	for _, n := range nodes {
		verifapi.Assert(n == host || (linkBoth && n == client), "c13.readback.wallet-node-list")
	}
	wb, err := re.GetAccountBalance(wal)
	total := new(big.Int).Set(earned)
	if linkBoth {
		total.Add(total, spent)
	}
	verifapi.Assert(err == nil && wb.Credit.Cmp(total) == 0, "c13.readback.balance")
	hb, err := re.GetNodeBalance(host)
	verifapi.Assert(err == nil && hb.Credit.Cmp(total) == 0, "c13.readback.balance")
	cb, err := re.GetNodeBalance(client)
	if linkBoth {
		verifapi.Assert(err == nil && cb.Credit.Cmp(total) == 0, "c13.readback.balance")
	} else {
		verifapi.Assert(err == nil && cb.Credit.Cmp(spent) == 0, "c13.readback.balance")
	}
	verifapi.Assert(re.CheckAndSaveNonce(string(client), nonce) != nil, "c13.readback.nonce")
}
