#!/usr/bin/env python3
"""mkseedprompts.py <round> [emphasis text]: writes /tmp/seed<round>/<id>.prompt.txt for every property.

Each prompt holds only the property text, the sandbox instructions and the one-line ideas of the seeds
already stored under /verif/seeded (to be avoided) - nothing else from /verif. A fresh sub-agent is then
started per property with its own scratch worktree:
    git -C /repo worktree add --detach /tmp/seed<round>/<id> HEAD
and told: "Read the file /tmp/seed<round>/<id>.prompt.txt and carry out the task it describes ...".
Afterwards: tools/seedcheck.sh <name> /tmp/seed<round>/<id> <id> quick ; write meta.json ; remove the worktree.
"""
import json, glob, os, sys
V = os.path.dirname(os.path.dirname(os.path.abspath(__file__)))
rnd = sys.argv[1]
emphasis = sys.argv[2] if len(sys.argv) > 2 else "Prefer, in this order: (i) a concurrency slip (a lock released too early or taken too late, a check and its use split over two critical sections, a shared value read outside the lock), (ii) an error or a special case that is silently swallowed, (iii) state that is updated in one place but not in its sibling (a second map, a reverse index, a cache, the other storage driver), (iv) an off-by-one or wrong comparison at a boundary the tests do not touch. Be inventive and keep it plausible."
props = [json.loads(l) for l in open(os.path.join(V, 'properties.jsonl'))]
ideas = {}
for m in sorted(glob.glob(os.path.join(V, 'seeded', '*', 'meta.json'))):
    d = json.load(open(m)); ideas.setdefault(d['property'], []).append(d['change'])
tmpl = open(os.path.join(V, 'tools', 'seedprompt.template.txt')).read()
os.makedirs('/tmp/seed' + rnd, exist_ok=True)
for p in props:
    pid = p['id']; W = '/tmp/seed%s/%s' % (rnd, pid)
    block = "Here is a semantic property the code is supposed to satisfy:\n\nProperty %s: %s\n\nStatement: %s\n\nQuantified over: %s\n\nWhy the existing tests cannot settle it: %s\n\n\n" % (pid, p['title'], p['statement'], p['quantifier']['text'], p['why_tests_cant'])
    prev = "Previous attempts for this property already used the following ideas, so pick a DIFFERENT clause of the property and a DIFFERENT site in the code than each of them:\n" + "".join('  - "%s"\n' % c for c in ideas.get(pid, [])) + "Also do not simply revert one of the \"fix:\" commits in the git log (those were tried too). " + emphasis + "\n\n"
    out = tmpl.replace('{PROPERTY}', block).replace('{PREVIOUS}', prev).replace('{W}', W).replace('{ID}', pid).replace('{ROUND}', rnd)
    open('/tmp/seed%s/%s.prompt.txt' % (rnd, pid), 'w').write(out)
print("wrote 20 prompts to /tmp/seed" + rnd)
