// Package storespec is an executable reference model of the pool/store.Store
// contract (DESIGN Appendix F), used as the oracle of the C12 step simulation.
// It is deliberately naive: plain maps, no locking, no encoding.
package storespec

import (
	"math/big"
	"time"

	"github.com/vipnode/vipnode/v2/pool/store"
)

type Spec struct {
	Now   func() time.Time
	Nodes map[store.NodeID]store.Node
	Peers map[store.NodeID]map[store.NodeID]time.Time
	Link  map[store.NodeID]store.Account
	Bal   map[store.Account]*big.Int // credit of wallet accounts that exist
	Trial map[store.NodeID]*big.Int  // credit of unlinked nodes that have a trial cell
	Mark  map[string]int64
}

func New(now func() time.Time) *Spec {
	return &Spec{Now: now, Nodes: map[store.NodeID]store.Node{}, Peers: map[store.NodeID]map[store.NodeID]time.Time{},
		Link: map[store.NodeID]store.Account{}, Bal: map[store.Account]*big.Int{}, Trial: map[store.NodeID]*big.Int{}, Mark: map[string]int64{}}
}

// NonceVerdict: 1 accept, 0 reject, -1 either (nonce exactly on the freshness edge).
func (s *Spec) CheckAndSaveNonce(id string, n int64) int {
	edge := s.Now().Add(-store.ExpireNonce).UnixNano()
	m, ok := s.Mark[id]
	if n < edge || (ok && m >= n) {
		return 0
	}
	if n == edge {
		return -1
	}
	s.Mark[id] = n
	return 1
}

func (s *Spec) GetNode(id store.NodeID) (store.Node, error) {
	n, ok := s.Nodes[id]
	if !ok {
		return store.Node{}, store.ErrUnregisteredNode
	}
	return n, nil
}

func (s *Spec) SetNode(n store.Node) error {
	if n.ID == "" {
		return store.ErrMalformedNode
	}
	s.Nodes[n.ID] = n
	if s.Peers[n.ID] == nil {
		s.Peers[n.ID] = map[store.NodeID]time.Time{}
	}
	return nil
}

// ActiveSet returns the eligible set and the hosts whose LastSeen is exactly on the window edge.
func (s *Spec) ActiveSet(kind string) (eligible map[store.NodeID]bool, edge map[store.NodeID]bool) {
	since := s.Now().Add(-store.ExpireInterval)
	eligible, edge = map[store.NodeID]bool{}, map[store.NodeID]bool{}
	for id, n := range s.Nodes {
		if !n.IsHost || (kind != "" && n.Kind != kind) {
			continue
		}
		if n.LastSeen.After(since) {
			eligible[id] = true
		} else if n.LastSeen.Equal(since) {
			edge[id] = true
		}
	}
	return
}

func (s *Spec) NodePeers(id store.NodeID) (map[store.NodeID]bool, error) {
	if _, ok := s.Nodes[id]; !ok {
		return nil, store.ErrUnregisteredNode
	}
	r := map[store.NodeID]bool{}
	for p := range s.Peers[id] {
		if _, ok := s.Nodes[p]; ok {
			r[p] = true
		}
	}
	return r, nil
}

// UpdateNodePeers returns the surely-evicted set and the set that may go either way (timestamp on the edge).
func (s *Spec) UpdateNodePeers(id store.NodeID, peers []string, blk uint64) (evicted, either map[store.NodeID]bool, err error) {
	n, ok := s.Nodes[id]
	if !ok {
		return nil, nil, store.ErrUnregisteredNode
	}
	now := s.Now()
	for _, p := range peers {
		pid := store.NodeID(p)
		if pn, ok := s.Nodes[pid]; ok {
			if s.Peers[id] == nil {
				s.Peers[id] = map[store.NodeID]time.Time{}
			}
			s.Peers[id][pid] = pn.LastSeen
			if pid == id {
				s.Peers[id][pid] = now // a node reporting itself has just checked in
			}
		}
	}
	n.LastSeen = now
	n.BlockNumber = blk
	s.Nodes[id] = n
	deadline := now.Add(-store.ExpireInterval)
	evicted, either = map[store.NodeID]bool{}, map[store.NodeID]bool{}
	for p, ts := range s.Peers[id] {
		if ts.After(deadline) {
			continue
		}
		if ts.Equal(deadline) {
			either[p] = true
			continue
		}
		evicted[p] = true
		delete(s.Peers[id], p)
	}
	return evicted, either, nil
}

func (s *Spec) credit(id store.NodeID) (*big.Int, store.Account, error) {
	if _, ok := s.Nodes[id]; !ok {
		return nil, "", store.ErrUnregisteredNode
	}
	if a, ok := s.Link[id]; ok {
		if s.Bal[a] == nil {
			return new(big.Int), a, nil
		}
		return s.Bal[a], a, nil
	}
	if s.Trial[id] == nil {
		return new(big.Int), "", nil
	}
	return s.Trial[id], "", nil
}

func (s *Spec) GetNodeBalance(id store.NodeID) (*big.Int, error) {
	c, _, err := s.credit(id)
	return c, err
}

func (s *Spec) AddNodeBalance(id store.NodeID, c *big.Int) error {
	if _, ok := s.Nodes[id]; !ok {
		return store.ErrUnregisteredNode
	}
	if a, ok := s.Link[id]; ok {
		if s.Bal[a] == nil {
			s.Bal[a] = new(big.Int)
		}
		s.Bal[a] = new(big.Int).Add(s.Bal[a], c)
		return nil
	}
	if s.Trial[id] == nil {
		s.Trial[id] = new(big.Int)
	}
	s.Trial[id] = new(big.Int).Add(s.Trial[id], c)
	return nil
}

// Owner is the Account field a balance of wallet a carries: the wallet itself once a record
// exists for it (first credit or first link), empty before.
func (s *Spec) Owner(a store.Account) store.Account {
	if s.Bal[a] == nil {
		return ""
	}
	return a
}

func (s *Spec) GetAccountBalance(a store.Account) *big.Int {
	if s.Bal[a] == nil {
		return new(big.Int)
	}
	return s.Bal[a]
}

func (s *Spec) AddAccountBalance(a store.Account, c *big.Int) {
	if s.Bal[a] == nil {
		s.Bal[a] = new(big.Int)
	}
	s.Bal[a] = new(big.Int).Add(s.Bal[a], c)
}

func (s *Spec) AddAccountNode(a store.Account, id store.NodeID) error {
	if _, ok := s.Nodes[id]; !ok {
		return store.ErrUnregisteredNode
	}
	s.Link[id] = a
	if s.Bal[a] == nil {
		s.Bal[a] = new(big.Int)
	}
	if t := s.Trial[id]; t != nil {
		s.Bal[a] = new(big.Int).Add(s.Bal[a], t)
	}
	delete(s.Trial, id)
	return nil
}

func (s *Spec) IsAccountNode(a store.Account, id store.NodeID) error {
	if l, ok := s.Link[id]; ok && l == a {
		return nil
	}
	return store.ErrNotAuthorized
}

func (s *Spec) GetAccountNodes(a store.Account) map[store.NodeID]bool {
	r := map[store.NodeID]bool{}
	for id, l := range s.Link {
		if l == a {
			r[id] = true
		}
	}
	return r
}

// TotalCredit sums all wallet and trial credit.
func (s *Spec) TotalCredit() *big.Int {
	t := new(big.Int)
	for _, c := range s.Bal {
		t.Add(t, c)
	}
	for _, c := range s.Trial {
		t.Add(t, c)
	}
	return t
}

// Counts returns (#hosts, #clients, max block number).
func (s *Spec) Counts() (hosts, clients int, maxBlock uint64) {
	for _, n := range s.Nodes {
		if n.IsHost {
			hosts++
		} else {
			clients++
		}
		if n.BlockNumber > maxBlock {
			maxBlock = n.BlockNumber
		}
	}
	return
}
