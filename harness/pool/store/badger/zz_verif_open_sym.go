//go:build !verifreplay

package badger

import (
	"github.com/dgraph-io/badger/v2"
	"github.com/vipnode/vipnode/v2/pool/store"
)

// verifDB returns a fresh database of the KV model (intercepted by gosym).
func verifDB() *badger.DB

func verifOpen() *badgerStore {
	return &badgerStore{db: verifDB(), nonceExpire: store.ExpireNonce}
}

// VerifOpen exposes the model-backed driver to harnesses of other packages.
func VerifOpen() store.Store { return verifOpen() }
