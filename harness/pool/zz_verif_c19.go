package pool

import (
	"context"
	"errors"
	"fmt"
	"net"
	"time"

	"github.com/vipnode/vipnode/v2/ethnode"
	"github.com/vipnode/vipnode/v2/internal/verifapi"
	"github.com/vipnode/vipnode/v2/internal/verifmodels/sigs"
	"github.com/vipnode/vipnode/v2/jsonrpc2"
	"github.com/vipnode/vipnode/v2/pool/store"
)

// verifHostBytes returns n symbolic bytes over the host alphabet [a-z0-9.:\[\]].
func verifHostBytes(name string, n int) string {
	s := verifapi.StrBytes(name, n)
	for i := 0; i < len(s); i++ {
		c := s[i]
		ok := (c >= 'a' && c <= 'f') || (c >= '0' && c <= '9') || c == '.' || c == ':' || c == '[' || c == ']'
		verifapi.Assume(ok)
	}
	return s
}

func verifDigits(name string, n int) string {
	s := verifapi.StrBytes(name, n)
	for i := 0; i < len(s); i++ {
		verifapi.Assume(s[i] >= '0' && s[i] <= '9')
	}
	return s
}

func hasByte(s string, c byte) bool {
	for i := 0; i < len(s); i++ {
		if s[i] == c {
			return true
		}
	}
	return false
}

// VerifC19: normalizeNodeURI for every override shape and every default host.
func VerifC19() {
	nodeID := verifapi.NodeID(0)
	other := verifapi.NodeID(1)
	// the address the connection came from (already stripped of its port by connect): symbolic bytes or empty
	defLen := verifapi.Choose("defaultlen", verifapi.Param("maxdefault", 3)+1)
	defaultHost := verifHostBytes("default", defLen)
	// connect strips port and brackets from the connection's remote address
	verifapi.Assume(!hasByte(defaultHost, '[') && !hasByte(defaultHost, ']'))
	override := verifapi.Bool("override")
	uri := ""
	host, port := "", ""
	userKind := 0
	if override {
		hostLen := verifapi.Choose("hostlen", verifapi.Param("maxhost", 3)+1)
		bare := verifHostBytes("host", hostLen)
		// the agent writes an IPv6 literal in brackets; names and IPv4 bare
		bracketed := verifapi.Bool("bracketed")
		host = bare
		hostport := bare
		if bracketed {
			hostport = "[" + bare + "]"
		}
		switch verifapi.Choose("port", 3) {
		case 1:
			port = verifDigits("port", 1)
			hostport += ":" + port
		case 2:
			port = verifDigits("port", 2)
			hostport += ":" + port
		}
		// hosts the agent supplies: no brackets or colons inside a bare name, only hex/colon/dot inside brackets
		if bracketed {
			verifapi.Assume(!hasByte(bare, '[') && !hasByte(bare, ']'))
		} else {
			verifapi.Assume(!hasByte(bare, '[') && !hasByte(bare, ']') && !hasByte(bare, ':'))
		}
		scheme := []string{"enode", "http"}[verifapi.Choose("scheme", 2)]
		user, hasUser := "", true
		userKind = verifapi.Choose("user", 5)
		switch userKind {
		case 0:
			user = nodeID
		case 1:
			user = other
		case 2:
			user = ""
		case 3:
			hasUser = false
		case 4:
			user = nodeID + ":secret"
		}
		rest := []string{"", "/path", "?discport=30301"}[verifapi.Choose("rest", 3)]
		uri = scheme + "://"
		if hasUser {
			uri += user + "@"
		}
		uri += hostport + rest
		verifapi.URLParts(uri, scheme, user, hasUser, hostport, rest)
	}
	got, err := normalizeNodeURI(uri, nodeID, defaultHost, "30303")
	verifapi.Reach("c19.normalized")
	if override && userKind == 1 {
		verifapi.Assert(err != nil, "c19.foreign-identity-refused")
		return
	}
	// which host / port must be advertised
	wantHost, wantPort := defaultHost, "30303"
	if override && host != "" && host != "::" {
		wantHost = host
	}
	if override && port != "" {
		wantPort = port
	}
	if wantHost == "" || wantHost == "[::]" {
		verifapi.Assert(err != nil, "c19.undeterminable-address-refused")
		return
	}
	if err != nil {
		// malformed overrides may be refused; a well-formed one must not be
		verifapi.Assert(override, "c19.default-address-accepted")
		return
	}
	// the agent-side parser must get the authenticated identity and a dialable address back
	parsed, perr := ethnode.ParseNodeURI(got)
	if perr != nil {
		verifapi.Class("ipv6-host-rejoined-without-brackets", hasByte(wantHost, ':'))
		verifapi.Assert(false, "c19.advertised-uri-parses")
		return
	}
	verifapi.Assert(parsed.ID() == nodeID, "c19.advertised-under-authenticated-identity")
	h, p, serr := net.SplitHostPort(parsed.Host)
	verifapi.Class("ipv6-host-rejoined-without-brackets", hasByte(wantHost, ':'))
	verifapi.Assert(serr == nil, "c19.advertised-address-is-host-port")
	if serr == nil {
		verifapi.Assert(h == wantHost, "c19.advertised-host-is-supplied-or-default")
		verifapi.Assert(p == wantPort, "c19.advertised-port-is-supplied-or-30303")
	}
}

var _ = fmt.Sprint

// VerifC19Connect: the host branch of connect derives the default address
// from the connection's remote address (symbolic bytes, bare or bracketed,
// with a port): the stored URI carries the authenticated id and that host with port 30303.
func VerifC19Connect() {
	db := newVerifStore()
	p := New(db, nil)
	verifapi.SetNow(verifapi.Time("now"))
	nodeID := verifapi.NodeID(1)
	n := verifapi.Choose("srclen", verifapi.Param("maxsrc", 3)+1)
	src := verifHostBytes("src", n)
	bracketed := verifapi.Bool("bracketed")
	if bracketed {
		verifapi.Assume(!hasByte(src, '[') && !hasByte(src, ']'))
	} else {
		verifapi.Assume(!hasByte(src, '[') && !hasByte(src, ']') && !hasByte(src, ':'))
	}
	addr := src
	if bracketed {
		addr = "[" + src + "]"
	}
	addr += ":" + verifDigits("srcport", 1)
	svc := &VerifHost{Name: "conn", Addr: addr}
	override := ""
	if verifapi.Bool("unspecifiedoverride") {
		override = "enode://" + nodeID + "@[::]:30303"
	}
	req := ConnectRequest{NodeInfo: ethnode.UserAgent{Kind: ethnode.Geth, IsFullNode: true}, NodeURI: override}
	ctx := jsonrpc2.VerifCtxWithService(context.Background(), svc)
	err := VerifRegisterHost(p, ctx, nodeID, req)
	verifapi.Reach("c19.connect")
	if src == "" {
		verifapi.Assert(err != nil, "c19.connect-undeterminable-address-refused")
		return
	}
	if err != nil {
		verifapi.Unreachable("c19.connect-default-address-accepted")
		return
	}
	stored, gerr := db.GetNode(store.NodeID(nodeID))
	if gerr != nil {
		verifapi.Unreachable("c19.connect-node-stored")
		return
	}
	parsed, perr := ethnode.ParseNodeURI(stored.URI)
	if perr != nil {
		verifapi.Assert(false, "c19.connect-advertised-uri-parses")
		return
	}
	verifapi.Assert(parsed.ID() == nodeID, "c19.connect-advertised-under-authenticated-identity")
	h, prt, serr := net.SplitHostPort(parsed.Host)
	verifapi.Assert(serr == nil, "c19.connect-advertised-address-is-host-port")
	if serr == nil {
		verifapi.Assert(h == src, "c19.connect-advertised-host-is-source-address")
		verifapi.Assert(prt == "30303", "c19.connect-advertised-port-30303")
	}
}

// verifFaultyStore fails SetNode on demand (a storage fault: disk full, badger conflict, ...).
type verifFaultyStore struct {
	store.Store
	failSetNode bool
}

func (s *verifFaultyStore) SetNode(n store.Node) error {
	if s.failSetNode {
		return errors.New("verif: storage fault")
	}
	return s.Store.SetNode(n)
}

// VerifC19Reregister: a host registers under one address and later again
// under another one (a reconnect from elsewhere), with a storage fault possible
// at either registration: whenever the pool acknowledges a registration, the
// address it stores and hands to clients is the one that registration
// supplied; a registration it could not record is refused.
func VerifC19Reregister() {
	fs := &verifFaultyStore{Store: newVerifStore()}
	p := New(fs, nil)
	verifapi.SetNow(verifapi.Time("now"))
	nodeID := verifapi.NodeID(1)
	addrs := []string{"192.0.2.10", "2001:db8::7"}
	advertised := "" // host of the last acknowledged registration
	for i, a := range addrs {
		svc := &VerifHost{Name: fmt.Sprint("conn", i), Addr: net.JoinHostPort(a, "5000")}
		req := ConnectRequest{NodeInfo: ethnode.UserAgent{Kind: ethnode.Geth, IsFullNode: true}}
		if verifapi.Bool(fmt.Sprint("override", i)) {
			req.NodeURI = "enode://" + nodeID + "@" + net.JoinHostPort(a, "30305")
		}
		fs.failSetNode = verifapi.Bool(fmt.Sprint("storagefault", i))
		ctx := jsonrpc2.VerifCtxWithService(context.Background(), svc)
		err := VerifRegisterHost(p, ctx, nodeID, req)
		if fs.failSetNode {
			verifapi.Assert(err != nil, "c19.rereg.unrecordable-registration-refused")
		} else {
			verifapi.Assert(err == nil, "c19.rereg.registration-accepted")
		}
		if err == nil {
			advertised = a
		}
	}
	fs.failSetNode = false
	verifapi.Reach("c19.rereg")
	stored, gerr := fs.GetNode(store.NodeID(nodeID))
	if advertised == "" {
		verifapi.Assert(gerr != nil, "c19.rereg.nothing-stored-when-nothing-acknowledged")
		return
	}
	if gerr != nil {
		verifapi.Assert(false, "c19.rereg.acknowledged-registration-stored")
		return
	}
	parsed, perr := ethnode.ParseNodeURI(stored.URI)
	if perr != nil {
		verifapi.Assert(false, "c19.rereg.advertised-uri-parses")
		return
	}
	h, _, serr := net.SplitHostPort(parsed.Host)
	verifapi.Assert(serr == nil && h == advertised, "c19.rereg.advertised-address-is-the-acknowledged-one")
}

// VerifC19Refused: a host registers validly, its connection may end, and the
// same host then sends a registration that must be refused (no determinable
// address, or an override under another identity) on a new connection. A
// refused registration leaves nothing behind: the refused connection is never
// asked to whitelist anybody and a client is only handed an address whose
// registration was acknowledged on a connection that is still open.
func VerifC19Refused() {
	db := newVerifStore()
	p := New(db, nil)
	now := verifapi.Time("now")
	verifapi.SetNow(now)
	hid := verifapi.NodeID(1)
	cid := verifapi.NodeID(0)
	conn0 := &VerifHost{Name: "conn0", Addr: "203.0.113.5:5000", Behaviours: 1}
	req := ConnectRequest{NodeInfo: ethnode.UserAgent{Kind: ethnode.Geth, IsFullNode: true}}
	connect := func(svc *VerifHost, req ConnectRequest) error {
		ctx := jsonrpc2.VerifCtxWithService(context.Background(), svc)
		return VerifRegisterHost(p, ctx, hid, req)
	}
	verifapi.Assert(connect(conn0, req) == nil, "c19.refused.setup")
	closed0 := verifapi.Bool("conn0-ends")
	if closed0 {
		p.CloseRemote(conn0)
	}
	var conn1 *VerifHost
	switch verifapi.Choose("refusal", 3) {
	case 0: // connection without a source address, no override
		conn1 = &VerifHost{Name: "conn1", Addr: "", Behaviours: 1}
	case 1: // override naming another identity
		conn1 = &VerifHost{Name: "conn1", Addr: "198.51.100.9:5000", Behaviours: 1}
		req.NodeURI = "enode://" + verifapi.NodeID(2) + "@198.51.100.9:30303"
	case 2: // override naming the unspecified address on a connection without one
		conn1 = &VerifHost{Name: "conn1", Addr: "", Behaviours: 1}
		req.NodeURI = "enode://" + hid + "@[::]:30303"
	}
	verifapi.Assert(connect(conn1, req) != nil, "c19.refused.registration-refused")
	closed1 := verifapi.Bool("conn1-ends")
	if closed1 {
		p.CloseRemote(conn1)
	}
	verifapi.Reach("c19.refused")
	// a client asks for hosts
	db.SetNode(store.Node{ID: store.NodeID(cid), LastSeen: now, Kind: "geth"})
	preq := PeerRequest{Num: 1}
	nonce := VerifFreshNonce()
	resp, _ := p.Peer(context.Background(), sigs.SignFor(cid, "vipnode_peer", nonce, preq), cid, nonce, preq)
	verifapi.Assert(len(conn1.Calls) == 0, "c19.refused.refused-connection-never-used")
	n := 0
	if resp != nil {
		n = len(resp.Peers)
		for _, h := range resp.Peers {
			verifapi.Assert(h.URI == "enode://"+hid+"@203.0.113.5:30303", "c19.refused.advertised-address-is-the-acknowledged-one")
		}
	}
	if closed0 {
		verifapi.Assert(n == 0, "c19.refused.no-address-handed-out-for-ended-connection")
	} else {
		verifapi.Assert(n == 1 && len(conn0.Calls) == 1, "c19.refused.acknowledged-registration-still-served")
	}
	want := 1
	if closed0 {
		want = 0
	}
	verifapi.Assert(p.NumRemotes() == want, "c19.refused.only-acknowledged-connections-registered")
}

// VerifC19Concrete: normalizeNodeURI on a family of concrete addresses that
// the byte-level harness does not spell out - IPv4, names, IPv6 with and
// without a zone (link-local fe80::1%eth0, which a URI writes as %25eth0),
// mixed case, as connection source or as override with and without a port:
// the advertised URI parses back, with the agent-side parser, to the
// authenticated identity, the supplied (else the source) host and the
// supplied port (else 30303). Everything here is concrete, so the real
// net/url and net code runs unmodelled.
func VerifC19Concrete() {
	nodeID := verifapi.NodeID(0)
	hosts := []string{"192.0.2.7", "pool.example", "2001:db8::7", "fe80::1%eth0", "fe80::1%25", "FE80::A", "xn--bcher-kva.example", "10.0.0.1"}
	viaPool := verifapi.Param("viapool", 0) == 1
	if viaPool {
		// through the pool's connect endpoint, with DNS names as long as real ones get (a name may have 253 bytes)
		hosts = []string{"192.0.2.7", "2001:db8::7", "pool.example",
			"ec2-203-0-113-25.ap-northeast-1.compute.amazonaws.com",
			"node-7.eth-mainnet.full-nodes.internal.some-quite-long-organisation-name.cloud-provider-region-eu-central-1.example.org",
			"a123456789b123456789c123456789d123456789e123456789f123456789abc.a123456789b123456789c123456789d123456789e123456789f123456789abc.a123456789b123456789c123456789d123456789e123456789f123456789abc.a123456789b123456789c123456789d123456789e123456789f1234567.example"}
	}
	src := hosts[verifapi.Choose("source", len(hosts))]
	uri := ""
	wantHost, wantPort := src, "30303"
	if verifapi.Bool("override") {
		h := hosts[verifapi.Choose("host", len(hosts))]
		hostport := h
		if hasByte(h, ':') {
			// as a URI spells an IPv6 literal: in brackets, the zone's % escaped
			esc := ""
			for i := 0; i < len(h); i++ {
				if h[i] == '%' {
					esc += "%25"
				} else {
					esc += string(h[i])
				}
			}
			hostport = "[" + esc + "]"
		}
		wantHost = h
		if verifapi.Bool("withport") {
			hostport += ":30305"
			wantPort = "30305"
		}
		uri = "enode://" + nodeID + "@" + hostport
	}
	var got string
	var err error
	if viaPool {
		db := newVerifStore()
		p := New(db, nil)
		verifapi.SetNow(time.Unix(1600000000, 0))
		addr := src + ":51234"
		if hasByte(src, ':') {
			addr = "[" + src + "]:51234"
		}
		req := ConnectRequest{NodeInfo: ethnode.UserAgent{Kind: ethnode.Geth, IsFullNode: true}, NodeURI: uri}
		nonce := VerifFreshNonce()
		_, err = p.Connect(jsonrpc2.VerifCtxWithService(context.Background(), &VerifHost{Name: "conn", Addr: addr}), sigs.SignFor(nodeID, "vipnode_connect", nonce, req), nodeID, nonce, req)
		if err == nil {
			n, gerr := db.GetNode(store.NodeID(nodeID))
			if gerr != nil {
				verifapi.Unreachable("c19.concrete.stored")
				return
			}
			got = n.URI
		}
	} else {
		got, err = normalizeNodeURI(uri, nodeID, src, "30303")
	}
	verifapi.Reach("c19.concrete")
	if err != nil {
		verifapi.Assert(false, "c19.well-formed-address-accepted")
		return
	}
	parsed, perr := ethnode.ParseNodeURI(got)
	if perr != nil {
		verifapi.Assert(false, "c19.advertised-uri-parses")
		return
	}
	verifapi.Assert(parsed.ID() == nodeID, "c19.advertised-under-authenticated-identity")
	h, p, serr := net.SplitHostPort(parsed.Host)
	verifapi.Assert(serr == nil, "c19.advertised-address-is-host-port")
	if serr == nil {
		verifapi.Assert(h == wantHost, "c19.advertised-host-is-supplied-or-default")
		verifapi.Assert(p == wantPort, "c19.advertised-port-is-supplied-or-30303")
	}
}

// VerifC19Odd: concrete override strings that are not of the plain enode://id@host[:port] form - opaque URIs
// (no // after the scheme), other schemes, a missing scheme, queries, paths and fragments, a foreign id. Whatever
// the host supplies, the pool either refuses it or advertises exactly enode://<authenticated id>@<host>:<port>
// with the supplied or the connection's host, and nothing else of the supplied text.
func VerifC19Odd() {
	nodeID, other := verifapi.NodeID(0), verifapi.NodeID(1)
	src := []string{"203.0.113.7", ""}[verifapi.Choose("source", 2)]
	sup := "198.51.100.9"
	overrides := []string{
		"enode:" + other + "@" + sup + ":30303",
		"enode:" + nodeID + "@" + sup + ":30303",
		"enode:x://" + nodeID + "@" + sup + ":30303",
		"enode:x://" + other + "@" + sup + ":30303",
		"http:" + sup,
		"mailto:" + nodeID + "@example.com",
		"enode://" + nodeID + "@" + sup + ":30303?discport=0",
		"enode://" + nodeID + "@" + sup + ":30303/path#frag",
		"//" + nodeID + "@" + sup,
		nodeID + "@" + sup + ":30303",
		"enode://" + other + "@" + sup + ":30303",
		"http://" + nodeID + "@" + sup + ":30303",
		"enode://" + nodeID + ":secret@" + sup + ":30303",
		nodeID,                 // just the id (a form the agent's --enode option accepts): no address supplied
		nodeID + "?discport=0", // the same with a query
	}
	k := verifapi.Choose("override", len(overrides))
	got, err := normalizeNodeURI(overrides[k], nodeID, src, "30303")
	verifapi.Reach("c19.odd")
	if err != nil {
		return
	}
	verifapi.Observe("advertised", got)
	okDefault := src != "" && got == "enode://"+nodeID+"@"+src+":30303"
	okSupplied := got == "enode://"+nodeID+"@"+sup+":30303" && k < 13
	verifapi.Assert(okDefault || okSupplied, "c19.odd.advertised-is-exactly-id-at-supplied-or-connection-address")
	if k == 10 || k == 3 || k == 0 {
		// the override names another node: never advertised at the address it supplied
		verifapi.Assert(!okSupplied, "c19.odd.foreign-id-address-not-adopted")
	}
}
