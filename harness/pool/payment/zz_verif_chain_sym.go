//go:build !verifreplay

package payment

import (
	"github.com/ethereum/go-ethereum/accounts/abi/bind"
	"github.com/vipnode/vipnode-contract/go/vipnodepool"
)

// the binding's methods are intercepted by the engine (zzcontract.go)
func verifNewBinding() *vipnodepool.VipnodePool { return &vipnodepool.VipnodePool{} }
func verifTransactOpts() *bind.TransactOpts     { return &bind.TransactOpts{} }
