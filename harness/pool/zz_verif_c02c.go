package pool

import (
	"context"
	"fmt"
	"math/big"
	"time"

	"github.com/vipnode/vipnode/v2/internal/verifapi"
	"github.com/vipnode/vipnode/v2/pool/store"
)

// VerifC02Pool: k keep-alives of one client through the real pool at
// symbolic non-decreasing instants: each bills exactly the time since the
// previous keep-alive (or connect) per active peer, so no stretch of time is
// billed twice and the spans add up; the reply carries the stored balance and
// the invalid/active lists of the store (C11 mapping).
func VerifC02Pool() {
	db := newVerifStore()
	price := big.NewInt(100000000000)
	interval := int64(60000000000)
	// optionally a minimum balance: a keep-alive that is cut off for low balance has been charged
	// (C03), so it still ends the stretch of time it billed
	var min *big.Int
	if verifapi.Param("withmin", 0) == 1 {
		min = verifapi.BigInt("min")
	}
	p := VerifNewPool(db, db, price, 60000000000, min)
	t := verifapi.Time("t0")
	verifapi.SetNow(t)
	cid := verifapi.NodeID(0)
	hid := verifapi.NodeID(1)
	uri := "enode://" + hid + "@192.0.2.1:30303"
	db.SetNode(store.Node{ID: store.NodeID(hid), IsHost: true, LastSeen: t, URI: uri})
	isFull := verifapi.Bool("clientisfull")
	if _, err := VerifConnect(p, &VerifHost{Name: "c", Addr: "192.0.2.7:1"}, cid, isFull, ""); err != nil {
		if min != nil {
			return // refused at connect: C03's subject
		}
		verifapi.Unreachable("c02.pool.connect")
		return
	}
	steps := verifapi.Param("steps", 2)
	last := t
	charged := new(big.Int)
	tracked := false // does the client track the host, and with which recorded check-in
	recorded := t
	for k := 0; k < steps; k++ {
		if verifapi.Param("reconnects", 1) == 1 && verifapi.Bool(fmt.Sprint("reconnect", k)) {
			// the client goes away for a while and connects again: billing restarts at the connect
			away := verifapi.Dur(fmt.Sprint("away", k))
			verifapi.Assume(away >= 0)
			verifapi.Assume(away < 100000000000)
			last = last.Add(away)
			verifapi.SetNow(last)
			db.UpdateNodePeers(store.NodeID(hid), nil, 0) // the host keeps checking in meanwhile
			if _, err := VerifConnect(p, &VerifHost{Name: "c", Addr: "192.0.2.7:1"}, cid, isFull, ""); err != nil {
				if min != nil {
					return
				}
				verifapi.Unreachable("c02.pool.reconnect")
				return
			}
		}
		dt := verifapi.Dur(fmt.Sprint("dt", k))
		verifapi.Assume(dt >= 0)
		// the gap may be longer than the 120 s expiry window (a client that was away): the host checks in
		// again at the new instant, and a tracked record that went stale meanwhile is handled below
		verifapi.Assume(dt < int64OrDur(verifapi.Param("maxgap", 100)))
		now := last.Add(dt)
		verifapi.SetNow(now)
		// the host keeps checking in
		db.UpdateNodePeers(store.NodeID(hid), nil, 0)
		report := verifapi.Bool(fmt.Sprint("report", k))
		// the reported block number is arbitrary (it may regress): billing does not depend on it
		VerifBlockNumber = verifapi.Uint64(fmt.Sprint("block", k))
		before, _ := db.GetNodeBalance(store.NodeID(cid))
		hostBefore, _ := db.GetNodeBalance(store.NodeID(hid))
		var resp *UpdateResponse
		var err error
		if report {
			resp, err = VerifUpdate(p, context.Background(), cid, hid)
		} else {
			resp, err = VerifUpdate(p, context.Background(), cid)
		}
		verifapi.Reach("c02.pool.update")
		after, _ := db.GetNodeBalance(store.NodeID(cid))
		hostAfter, _ := db.GetNodeBalance(store.NodeID(hid))
		if err != nil {
			if min == nil || !VerifIsLowBalance(err) {
				verifapi.Unreachable("c02.pool.update-error")
				return
			}
			// cut off for low balance: the charge for this gap was applied (to zero or one host) and the
			// gap is consumed: the next keep-alive bills from here
			el := big.NewInt(int64(now.Sub(last)))
			credit := new(big.Int).Div(new(big.Int).Mul(el, price), big.NewInt(interval))
			got := new(big.Int).Sub(&before.Credit, &after.Credit)
			gotHost := new(big.Int).Sub(&hostAfter.Credit, &hostBefore.Credit)
			verifapi.Assert(got.Cmp(gotHost) == 0, "c02.pool.host-credited-what-client-paid")
			verifapi.Assert(got.Sign() == 0 || got.Cmp(credit) == 0, "c02.pool.bills-exactly-the-gap")
			verifapi.Assert(!isFull, "c02.pool.hosts-never-pay")
			if report {
				tracked, recorded = true, now
			}
			// the keep-alive was processed up to the charge: a stale tracked record has been evicted,
			// although this reply (an error) does not list it
			if age := int64(now.Sub(recorded)); tracked && age > 120000000000 {
				tracked = false
			} else if tracked && age == 120000000000 {
				return // exactly on the edge: either way, nothing more to compare on this path
			}
			last = now
			continue
		}
		nActive := int64(len(resp.ActivePeers))
		// elapsed = time since the previous keep-alive/connect, floor(elapsed*price/interval) per active peer
		el := big.NewInt(int64(now.Sub(last)))
		credit := new(big.Int).Div(new(big.Int).Mul(el, price), big.NewInt(interval))
		want := new(big.Int).Mul(credit, big.NewInt(nActive))
		if isFull {
			want = new(big.Int)
		}
		got := new(big.Int).Sub(&before.Credit, &after.Credit)
		verifapi.Assert(got.Cmp(want) == 0, "c02.pool.bills-exactly-the-gap")
		gotHost := new(big.Int).Sub(&hostAfter.Credit, &hostBefore.Credit)
		verifapi.Assert(gotHost.Cmp(want) == 0, "c02.pool.host-credited-what-client-paid")
		verifapi.Assert(resp.Balance != nil && resp.Balance.Credit.Cmp(&after.Credit) == 0, "c02.pool.reply-balance-is-stored")
		charged.Add(charged, got)
		// C11 mapping: the host's check-in is recorded whenever the client reports it; a
		// tracked host is invalid iff that recorded check-in is older than the window
		if report {
			tracked, recorded = true, now // the host checked in just now
		}
		age := int64(now.Sub(recorded))
		if tracked && age < 120000000000 {
			verifapi.Assert(len(resp.InvalidPeers) == 0, "c11.pool.fresh-peer-not-invalid")
			verifapi.Assert(len(resp.ActivePeers) == 1, "c11.pool.tracked-fresh-peer-active")
		} else if tracked && age > 120000000000 {
			verifapi.Assert(len(resp.InvalidPeers) == 1 && len(resp.ActivePeers) == 0, "c11.pool.stale-record-declared-invalid")
			tracked = false
		} else if !tracked {
			verifapi.Assert(len(resp.InvalidPeers) == 0 && len(resp.ActivePeers) == 0, "c11.pool.untracked-peer-not-listed")
		} else {
			tracked = len(resp.ActivePeers) == 1 // exactly on the edge: either way
		}
		for _, a := range resp.ActivePeers {
			verifapi.Assert(a == uri, "c11.pool.active-peers-are-uris-of-tracked")
		}
		last = now
	}
}

// VerifC11Pool: the keep-alive reply lists exactly the evicted peers as
// invalid and the remaining tracked registered peers as active.
func VerifC11Pool() {
	db := newVerifStore()
	p := VerifNewPool(db, db, big.NewInt(100000000000), 60000000000, nil)
	t0 := verifapi.Time("t0")
	verifapi.SetNow(t0)
	cid := verifapi.NodeID(0)
	db.SetNode(store.Node{ID: store.NodeID(cid), LastSeen: t0})
	nh := verifapi.Param("hosts", 2)
	hids := make([]string, nh)
	uris := make([]string, nh)
	VerifPeerEnodeForm = verifapi.Param("enodeform", 0) == 1
	for i := 0; i < nh; i++ {
		hids[i] = verifapi.NodeID(1 + i)
		if VerifPeerEnodeForm {
			// node ids are public keys: any hex digit may come first (these hosts never sign in this harness)
			hids[i] = string("ed"[i%2]) + hids[i][1:]
		}
		uris[i] = "enode://" + hids[i] + "@192.0.2.1:30303"
		db.SetNode(store.Node{ID: store.NodeID(hids[i]), IsHost: true, LastSeen: t0, URI: uris[i]})
	}
	// first keep-alive tracks a subset
	var first []string
	trackedBefore := make([]bool, nh)
	for i := 0; i < nh; i++ {
		if verifapi.Bool(fmt.Sprint("first", i)) {
			first = append(first, hids[i])
			trackedBefore[i] = true
		}
	}
	if _, err := VerifUpdate(p, context.Background(), cid, first...); err != nil {
		verifapi.Unreachable("c11.pool.first")
		return
	}
	// time passes; some hosts check in again, some do not
	dt := verifapi.Dur("dt")
	verifapi.Assume(dt > 0)
	verifapi.Assume(dt < 1000000000000)
	now := t0.Add(dt)
	verifapi.SetNow(now)
	checkedIn := make([]bool, nh)
	for i := 0; i < nh; i++ {
		checkedIn[i] = verifapi.Bool(fmt.Sprint("checkedin", i))
		if checkedIn[i] {
			db.UpdateNodePeers(store.NodeID(hids[i]), nil, 0)
		}
	}
	var second []string
	reported := make([]bool, nh)
	for i := 0; i < nh; i++ {
		if verifapi.Bool(fmt.Sprint("second", i)) {
			second = append(second, hids[i])
			reported[i] = true
		}
	}
	if verifapi.Bool("unknown") {
		second = append(second, verifapi.NodeID(4))
	}
	resp, err := VerifUpdate(p, context.Background(), cid, second...)
	verifapi.Reach("c11.pool.second")
	if err != nil {
		verifapi.Unreachable("c11.pool.second-error")
		return
	}
	window := int64(2 * 60000000000)
	for i := 0; i < nh; i++ {
		nInv, nAct := 0, 0
		for _, x := range resp.InvalidPeers {
			if x == hids[i] {
				nInv++
			}
		}
		for _, x := range resp.ActivePeers {
			if x == uris[i] {
				nAct++
			}
		}
		known := trackedBefore[i] || reported[i]
		// recorded check-in: the host's LastSeen as of the last time the client reported it
		fresh := true
		if !(reported[i] && checkedIn[i]) {
			// recorded (or re-recorded) check-in is t0
			if int64(dt) > window {
				fresh = false
			} else if int64(dt) == window {
				continue // boundary instant: either way
			}
		}
		if !known {
			verifapi.Assert(nInv == 0 && nAct == 0, "c11.pool.unknown-to-client-not-listed")
		} else if fresh {
			verifapi.Assert(nInv == 0 && nAct == 1, "c11.pool.live-peer-active-not-invalid")
		} else {
			verifapi.Assert(nInv == 1 && nAct == 0, "c11.pool.stale-peer-invalid-not-active")
		}
	}
	for _, x := range resp.InvalidPeers {
		verifapi.Assert(x != verifapi.NodeID(4), "c11.pool.unregistered-never-invalid")
	}
	verifapi.Assert(len(resp.ActivePeers) <= nh, "c11.pool.no-extra-active")
}

// int64OrDur: seconds to Duration.
func int64OrDur(sec int) time.Duration { return time.Duration(sec) * time.Second }

// VerifC11Checkins: a reporter (a host when hostreporter=1, else a client) tracks peers of the opposite role; time
// passes beyond the expiry window; each peer then checks in with the pool in one of the ways the API offers (its own
// keep-alive, or connecting again) or stays silent; the reporter's keep-alive must keep exactly the peers that
// checked in and declare the silent ones invalid once.
func VerifC11Checkins() {
	db := newVerifStore()
	p := VerifNewPool(db, db, big.NewInt(1000), 60000000000, nil)
	t0 := verifapi.Time("t0")
	verifapi.SetNow(t0)
	hostReporter := verifapi.Param("hostreporter", 1) == 1
	np := verifapi.Param("peers", 2)
	rid := verifapi.NodeID(0)
	rsvc := &VerifHost{Addr: "192.0.2.9:1"}
	if _, err := VerifConnect(p, rsvc, rid, hostReporter, ""); err != nil {
		verifapi.Unreachable("c11.checkins.reporter-connect")
		return
	}
	pids := make([]string, np)
	svcs := make([]*VerifHost, np)
	for i := 0; i < np; i++ {
		pids[i] = verifapi.NodeID(1 + i)
		svcs[i] = &VerifHost{Addr: fmt.Sprintf("192.0.2.%d:1", 20+i)}
		if _, err := VerifConnect(p, svcs[i], pids[i], !hostReporter, ""); err != nil {
			verifapi.Unreachable("c11.checkins.peer-connect")
			return
		}
	}
	if _, err := VerifUpdate(p, context.Background(), rid, pids...); err != nil {
		verifapi.Observe("err", err.Error()); verifapi.Unreachable("c11.checkins.first")
		return
	}
	dt := verifapi.Dur("dt")
	verifapi.Assume(int64(dt) > 2*60000000000)
	verifapi.Assume(int64(dt) < 1000000000000)
	verifapi.SetNow(t0.Add(dt))
	checked := make([]bool, np)
	for i := 0; i < np; i++ {
		switch verifapi.Choose(fmt.Sprint("checkin", i), 3) {
		case 1:
			if _, err := VerifUpdate(p, context.Background(), pids[i]); err != nil {
				verifapi.Observe("err", err.Error()); verifapi.Unreachable("c11.checkins.peer-update")
				return
			}
			checked[i] = true
		case 2:
			if _, err := VerifConnect(p, svcs[i], pids[i], !hostReporter, ""); err != nil {
				verifapi.Unreachable("c11.checkins.peer-reconnect")
				return
			}
			checked[i] = true
		}
	}
	resp, err := VerifUpdate(p, context.Background(), rid, pids...)
	verifapi.Reach("c11.checkins.second")
	if err != nil {
		verifapi.Unreachable("c11.checkins.second-error")
		return
	}
	tracked, _ := db.NodePeers(store.NodeID(rid))
	for i := 0; i < np; i++ {
		nInv, nTr := 0, 0
		for _, x := range resp.InvalidPeers {
			if x == pids[i] {
				nInv++
			}
		}
		for _, n := range tracked {
			if string(n.ID) == pids[i] {
				nTr++
			}
		}
		if checked[i] {
			verifapi.Assert(nInv == 0 && nTr == 1, "c11.checkins.checked-in-peer-kept")
		} else {
			verifapi.Assert(nInv == 1 && nTr == 0, "c11.checkins.silent-peer-invalid-once")
		}
	}
	verifapi.Assert(len(resp.InvalidPeers) <= np, "c11.checkins.no-extra-invalid")
}
