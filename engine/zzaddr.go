package main

// common.HexToAddress(s).Hex() / .String(): the canonical (EIP-55) spelling of an address. The
// checksum itself needs Keccak; the model is exact for the wallet identities of the harness
// alphabet (verifapi/ids.go) and maps any other concrete spelling to its lower-case form, which
// keeps what matters: the function is idempotent and insensitive to case and to the 0x prefix.

import "strings"

var harnessWallets = []string{
	"0x08ba7E452E622c10977f7aEd576B8095cF28f916",
	"0x0E3Db36BE702772D756CDe1cE89b222F3f2Bb59f",
	"0xD88b186e98972c87DFF0507f7CD8Da8dbEbb8764",
}

func canonicalAddress(s string) string {
	h := strings.ToLower(strings.TrimPrefix(strings.TrimPrefix(s, "0x"), "0X"))
	if len(h) > 40 {
		h = h[len(h)-40:] // HexToAddress crops from the left
	}
	for len(h) < 40 {
		h = "0" + h
	}
	for _, w := range harnessWallets {
		if strings.ToLower(w[2:]) == h {
			return w
		}
	}
	return "0x" + h
}

func init() {
	const cm = "github.com/ethereum/go-ethereum/common."
	prevH2A := icTable[cm+"HexToAddress"]
	reg(cm+"HexToAddress", func(m *Machine, g *Goroutine, c *callCtx) (Value, stepStatus) {
		if s, ok := c.args[0].(StrVal); ok && s.concrete() {
			return OpaqueVal{tag: "addr:" + canonicalAddress(s.s)}, stNext
		}
		if prevH2A != nil {
			return prevH2A(m, g, c)
		}
		panic(abortf("common.HexToAddress of a symbolic string"))
	})
	for _, name := range []string{"Hex", "String"} {
		full := "(github.com/ethereum/go-ethereum/common.Address)." + name
		prev := icTable[full]
		reg(full, func(m *Machine, g *Goroutine, c *callCtx) (Value, stepStatus) {
			if o, ok := c.args[0].(OpaqueVal); ok && strings.HasPrefix(o.tag, "addr:") {
				return StrVal{s: o.tag[5:]}, stNext
			}
			if prev != nil {
				return prev(m, g, c)
			}
			panic(abortf("%s on %s", full, describe(c.args[0])))
		})
	}
}
