package main

// encoding/json as a typed-identity model: Marshal produces an opaque blob
// carrying a deep copy of the value (concrete JSON bytes for basic concrete
// values); Unmarshal stores the payload into the destination when the types
// agree. The byte-level format is outside the model (DESIGN section 4).

import (
	"encoding/json"
	"go/types"
	"math/big"
)

func (m *Machine) deepCopy(v Value, seen map[*Obj]*Obj) Value {
	switch x := v.(type) {
	case PtrVal:
		if x.obj == nil {
			return x
		}
		if n, ok := seen[x.obj]; ok {
			return PtrVal{obj: n, path: x.path}
		}
		n := m.newObj(nil, x.obj.typ, x.obj.name)
		seen[x.obj] = n
		n.v = m.deepCopy(x.obj.v, seen)
		return PtrVal{obj: n, path: x.path}
	case StructVal:
		f := make([]Value, len(x.f))
		for i := range f {
			f[i] = m.deepCopy(x.f[i], seen)
		}
		return StructVal{f}
	case ArrayVal:
		e := make([]Value, len(x.e))
		for i := range e {
			e[i] = m.deepCopy(x.e[i], seen)
		}
		return ArrayVal{e}
	case SliceVal:
		if x.arr == nil {
			return x
		}
		if _, ok := x.arr.v.(*Blob); ok {
			return x
		}
		arr := x.arr.v.(ArrayVal)
		e := make([]Value, x.len)
		for i := 0; i < x.len; i++ {
			e[i] = m.deepCopy(arr.e[x.off+i], seen)
		}
		return SliceVal{arr: m.newObj(ArrayVal{e}, x.arr.typ, "copy"), len: x.len, cap: x.len}
	case MapVal:
		if x.m == nil {
			return x
		}
		m.nextID++
		n := &MapObj{id: m.nextID, typ: x.m.typ}
		for i := range x.m.keys {
			n.keys = append(n.keys, m.deepCopy(x.m.keys[i], seen))
			n.vals = append(n.vals, m.deepCopy(x.m.vals[i], seen))
		}
		return MapVal{m: n}
	case IfaceVal:
		if x.typ == nil {
			return x
		}
		return IfaceVal{typ: x.typ, v: m.deepCopy(x.v, seen)}
	case TupleVal:
		t := make(TupleVal, len(x))
		for i := range t {
			t[i] = m.deepCopy(x[i], seen)
		}
		return t
	}
	return v
}

func (m *Machine) bytesSlice(b []byte) Value {
	e := make([]Value, len(b))
	for i := range b {
		e[i] = mkInt(int64(b[i]))
	}
	o := m.newObj(ArrayVal{e}, nil, "bytes")
	return SliceVal{arr: o, len: len(b), cap: len(b)}
}

// concreteBytes extracts concrete bytes from a []byte value.
func concreteBytes(v Value) ([]byte, bool) {
	s, ok := v.(SliceVal)
	if !ok {
		return nil, false
	}
	if s.arr == nil {
		return []byte{}, true
	}
	arr, ok := s.arr.v.(ArrayVal)
	if !ok {
		return nil, false
	}
	b := make([]byte, s.len)
	for i := 0; i < s.len; i++ {
		t, ok := arr.e[s.off+i].(*Term)
		if !ok || !t.isConst() {
			return nil, false
		}
		b[i] = byte(t.iv.Int64())
	}
	return b, true
}

func blobOf(v Value) *Blob {
	s, ok := v.(SliceVal)
	if !ok || s.arr == nil {
		return nil
	}
	b, _ := s.arr.v.(*Blob)
	return b
}

// jsonUnsupported: does the value contain (outside struct fields, which may be
// unexported) a channel or a function, which encoding/json refuses to encode.
func jsonUnsupported(v Value, depth int) bool {
	if depth > 6 {
		return false
	}
	switch x := v.(type) {
	case ChanVal, FuncVal:
		return true
	case IfaceVal:
		return x.typ != nil && jsonUnsupported(x.v, depth+1)
	case SliceVal:
		if x.arr == nil {
			return false
		}
		arr, ok := x.arr.v.(ArrayVal)
		if !ok {
			return false
		}
		for i := 0; i < x.len; i++ {
			if jsonUnsupported(arr.e[x.off+i], depth+1) {
				return true
			}
		}
	case ArrayVal:
		for _, e := range x.e {
			if jsonUnsupported(e, depth+1) {
				return true
			}
		}
	}
	return false
}

func (m *Machine) jsonMarshal(v Value) Value {
	if jsonUnsupported(v, 0) {
		return TupleVal{SliceVal{}, m.newErrorValue("json: unsupported type")}
	}
	iv, ok := v.(IfaceVal)
	if ok && iv.typ != nil {
		switch x := iv.v.(type) {
		case *Term:
			if x.isConst() {
				var b []byte
				if x.sort == SBool {
					b, _ = json.Marshal(x.bv)
				} else {
					b = []byte(x.iv.String())
				}
				return TupleVal{m.bytesSlice(b), IfaceVal{}}
			}
		case StrVal:
			if x.concrete() {
				b, _ := json.Marshal(x.s)
				return TupleVal{m.bytesSlice(b), IfaceVal{}}
			}
		}
	}
	if ok && iv.typ == nil {
		return TupleVal{m.bytesSlice([]byte("null")), IfaceVal{}}
	}
	blob := &Blob{kind: "json", v: m.deepCopy(v, map[*Obj]*Obj{})}
	return TupleVal{m.blobSlice(blob), IfaceVal{}}
}

// jsonUnmarshal stores the payload of data into the pointer dst.
func (m *Machine) jsonUnmarshal(data Value, dst Value) Value {
	iv, ok := dst.(IfaceVal)
	if !ok || iv.typ == nil {
		return m.freshError("json: Unmarshal(nil)")
	}
	p, ok := iv.v.(PtrVal)
	if !ok || p.obj == nil {
		return m.freshError("json: Unmarshal(non-pointer)")
	}
	pt, _ := iv.typ.Underlying().(*types.Pointer)
	if bl := blobOf(data); bl != nil && bl.kind == "json" {
		src, ok := bl.v.(IfaceVal)
		if !ok {
			panic(abortf("json blob without interface payload"))
		}
		if src.typ == nil {
			return IfaceVal{}
		}
		if pt != nil && types.AssignableTo(src.typ, pt.Elem()) {
			val := m.deepCopy(src.v, map[*Obj]*Obj{})
			if m.genericJSONDest(pt.Elem()) {
				// decoding into interface{} turns every JSON number into a float64
				val = m.floatify(val)
			}
			if types.IsInterface(pt.Elem()) {
				val = IfaceVal{typ: src.typ, v: val}
			}
			m.store(p, val)
			return IfaceVal{}
		}
		if pt != nil {
			if val, ok := m.jsonConvert(src.v, src.typ, pt.Elem()); ok {
				m.store(p, val)
				return IfaceVal{}
			}
		}
		// pointer payload into value destination and vice versa
		if spt, ok := src.typ.Underlying().(*types.Pointer); ok && pt != nil && types.AssignableTo(spt.Elem(), pt.Elem()) {
			sp := src.v.(PtrVal)
			if sp.obj == nil {
				return IfaceVal{}
			}
			m.store(p, m.deepCopy(m.load(sp), map[*Obj]*Obj{}))
			return IfaceVal{}
		}
		return m.freshError("json: cannot unmarshal value into Go value of a different type")
	}
	if b, ok := concreteBytes(data); ok && len(b) == 0 {
		return m.freshError("unexpected end of JSON input")
	}
	if b, ok := concreteBytes(data); ok && pt != nil {
		cur := m.load(p)
		switch cur.(type) {
		case *Term:
			if isBoolType(pt.Elem()) {
				var x bool
				if err := json.Unmarshal(b, &x); err != nil {
					return m.freshError(err.Error())
				}
				m.store(p, mkBool(x))
				return IfaceVal{}
			}
			var x int64
			if err := json.Unmarshal(b, &x); err != nil {
				return m.freshError(err.Error())
			}
			m.store(p, mkInt(x))
			return IfaceVal{}
		case StrVal:
			var x string
			if err := json.Unmarshal(b, &x); err != nil {
				return m.freshError(err.Error())
			}
			m.store(p, StrVal{s: x})
			return IfaceVal{}
		case IfaceVal:
			if string(b) == "null" {
				return IfaceVal{}
			}
		}
	}
	panic(abortf("json.Unmarshal of %s into %s is outside the model", describe(data), iv.typ))
}

// jsonConvert: a payload encoded from one Go type decoded into a structurally compatible other
// one (numbers into integer kinds of at least the same width, strings, booleans, slices of those,
// values that were wrapped in interface{} when encoded). Everything else: not convertible here.
func (m *Machine) jsonConvert(v Value, st, dt types.Type) (Value, bool) {
	if iv, ok := v.(IfaceVal); ok {
		if iv.typ == nil {
			return nil, false
		}
		return m.jsonConvert(iv.v, iv.typ, dt)
	}
	if types.IsInterface(dt) {
		return nil, false
	}
	switch d := dt.Underlying().(type) {
	case *types.Basic:
		sb, ok := st.Underlying().(*types.Basic)
		if !ok {
			return nil, false
		}
		switch {
		case d.Info()&types.IsInteger != 0 && sb.Info()&types.IsInteger != 0:
			db, dsigned := typeBits(dt)
			sbits, ssigned := typeBits(st)
			if t, isT := v.(*Term); isT && (dsigned == ssigned && db >= sbits || dsigned && db > sbits) {
				return t, true
			}
		case d.Info()&types.IsString != 0 && sb.Info()&types.IsString != 0, d.Info()&types.IsBoolean != 0 && sb.Info()&types.IsBoolean != 0:
			return v, true
		}
	case *types.Slice:
		ss, ok := st.Underlying().(*types.Slice)
		sv, ok2 := v.(SliceVal)
		if !ok || !ok2 {
			return nil, false
		}
		if sv.arr == nil {
			return SliceVal{}, true
		}
		arr, ok := sv.arr.v.(ArrayVal)
		if !ok {
			return nil, false
		}
		e := make([]Value, 0, sv.len)
		for i := sv.off; i < sv.off+sv.len; i++ {
			c, ok := m.jsonConvert(arr.e[i], ss.Elem(), d.Elem())
			if !ok {
				return nil, false
			}
			e = append(e, m.deepCopy(c, map[*Obj]*Obj{}))
		}
		return SliceVal{arr: m.newObj(ArrayVal{e}, types.NewArray(d.Elem(), int64(len(e))), "json-decoded"), len: len(e), cap: len(e)}, true
	}
	return nil, false
}

func init() {
	regV("encoding/json.Marshal", func(m *Machine, g *Goroutine, a []Value) Value { return m.jsonMarshal(a[0]) })
	regV("encoding/json.Unmarshal", func(m *Machine, g *Goroutine, a []Value) Value { return m.jsonUnmarshal(a[0], a[1]) })
}

// genericJSONDest: interface{} or []interface{} / map[string]interface{} destinations.
func (m *Machine) genericJSONDest(t types.Type) bool {
	switch u := t.Underlying().(type) {
	case *types.Interface:
		return u.NumMethods() == 0
	case *types.Slice:
		return m.genericJSONDest(u.Elem())
	case *types.Map:
		return m.genericJSONDest(u.Elem())
	}
	return false
}

// floatify replaces every symbolic integer leaf by "some number within float64
// rounding distance of it": exact up to 2^53, within 2^10 beyond (int64 range).
// float64Of is float64(x) for an integer x, as an integer term.
func (m *Machine) float64Of(x *Term) *Term {
	if x.isConst() {
		f, _ := new(big.Float).SetInt(x.iv).Float64()
		r, _ := big.NewFloat(f).Int(nil)
		return mkIntBig(r)
	}
	return m.floatify(x).(*Term)
}

func (m *Machine) floatify(v Value) Value {
	switch x := v.(type) {
	case *Term:
		if x.sort != SInt || x.isConst() {
			return x
		}
		if m.floatCache == nil {
			m.floatCache = map[string]*Term{}
		}
		if r, ok := m.floatCache[x.String()]; ok {
			return r // float64(n) is a function of n
		}
		r := mkVar(m.uniqueName("float64of"), SInt, nil, nil)
		m.declare(r)
		m.floatCache[x.String()] = r
		// float64(x): exact below 2^53; for 2^k <= |x| < 2^(k+1) the nearest multiple of 2^(k-52), ties to even
		ax := tIte(tLt(x, mkInt(0)), tNeg(x), x)
		cs := []*Term{tImplies(tLt(ax, mkIntBig(pow2(53))), tEq(r, x))}
		for k := 53; k <= 63; k++ {
			g := mkIntBig(pow2(k - 52))
			in := tAnd(tLe(mkIntBig(pow2(k)), ax), tLt(ax, mkIntBig(pow2(k+1))))
			d := tSub(r, x)
			ad := tIte(tLt(d, mkInt(0)), tNeg(d), d)
			// nearest multiple of g; an exact tie goes to the even multiple (IEEE round-half-even)
			g2 := mkIntBig(pow2(k - 51))
			tie := tEq(tMul(mkInt(2), ad), g)
			cs = append(cs, tImplies(in, tAnd(tEq(tEMod(r, g), mkInt(0)), tLe(tMul(mkInt(2), ad), g), tImplies(tie, tEq(tEMod(r, g2), mkInt(0))))))
		}
		m.assume(tAnd(cs...))
		return r
	case StructVal:
		f := make([]Value, len(x.f))
		for i := range f {
			f[i] = m.floatify(x.f[i])
		}
		return StructVal{f}
	case IfaceVal:
		if x.typ == nil {
			return x
		}
		return IfaceVal{typ: x.typ, v: m.floatify(x.v)}
	case SliceVal:
		if x.arr == nil {
			return x
		}
		if arr, ok := x.arr.v.(ArrayVal); ok {
			e := make([]Value, len(arr.e))
			for i := range e {
				e[i] = m.floatify(arr.e[i])
			}
			return SliceVal{arr: m.newObj(ArrayVal{e}, x.arr.typ, "floatified"), off: x.off, len: x.len, cap: x.cap}
		}
	}
	return v
}
