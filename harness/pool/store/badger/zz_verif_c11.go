package badger

import (
	"fmt"
	"time"

	"github.com/vipnode/vipnode/v2/internal/verifapi"
	"github.com/vipnode/vipnode/v2/pool/store"
)

// VerifC11Rounds: a history of keep-alives driven through the Store interface
// only (so it runs on either driver): in every round time passes, each peer
// may check in, more time passes, then node x sends its keep-alive reporting
// an arbitrary multiset of ids (registered, not yet registered, unknown,
// duplicates). The harness tracks, per peer, its own last check-in and the
// check-in recorded the last time x reported it, and demands after every
// keep-alive exactly the verdicts of the statement.
func VerifC11Rounds() {
	d := verifDriver()
	rounds := verifapi.Param("rounds", 2)
	np := verifapi.Param("peers", 2)
	now := verifapi.Time("t0")
	verifapi.SetNow(now)
	x := store.NodeID(verifapi.NodeID(0))
	unknown := store.NodeID(verifapi.NodeID(4))
	verifapi.Assert(d.SetNode(store.Node{ID: x, LastSeen: now}) == nil, "c11.rounds.setup")
	ids := make([]store.NodeID, np)
	registered := make([]bool, np)
	lastSeen := make([]time.Time, np) // the peer's own last check-in
	tracked := make([]bool, np)       // tracked by x
	recorded := make([]time.Time, np) // the peer's check-in as recorded the last time x reported it
	register := func(i int) {
		registered[i] = true
		lastSeen[i] = now
		verifapi.Assert(d.SetNode(store.Node{ID: ids[i], IsHost: true, Kind: "geth", LastSeen: now}) == nil, "c11.rounds.setup")
	}
	for i := 0; i < np; i++ {
		ids[i] = store.NodeID(verifapi.NodeID(i + 1))
		if verifapi.Bool(fmt.Sprint("reg", i)) {
			register(i)
		}
	}
	advance := func(name string) {
		dt := verifapi.Dur(name)
		verifapi.Assume(dt >= 0)
		verifapi.Assume(dt < 1000*time.Second)
		now = now.Add(dt)
		verifapi.SetNow(now)
	}
	for r := 0; r < rounds; r++ {
		advance(fmt.Sprint("r", r, ".dtA"))
		for i := 0; i < np; i++ {
			switch {
			case registered[i] && verifapi.Bool(fmt.Sprint("r", r, ".checkin", i)):
				_, err := d.UpdateNodePeers(ids[i], nil, 1)
				verifapi.Assert(err == nil, "c11.rounds.peer-checkin")
				lastSeen[i] = now
			case !registered[i] && r > 0 && verifapi.Bool(fmt.Sprint("r", r, ".joins", i)):
				register(i) // a peer that was reported while still unknown joins the pool later
			}
		}
		advance(fmt.Sprint("r", r, ".dtB"))
		// node x may register again (a reconnect) before its keep-alive: that does not touch what it tracks
		if r > 0 && verifapi.Param("reregister", 0) == 1 && verifapi.Bool(fmt.Sprint("r", r, ".x-registers-again")) {
			verifapi.Assert(d.SetNode(store.Node{ID: x, Kind: "geth", LastSeen: now}) == nil, "c11.rounds.setup")
		}
		var list []string
		reported := make([]bool, np)
		for i := 0; i < np; i++ {
			k := verifapi.Choose(fmt.Sprint("r", r, ".reported", i), 3)
			reported[i] = k > 0
			for j := 0; j < k; j++ {
				list = append(list, string(ids[i]))
			}
		}
		if verifapi.Bool(fmt.Sprint("r", r, ".unknown")) {
			list = append(list, string(unknown))
		}
		// other requests are served meanwhile: the keep-alive's transaction may conflict (and be retried)
		verifapi.KVStorm(verifapi.Param("conflict_storm", 0))
		inactive, err := d.UpdateNodePeers(x, list, uint64(r))
		verifapi.KVStorm(0)
		verifapi.Assert(err == nil, "c11.registered-node-no-error")
		deadline := now.Add(-store.ExpireInterval)
		count := func(id store.NodeID) int {
			n := 0
			for _, in := range inactive {
				if in == id {
					n++
				}
			}
			return n
		}
		active, err := d.NodePeers(x)
		verifapi.Assert(err == nil, "c11.registered-node-no-error")
		isActive := func(id store.NodeID) int {
			n := 0
			for _, a := range active {
				if a.ID == id {
					n++
				}
			}
			return n
		}
		for i := 0; i < np; i++ {
			if !registered[i] {
				verifapi.Assert(count(ids[i]) == 0 && isActive(ids[i]) == 0, "c11.unknown-never-declared")
				continue
			}
			if reported[i] {
				tracked[i], recorded[i] = true, lastSeen[i]
			}
			if !tracked[i] {
				verifapi.Assert(count(ids[i]) == 0 && isActive(ids[i]) == 0, "c11.untracked-unreported-not-declared")
				continue
			}
			switch ts := recorded[i]; {
			case ts.After(deadline):
				verifapi.Assert(count(ids[i]) == 0, "c11.live-peer-never-declared-invalid")
				verifapi.Assert(isActive(ids[i]) == 1, "c11.live-peer-stays-tracked")
			case ts.Before(deadline):
				verifapi.Assert(count(ids[i]) == 1, "c11.stale-peer-declared-invalid-once")
				verifapi.Assert(isActive(ids[i]) == 0, "c11.stale-peer-forgotten")
				tracked[i] = false
			default: // exactly on the boundary: either way, but consistently
				n := count(ids[i])
				verifapi.Assert(n <= 1 && (n == 1) == (isActive(ids[i]) == 0), "c11.boundary-consistent")
				tracked[i] = n == 0
			}
		}
		verifapi.Assert(count(unknown) == 0 && count(x) == 0 && isActive(unknown) == 0, "c11.unknown-never-declared")
		verifapi.Assert(len(active) <= np, "c11.active-set-is-tracked-set")
		self, err := d.GetNode(x)
		verifapi.Assert(err == nil && self.LastSeen.Equal(now), "c11.own-lastseen-updated")
	}
	verifapi.Reach("c11.rounds")
}
