package jsonrpc2

import "context"

// VerifCtxWithService builds the context a handler receives for a request
// that arrived on svc (what Remote.handleRequest / Local.Call do).
func VerifCtxWithService(ctx context.Context, svc Service) context.Context {
	return context.WithValue(ctx, ctxService, svc)
}
