//go:build !verifreplay

// Package verifapi is the harness API of the gosym symbolic executor.
// In this (symbolic) build the functions have no bodies: gosym intercepts
// them. The replay build (tag verifreplay) reads the solver's assignment
// from a file so that the same harness runs natively against the real code.
package verifapi

import (
	"io"
	"math/big"
	"time"
)

func Int64(name string) int64
func Int(name string) int
func Uint64(name string) uint64
func Byte(name string) byte
func Bool(name string) bool
func Choose(name string, n int) int
func BigInt(name string) *big.Int
func Time(name string) time.Time
func Dur(name string) time.Duration
func StrAtom(name string) string
func StrBytes(name string, n int) string
func Assume(c bool)
func Assert(c bool, id string)
func Reach(id string)
func Class(name string, c bool)
func Observe(name string, v interface{})
func SetNow(t time.Time)
func Now() time.Time
func MapOrderAll(on bool)
func Unreachable(id string)
func LiveGoroutines() int
func Yield()
func Quiesce()
func Param(name string, def int) int
func IsSymbolic() bool

// Snap is a structural digest of the heap reachable from a value.
type Snap interface{}

func Snapshot(v interface{}) Snap
func Same(a, b Snap) bool

// FireTimers fires up to n pending timer events (ticker ticks, context deadlines); returns how many fired.
func FireTimers(n int) int

// Tickers is the number of time.Tick tickers created so far; TickInterval(i) the i-th one's interval.
func Tickers() int
func TickInterval(i int) time.Duration

// FireTicker delivers one tick of the i-th ticker created so far.
func FireTicker(i int) bool

// KVConflicts is the number of optimistic-transaction conflicts the KV model has reported so far.
func KVConflicts() int

// OnCrash enables crash points (before and after every committing
// transaction); on a crash everything in flight is abandoned and f runs on
// the committed state. NoCrash disables them again.
func OnCrash(f func())
func NoCrash()

// GuardedBy registers a guarded-by obligation: every later access to map m
// must happen while mutex mu (a *sync.Mutex / *sync.RWMutex) is held by the
// accessing goroutine. Unguard drops all obligations. LocksHeld is the number
// of mutexes the calling goroutine holds.
func GuardedBy(m interface{}, mu interface{})
func Unguard()
func LocksHeld() int

// URLParts declares how the harness assembled uri (scheme "://" [user "@"]
// hostport rest) so that url.Parse of a string with symbolic bytes can return
// the pieces (see engine/urlmodel.go). No-op for concrete strings and in replay.
func URLParts(uri, scheme, user string, hasUser bool, hostport, rest string)

// NewStream returns a loop-back byte stream for codec harnesses: what is
// written can be read back in chunks of arbitrary size (every cut position is
// explored).
func NewStream() io.ReadWriteCloser

// NewPipe returns one direction of an in-process connection: writes append whole
// messages, reads block until a message (or Close) arrives.
func NewPipe() io.ReadWriteCloser

// WriteMistyped writes v's JSON encoding with its "jsonrpc" member replaced by the number 2: a
// complete, well-formed JSON value that is not a valid message envelope (encoding/json reports a
// *json.UnmarshalTypeError for it after filling the other members).
func WriteMistyped(w io.Writer, v interface{})

// KVStorm lets up to n later commits of read-write transactions of the KV model fail with
// ErrConflict although the path contains no conflicting writer (other requests being served).
func KVStorm(n int)

// StreamHistory declares that an arbitrary amount of earlier, well-formed traffic has already been
// read through every reader currently wrapping the stream (a long-lived connection).
func StreamHistory(rwc io.ReadWriteCloser)

// JSONArgs builds a JSON-RPC params payload of the given shape: a JSON array
// (or, with isArray=false, a non-array value) whose positions have the JSON
// kinds "string", "number", "bool", "object", "array" or "null".
func JSONArgs(isArray bool, kinds ...string) []byte

// ReflectCalls counts the method invocations made through reflect.Value.Call so far.
func ReflectCalls() int
