package badger

import (
	"fmt"

	"github.com/dgraph-io/badger/v2"
	"github.com/vipnode/vipnode/v2/internal/verifapi"
	"github.com/vipnode/vipnode/v2/pool/store"
)

func verifMark(s *badgerStore, id string) (int64, bool) {
	var n int64
	err := s.db.View(func(txn *badger.Txn) error {
		return getItem(txn, []byte(fmt.Sprintf("vip:nonce:%s", id)), &n)
	})
	return n, err == nil
}

// VerifC05History: k submissions with symbolic identities, nonces and
// non-decreasing clock readings: a submission is accepted only if its nonce is
// above every nonce already accepted for that identity and not older than the
// freshness window - this is where the TTL of the stored high-water mark
// (it vanishes 15 minutes after it was written) is exercised with time as a
// symbolic variable.
func VerifC05History() {
	s := verifOpen()
	steps := verifapi.Param("steps", 3)
	ids := []string{verifapi.NodeID(0), verifapi.Wallet(0)}
	t := verifapi.Time("t0")
	highest := map[string]int64{}
	accepted := map[string]bool{}
	for k := 0; k < steps; k++ {
		dt := verifapi.Dur(fmt.Sprint("dt", k))
		verifapi.Assume(dt >= 0)
		verifapi.Assume(dt < 100000000000000) // < ~28h between submissions
		t = t.Add(dt)
		verifapi.SetNow(t)
		id := ids[verifapi.Choose(fmt.Sprint("id", k), len(ids))]
		n := verifapi.Int64(fmt.Sprint("nonce", k))
		err := s.CheckAndSaveNonce(id, n)
		edge := t.Add(-store.ExpireNonce).UnixNano()
		if err == nil {
			// nonces far in the future outlive the stored mark's TTL
			verifapi.Class("future-dated-nonce-replayed-after-ttl", accepted[id] && n <= highest[id])
			verifapi.Assert(!accepted[id] || n > highest[id], "c05.hist-accepted-nonces-strictly-increase")
			verifapi.Assert(n >= edge, "c05.hist-accepted-nonce-is-fresh")
			if !accepted[id] || n > highest[id] {
				highest[id] = n
			}
			accepted[id] = true
		} else {
			verifapi.Assert(err == store.ErrInvalidNonce, "c05.hist-error-kind")
			fresh := n > edge
			above := !accepted[id] || n > highest[id]
			verifapi.Assert(!(fresh && above), "c05.hist-fresh-and-above-is-accepted")
		}
	}
	verifapi.Reach("c05.history")
}

// VerifC05StepBadger: one CheckAndSaveNonce from an arbitrary (live) nonce table.
func VerifC05StepBadger() {
	s := verifOpen()
	now := verifapi.Time("now")
	ids := []string{verifapi.NodeID(0), verifapi.NodeID(1), verifapi.Wallet(0)}
	marks := map[string]int64{}
	has := map[string]bool{}
	verifapi.SetNow(now) // marks written "now": still inside their TTL
	for i, id := range ids {
		if verifapi.Bool(fmt.Sprint("has", i)) {
			m := verifapi.Int64(fmt.Sprint("mark", i))
			verifapi.Assume(m > 0)
			key := []byte(fmt.Sprintf("vip:nonce:%s", id))
			s.db.Update(func(txn *badger.Txn) error { return setExpiringItem(txn, key, &m, s.nonceExpire) })
			marks[id] = m
			has[id] = true
		}
	}
	id := ids[verifapi.Choose("id", 3)]
	n := verifapi.Int64("n")
	err := s.CheckAndSaveNonce(id, n)
	verifapi.Reach("c05.step.badger")
	edge := now.Add(-store.ExpireNonce).UnixNano()
	if err == nil {
		verifapi.Assert(!has[id] || n > marks[id], "c05.accept-implies-above-mark")
		verifapi.Assert(n >= edge, "c05.accept-implies-fresh")
		got, ok := verifMark(s, id)
		verifapi.Assert(ok && got == n, "c05.mark-advanced")
	} else {
		verifapi.Assert(err == store.ErrInvalidNonce, "c05.error-kind")
		verifapi.Assert(!((!has[id] || n > marks[id]) && n > edge), "c05.fresh-and-above-is-accepted")
		got, ok := verifMark(s, id)
		verifapi.Assert(ok == has[id] && (!ok || got == marks[id]), "c05.reject-leaves-table")
	}
	for _, other := range ids {
		if other != id {
			got, ok := verifMark(s, other)
			verifapi.Assert(ok == has[other] && (!ok || got == marks[other]), "c05.other-identities-untouched")
		}
	}
}

// VerifC05RaceBadger: two copies of one request racing each other are honoured at most once.
func VerifC05RaceBadger() {
	s := verifOpen()
	now := verifapi.Time("now")
	verifapi.SetNow(now)
	id := verifapi.NodeID(0)
	n := verifapi.Int64("n")
	res := make(chan error, 2)
	for i := 0; i < 2; i++ {
		go func() { res <- s.CheckAndSaveNonce(id, n) }()
	}
	oks := 0
	for i := 0; i < 2; i++ {
		if err := <-res; err == nil {
			oks++
		}
	}
	verifapi.Reach("c05.race.badger")
	if verifapi.KVConflicts() > 0 {
		verifapi.Reach("c05.race.badger.conflict-path-explored")
	}
	verifapi.Assert(oks <= 1, "c05.race-at-most-one-acceptance")
}

// VerifC05RaceDistinctBadger: two requests of one identity with DIFFERENT
// nonces are submitted at the same time. Whatever the interleaving (conflicts
// of the nonce transaction included), the higher of the accepted nonces is
// what the driver remembers: it cannot be submitted again - also not to a new
// driver instance over the same database (C13: an acknowledged nonce is read
// back after a restart) - and a lower one is refused as well.
func VerifC05RaceDistinctBadger() {
	s := verifOpen()
	now := verifapi.Time("now")
	verifapi.SetNow(now)
	id := verifapi.NodeID(0)
	n1, n2 := verifapi.Int64("n1"), verifapi.Int64("n2")
	verifapi.Assume(n1 < n2)
	fresh := now.UnixNano() - int64(store.ExpireNonce)
	verifapi.Assume(n1 > fresh && n2 <= now.UnixNano())
	var e1, e2 error
	done := make(chan int, 2)
	go func() { e1 = s.CheckAndSaveNonce(id, n1); done <- 1 }()
	go func() { e2 = s.CheckAndSaveNonce(id, n2); done <- 2 }()
	<-done
	<-done
	verifapi.Reach("c05.race.distinct")
	re := &badgerStore{db: s.db, nonceExpire: s.nonceExpire}
	if e2 == nil {
		verifapi.Assert(re.CheckAndSaveNonce(id, n2) != nil, "c05.race.accepted-nonce-cannot-be-submitted-again")
		verifapi.Assert(re.CheckAndSaveNonce(id, n1) != nil, "c05.race.lower-nonce-refused-after-higher-accepted")
	} else if e1 == nil {
		verifapi.Assert(re.CheckAndSaveNonce(id, n1) != nil, "c05.race.accepted-nonce-cannot-be-submitted-again")
	}
}
