//go:build !verifreplay

// Package sigs is the signing oracle used by pool-level harnesses.
// Symbolic build: SignFor is intercepted by gosym and request.Verify is
// replaced by the Dolev-Yao oracle (a signature verifies iff it was produced
// by SignFor for exactly this method, identity, nonce and arguments).
package sigs

// SignFor returns the signature of identity's owner over (method, identity, nonce, args...).
func SignFor(identity string, method string, nonce int64, args ...interface{}) string
