package main

import (
	"context"
	"encoding/json"

	"github.com/vipnode/vipnode/v2/internal/verifapi"
	"github.com/vipnode/vipnode/v2/jsonrpc2"
)

// verifDocumentedPoolCalls: the pool's documented RPC surface.
var verifDocumentedPoolCalls = []string{
	"vipnode_connect", "vipnode_update", "vipnode_peer", "vipnode_client", "vipnode_host", "vipnode_ping",
	"pool_account", "pool_addNode", "pool_withdraw", "pool_status",
}

// VerifC16PoolBinary: the pool command itself - runPool with a memory store
// and no payment contract - builds its RPC server (the real wiring in
// pool.go: allow-list of the pool service, the payment service, the status
// dashboard) up to the point where it starts listening; the harness then
// sends that server one call with an arbitrary method name: it is served iff
// the name is one of the documented calls, anything else is method-not-found.
func VerifC16PoolBinary() {
	var opts Options
	opts.Pool.Store = "memory"
	opts.Pool.Bind = "127.0.0.1:39517"
	opts.Pool.Contract.Price = "1000"
	opts.Pool.Contract.MinBalance = "off"
	call := verifStartPool(opts)
	method := verifapi.StrAtom("method")
	id, _ := json.Marshal(7)
	resp := call(&jsonrpc2.Message{ID: id, Version: jsonrpc2.Version, Request: &jsonrpc2.Request{Method: method, Params: verifapi.JSONArgs(true)}})
	verifapi.Reach("c16.binary")
	documented := false
	for _, d := range verifDocumentedPoolCalls {
		if method == d {
			documented = true
		}
	}
	notFound := resp != nil && resp.Response != nil && resp.Error != nil && resp.Error.Code == jsonrpc2.ErrCodeMethodNotFound
	if documented {
		verifapi.Assert(!notFound, "c16.documented-name-is-served")
	} else {
		verifapi.Assert(notFound, "c16.undocumented-name-is-method-not-found")
	}
	verifapi.Assert(resp != nil && string(resp.ID) == "7", "c16.reply-carries-request-id")
}

var _ = context.Background
