package main

import (
	"context"
	"errors"
	"fmt"

	"github.com/vipnode/vipnode/v2/agent"
	"github.com/vipnode/vipnode/v2/internal/verifapi"
	"github.com/vipnode/vipnode/v2/pool"
)

// verifRunnerPool is the pool the command-line runner talks to: it refuses the connect when told to.
type verifRunnerPool struct {
	refuse   bool
	connects int
	updates  int
}

func (p *verifRunnerPool) Host(ctx context.Context, req pool.HostRequest) (*pool.HostResponse, error) {
	return &pool.HostResponse{}, nil
}
func (p *verifRunnerPool) Client(ctx context.Context, req pool.ClientRequest) (*pool.ClientResponse, error) {
	return &pool.ClientResponse{}, nil
}
func (p *verifRunnerPool) Connect(ctx context.Context, req pool.ConnectRequest) (*pool.ConnectResponse, error) {
	p.connects++
	if p.refuse {
		return nil, errors.New("pool refused the connect")
	}
	return &pool.ConnectResponse{PoolVersion: "test"}, nil
}
func (p *verifRunnerPool) Update(ctx context.Context, req pool.UpdateRequest) (*pool.UpdateResponse, error) {
	p.updates++
	return &pool.UpdateResponse{}, nil
}
func (p *verifRunnerPool) Peer(ctx context.Context, req pool.PeerRequest) (*pool.PeerResponse, error) {
	return &pool.PeerResponse{}, nil
}
func (p *verifRunnerPool) Withdraw(ctx context.Context) error { return nil }

// VerifC20Runner: the command's runner (agentRunner.Run) around the agent's life cycle: a sequence of runs on one
// runner, each either refused by the pool at connect or started and then stopped. A refused run returns the
// pool's error and leaves no loop behind (a tick produces no keep-alive); a started run returns once the agent
// is stopped, whatever happened in earlier runs.
func VerifC20Runner() {
	p := &verifRunnerPool{}
	runner := &agentRunner{Agent: &agent.Agent{EthNode: verifRootNode()}, RemotePool: p}
	runs := verifapi.Param("runs", 2)
	for r := 0; r < runs; r++ {
		p.refuse = verifapi.Bool(fmt.Sprint("refused", r))
		done := make(chan error, 1)
		go func() { done <- runner.Run() }()
		verifapi.Quiesce()
		if p.refuse {
			select {
			case err := <-done:
				verifapi.Assert(err != nil, "c20.runner.refused-start-is-an-error")
			default:
				verifapi.Assert(false, "c20.runner.refused-start-returns")
				return
			}
			before := p.updates
			if n := verifapi.Tickers(); n > 0 {
				verifapi.FireTicker(n - 1)
				verifapi.Quiesce()
			}
			verifapi.Assert(p.updates == before, "c20.runner.refused-start-leaves-no-loop")
			continue
		}
		select {
		case <-done:
			verifapi.Assert(false, "c20.runner.started-run-blocks-until-stopped")
			return
		default:
		}
		runner.Agent.Stop()
		verifapi.Quiesce()
		select {
		case err := <-done:
			verifapi.Assert(err == nil, "c20.runner.run-returns-after-stop")
		default:
			verifapi.Assert(false, "c20.runner.run-returns-after-stop")
			return
		}
	}
	verifapi.Reach("c20.runner")
}
