package memory

import (
	"github.com/vipnode/vipnode/v2/internal/verifapi"
	"github.com/vipnode/vipnode/v2/pool/store"
)

// (black-box harnesses in a file of their own: they do not mention the store's fields, so they still
// compile - and run - when the representation of the nonce table changes)

// VerifC05Race: two copies of one request racing each other are honoured at most once.
func VerifC05Race() {
	s := New()
	now := verifapi.Time("now")
	verifapi.SetNow(now)
	id := verifapi.NodeID(0)
	n := verifapi.Int64("n")
	res := make(chan error, 2)
	for i := 0; i < 2; i++ {
		go func() { res <- s.CheckAndSaveNonce(id, n) }()
	}
	oks := 0
	for i := 0; i < 2; i++ {
		if err := <-res; err == nil {
			oks++
		}
	}
	verifapi.Reach("c05.race")
	verifapi.Assert(oks <= 1, "c05.race-at-most-one-acceptance")
}

// VerifC05RaceOrder: a lower and a higher nonce of one identity race each other; whatever the outcome, the
// higher one cannot be accepted again afterwards (the stored mark never moves backwards).
func VerifC05RaceOrder() {
	s := New()
	now := verifapi.Time("now")
	verifapi.SetNow(now)
	id := verifapi.NodeID(0)
	lo := verifapi.Int64("lo")
	hi := verifapi.Int64("hi")
	verifapi.Assume(lo < hi)
	res := make(chan error, 2)
	go func() { res <- s.CheckAndSaveNonce(id, lo) }()
	var errHi error
	done := make(chan struct{})
	go func() { errHi = s.CheckAndSaveNonce(id, hi); close(done) }()
	<-res
	<-done
	verifapi.Reach("c05.race-order")
	if errHi == nil {
		verifapi.Assert(s.CheckAndSaveNonce(id, hi) == store.ErrInvalidNonce, "c05.race-accepted-nonce-not-accepted-again")
		verifapi.Assert(s.CheckAndSaveNonce(id, lo) == store.ErrInvalidNonce, "c05.race-lower-nonce-refused-afterwards")
	}
}
