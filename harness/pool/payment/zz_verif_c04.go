package payment

import (
	"context"
	"math/big"
	"strings"

	"github.com/vipnode/vipnode/v2/ethnode"
	"github.com/vipnode/vipnode/v2/internal/verifapi"
	"github.com/vipnode/vipnode/v2/internal/verifmodels/sigs"
	"github.com/vipnode/vipnode/v2/jsonrpc2"
	"github.com/vipnode/vipnode/v2/pool"
	"github.com/vipnode/vipnode/v2/pool/store"
)

const (
	altNone = iota
	altMethod
	altIdentity
	altNonce
	altParams
	altGarbage
	altEmpty
	altStale    // correctly signed but nonce not above the identity's high-water mark
	altOldForm  // vipnode_update only: deprecated signature that does not cover PeerInfo
	altSpelling // the honest signature, presented under another spelling of the same identity
	altExpired  // correctly signed, but the nonce is older than the freshness window (a captured request sent again much later)
	altCount
)

// verifSignedCall signs one tuple and presents a (possibly altered) request
// to endpoint ep. It returns the endpoint's error.
func verifSignedCall(w *verifWorld, ep int, alt int, svc *pool.VerifHost) error {
	ctx := jsonrpc2.VerifCtxWithService(context.Background(), svc)
	node := string(w.nodes[0])
	other := string(w.nodes[1])
	wal := string(w.wallets[0])
	otherWal := string(w.wallets[1])
	nonce := pool.VerifFreshNonce()
	signNonce := nonce
	if alt == altNonce {
		signNonce = verifapi.Int64("signednonce")
		verifapi.Assume(signNonce != nonce)
	}
	if alt == altExpired {
		// the identity has a saved mark; the request's own nonce is too old to be accepted
		id := node
		if ep >= 5 {
			id = wal
		}
		w.db.CheckAndSaveNonce(id, nonce)
		w.t0 = verifapi.Snapshot(w.state())
		nonce = verifapi.Now().UnixNano() - int64(store.ExpireNonce) - 1000
		signNonce = nonce
	}
	if alt == altStale {
		// the identity already used a higher nonce
		id := node
		if ep >= 5 {
			id = wal
		}
		w.db.CheckAndSaveNonce(id, nonce+5)
		w.t0 = verifapi.Snapshot(w.state())
	}
	mk := func(method, identity string, args ...interface{}) string {
		switch alt {
		case altGarbage:
			// something that decodes but is too short, or that does not even decode (the real code
			// answers these with different errors)
			return []string{"Z2FyYmFnZQ==", "%%%not-a-signature%%%", "0xzz"}[verifapi.Choose("garbage", 3)]
		case altEmpty:
			return ""
		case altMethod:
			method = "vipnode_other"
		}
		return sigs.SignFor(identity, method, signNonce, args...)
	}
	// what the request names as its identity: the honest string, or (altSpelling) the same key
	// spelled differently - the pool keys nonces, nodes, accounts and connections by this string
	presentNode, presentWal := node, wal
	if alt == altSpelling {
		presentNode = "0x" + node
		presentWal = "0x" + strings.ToLower(wal[2:])
		if verifapi.Bool("uppercase") {
			presentNode = strings.ToUpper(node)
			presentWal = "0x" + strings.ToUpper(wal[2:])
		}
	}
	signer := func(honest, dishonest string) string {
		if alt == altIdentity {
			return dishonest
		}
		return honest
	}
	switch ep {
	case 0: // vipnode_connect
		// the pool may be restricted to one Ethereum network; the node claims that network or none
		req := pool.ConnectRequest{NodeInfo: ethnode.UserAgent{Kind: ethnode.Geth, IsFullNode: verifapi.Bool("full"), Network: ethnode.NetworkID(verifapi.Choose("claimed-network", 2))}, Payout: wal}
		signed := req
		if alt == altParams {
			signed.Payout = otherWal
		}
		_, err := w.p.Connect(ctx, mk("vipnode_connect", signer(node, other), signed), presentNode, nonce, req)
		return err
	case 1: // vipnode_update
		req := pool.UpdateRequest{PeerInfo: pool.VerifPeerInfos(other), BlockNumber: 7}
		signed := req
		if alt == altParams {
			signed.BlockNumber = 8
		}
		if alt == altOldForm {
			_, err := w.p.Update(ctx, pool.VerifSignOldUpdate(node, nonce, req.Peers, req.BlockNumber), presentNode, nonce, req)
			return err
		}
		_, err := w.p.Update(ctx, mk("vipnode_update", signer(node, other), signed), presentNode, nonce, req)
		return err
	case 2: // vipnode_peer
		// the requested count is 1..3 and the pool may be configured with a maximum of 1 or 2: what the
		// signature covers is the request as sent, whatever the pool later makes of the count
		req := pool.PeerRequest{Num: 1 + verifapi.Choose("peernum", 3)}
		signed := req
		if alt == altParams {
			signed.Num = 1 + verifapi.Choose("signednum", 3)
			verifapi.Assume(signed.Num != req.Num)
		}
		_, err := w.p.Peer(ctx, mk("vipnode_peer", signer(node, other), signed), presentNode, nonce, req)
		return err
	case 3: // vipnode_host
		req := pool.HostRequest{Kind: "geth", Payout: wal}
		signed := req
		if alt == altParams {
			signed.Payout = otherWal
		}
		_, err := w.p.Host(ctx, mk("vipnode_host", signer(node, other), signed), presentNode, nonce, req)
		return err
	case 4: // vipnode_client
		req := pool.ClientRequest{Kind: "geth", NumHosts: 1}
		signed := req
		if alt == altParams {
			signed.NumHosts = 2
		}
		_, err := w.p.Client(ctx, mk("vipnode_client", signer(node, other), signed), presentNode, nonce, req)
		return err
	case 5: // pool_addNode
		arg := node
		signedArg := arg
		if alt == altParams {
			signedArg = other
		}
		return w.pay.AddNode(ctx, mk("pool_addNode", signer(wal, otherWal), signedArg), presentWal, nonce, arg)
	default: // pool_withdraw
		if alt == altParams {
			// no parameters to alter: sign with a spurious extra argument
			return w.pay.Withdraw(ctx, sigs.SignFor(wal, "pool_withdraw", signNonce, "extra"), presentWal, nonce)
		}
		return w.pay.Withdraw(ctx, mk("pool_withdraw", signer(wal, otherWal)), presentWal, nonce)
	}
}

func (w *verifWorld) state() interface{} {
	return []interface{}{w.db, w.p, w.dep.Deposit, w.paid, w.settles}
}

func (w *verifWorld) hostCalls() int {
	n := 0
	for _, h := range w.hosts {
		n += len(h.Calls)
	}
	return n
}

func verifEndpointWorld(track bool) *verifWorld {
	w := verifBuildWorld(newVerifStore(), 2, nil, big.NewInt(100000000000))
	w.p.RestrictNetwork = ethnode.NetworkID(verifapi.Choose("restrict-network", 2)) // unrestricted, or mainnet only
	w.pay.Settle = verifSettleStub(w, "settlefails")
	// node 0 tracks node 1 (so that updates and peer requests have something to act on)
	if track {
		w.db.UpdateNodePeers(w.nodes[0], []string{string(w.nodes[1])}, 0)
	}
	dt := verifapi.Dur("dt")
	verifapi.Assume(dt >= 0 && dt < 60000000000)
	verifapi.SetNow(verifapi.Now().Add(dt))
	return w
}

// VerifC04Endpoint: every signed endpoint acts only on a request whose
// signature covers exactly its method, identity, nonce and parameters, and a
// correctly signed fresh request passes verification.
func VerifC04Endpoint() {
	ep := verifapi.Choose("endpoint", 7)
	alt := verifapi.Choose("alteration", altCount)
	w := verifEndpointWorld(alt != altOldForm)
	if alt == altOldForm && ep != 1 {
		verifapi.Assume(false)
	}
	if alt == altStale || alt == altExpired {
		verifapi.Assume(false) // stale nonces are C05/C06
	}
	svc := &pool.VerifHost{Name: "conn", Addr: "192.0.2.9:1"}
	if ep == 2 {
		w.p.MaxRequestHosts = verifapi.Choose("maxrequesthosts", 3) // pool configuration: no maximum, 1 or 2
	}
	w.t0 = verifapi.Snapshot(w.state())
	err := verifSignedCall(w, ep, alt, svc)
	verifapi.Reach("c04.called")
	same := verifapi.Same(w.t0, verifapi.Snapshot(w.state()))
	acted := err == nil || !same || w.hostCalls() > 0 || len(svc.Calls) > 0
	verifapi.Class("peer-endpoint-unauthenticated", ep == 2)
	verifapi.Class("old-update-form-does-not-cover-peerinfo", ep == 1 && alt == altOldForm)
	verifapi.Class("payment-nonce-saved-before-signature-check", ep >= 5)
	if alt == altOldForm {
		// the deprecated signature covers (peers, block number) only: the
		// request may be honoured, but never on the strength of the unsigned PeerInfo
		peers, _ := w.db.NodePeers(w.nodes[0])
		verifapi.Assert(len(peers) == 0, "c04.unsigned-peerinfo-not-acted-on")
	} else if alt != altNone {
		verifapi.Assert(!acted, "c04.altered-request-has-no-effect")
		verifapi.Assert(pool.VerifIsVerifyFailed(err), "c04.altered-request-refused-as-verify-failed")
	} else {
		verifapi.Assert(!pool.VerifIsVerifyFailed(err), "c04.correctly-signed-fresh-request-passes-verification")
	}
}

// VerifC06Refused: a request that fails authentication (bad / foreign /
// malformed signature, stale nonce) leaves no trace, and the owner's next
// request with a smaller-but-fresh nonce is still accepted.
func VerifC06Refused() {
	w := verifEndpointWorld(true)
	ep := verifapi.Choose("endpoint", 7)
	kinds := []int{altIdentity, altGarbage, altEmpty, altNonce, altStale, altSpelling, altExpired}
	alt := kinds[verifapi.Choose("refusal", len(kinds))]
	svc := &pool.VerifHost{Name: "conn", Addr: "192.0.2.9:1"}
	if ep == 2 {
		w.p.MaxRequestHosts = verifapi.Choose("maxrequesthosts", 3)
	}
	w.t0 = verifapi.Snapshot(w.state())
	// the forged request carries a nonce well ahead of the clock
	legitNonce := pool.VerifFreshNonce()
	pool.VerifSkipNonces(1000)
	err := verifSignedCall(w, ep, alt, svc)
	verifapi.Reach("c06.refused")
	verifapi.Class("peer-endpoint-unauthenticated", ep == 2)
	verifapi.Class("payment-nonce-saved-before-signature-check", ep >= 5)
	verifapi.Assert(err != nil, "c06.refused-request-errors")
	verifapi.Assert(verifapi.Same(w.t0, verifapi.Snapshot(w.state())), "c06.refused-request-leaves-no-trace")
	verifapi.Assert(w.hostCalls() == 0 && len(svc.Calls) == 0, "c06.refused-request-calls-no-host")
	if alt == altStale || alt == altExpired {
		return
	}
	// the legitimate owner's next request, with a smaller but fresh nonce
	id := string(w.nodes[0])
	method := []string{"vipnode_connect", "vipnode_update", "vipnode_peer", "vipnode_host", "vipnode_client", "pool_addNode", "pool_withdraw"}[ep]
	if ep >= 5 {
		id = string(w.wallets[0])
	}
	var err2 error
	ctx := jsonrpc2.VerifCtxWithService(context.Background(), svc)
	switch ep {
	case 5:
		err2 = w.pay.AddNode(ctx, sigs.SignFor(id, method, legitNonce, string(w.nodes[0])), id, legitNonce, string(w.nodes[0]))
	case 6:
		err2 = w.pay.Withdraw(ctx, sigs.SignFor(id, method, legitNonce), id, legitNonce)
	default:
		req := pool.UpdateRequest{PeerInfo: pool.VerifPeerInfos(string(w.nodes[1]))}
		_, err2 = w.p.Update(ctx, sigs.SignFor(id, "vipnode_update", legitNonce, req), id, legitNonce, req)
	}
	verifapi.Assert(!pool.VerifIsVerifyFailed(err2), "c06.owner-next-request-with-lower-fresh-nonce-accepted")
}

var _ = store.ErrInvalidNonce

// VerifC04Reuse: a request is accepted; then its SIGNATURE is presented again with something changed - another
// parameter, with the old or with a fresh nonce. A signature speaks for exactly the request it was made for,
// also when it is the one the endpoint accepted last: the second request is refused and changes nothing.
func VerifC04Reuse() {
	w := verifEndpointWorld(true)
	svc := &pool.VerifHost{Name: "conn", Addr: "192.0.2.9:1"}
	ctx := jsonrpc2.VerifCtxWithService(context.Background(), svc)
	node, other := string(w.nodes[0]), string(w.nodes[1])
	wal := string(w.wallets[0])
	nonce := pool.VerifFreshNonce()
	ep := verifapi.Choose("endpoint", 3)
	var sig string
	var err error
	switch ep {
	case 0:
		sig = sigs.SignFor(wal, "pool_addNode", nonce, node)
		err = w.pay.AddNode(ctx, sig, wal, nonce, node)
	case 1:
		req := pool.UpdateRequest{PeerInfo: pool.VerifPeerInfos(other), BlockNumber: 7}
		sig = sigs.SignFor(node, "vipnode_update", nonce, req)
		_, err = w.p.Update(ctx, sig, node, nonce, req)
	default:
		req := pool.PeerRequest{Num: 1}
		sig = sigs.SignFor(node, "vipnode_peer", nonce, req)
		_, err = w.p.Peer(ctx, sig, node, nonce, req)
	}
	if err != nil {
		return // (the honest request may be refused for reasons of its own, e.g. no hosts: nothing to reuse)
	}
	verifapi.Reach("c04.reuse.accepted")
	nonce2 := nonce
	if verifapi.Bool("fresh-nonce") {
		nonce2 = pool.VerifFreshNonce()
	}
	before := verifapi.Snapshot(w.state())
	calls := w.hostCalls() + len(svc.Calls)
	switch ep {
	case 0:
		err = w.pay.AddNode(ctx, sig, wal, nonce2, other)
	case 1:
		req := pool.UpdateRequest{PeerInfo: pool.VerifPeerInfos(other), BlockNumber: 8}
		_, err = w.p.Update(ctx, sig, node, nonce2, req)
	default:
		req := pool.PeerRequest{Num: 2}
		_, err = w.p.Peer(ctx, sig, node, nonce2, req)
	}
	verifapi.Reach("c04.reuse")
	verifapi.Assert(err != nil, "c04.reuse.altered-request-under-an-accepted-signature-refused")
	verifapi.Assert(verifapi.Same(before, verifapi.Snapshot(w.state())) && w.hostCalls()+len(svc.Calls) == calls, "c04.reuse.altered-request-has-no-effect")
}
