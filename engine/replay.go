package main

import (
	"bytes"
	"context"
	"encoding/json"
	"fmt"
	"os"
	"os/exec"
	"path/filepath"
	"regexp"
	"strings"
	"time"

	"golang.org/x/tools/go/packages"
)

type ReplayFile struct {
	Property string            `json:"property"`
	Harness  string            `json:"harness"`
	Pkg      string            `json:"pkg"`
	Func     string            `json:"func"`
	Assert   string            `json:"assert"`
	Kind     string            `json:"kind"`
	Msg      string            `json:"msg,omitempty"`
	Model    map[string]string `json:"model"`
	Params   map[string]int    `json:"params,omitempty"`
	Trace    []Decision        `json:"trace,omitempty"`
	Observed map[string]string `json:"observed,omitempty"`
}

// nativeReplay compiles the same harness with the Go compiler (tag
// verifreplay), feeds it the solver's assignment and reports whether the
// assertion fails against the real build.
func nativeReplay(ld *Loaded, rf *ReplayFile) (bool, string, error) {
	tmp, err := os.MkdirTemp("", "gosym-replay-")
	if err != nil {
		return false, "", err
	}
	defer os.RemoveAll(tmp)
	replace := map[string]string{}
	n := 0
	put := func(virtual string, content []byte) error {
		n++
		real := filepath.Join(tmp, fmt.Sprintf("f%d_%s", n, filepath.Base(virtual)))
		if err := os.WriteFile(real, content, 0o644); err != nil {
			return err
		}
		replace[virtual] = real
		return nil
	}
	for v, c := range ld.overlay {
		if err := put(v, c); err != nil {
			return false, "", err
		}
	}
	// redirect time.Now() in repo packages to the replay clock
	pkgName := ""
	pkgPath := repoMod // the root package (the commands) when rf.Pkg is empty
	if rf.Pkg != "" {
		pkgPath = repoMod + "/" + rf.Pkg
	}
	packages.Visit(ld.pkgs, nil, func(p *packages.Package) {
		if !strings.HasPrefix(p.PkgPath, repoMod) || strings.Contains(p.PkgPath, "/internal/verif") {
			return
		}
		if p.PkgPath == pkgPath {
			pkgName = p.Name
		}
		rewrote := false
		for _, f := range p.GoFiles {
			if _, isOv := ld.overlay[f]; isOv {
				continue
			}
			b, err := os.ReadFile(f)
			if err != nil || !bytes.Contains(b, []byte("time.Now")) {
				continue
			}
			nb := bytes.ReplaceAll(b, []byte("time.Now"), []byte("verifNow"))
			nb = append(nb, []byte("\nvar _ time.Duration\n")...)
			put(f, nb)
			rewrote = true
		}
		if rewrote {
			dir := filepath.Dir(p.GoFiles[0])
			put(filepath.Join(dir, "zz_verif_now.go"), []byte(fmt.Sprintf("package %s\n\nimport \"%s\"\n\nvar verifNow = verifapi.Now\n", p.Name, apiPkg)))
		}
	})
	if pkgName == "" {
		return false, "", fmt.Errorf("package %s not loaded", rf.Pkg)
	}
	test := fmt.Sprintf(`package %s

import (
	"os"
	"testing"

	"%s"
)

func TestVerifReplay(t *testing.T) {
	verifapi.RunReplay(t, os.Getenv("VERIF_REPLAY"), %s)
}
`, pkgName, apiPkg, rf.Func)
	put(filepath.Join(repoDir, rf.Pkg, "zz_verif_replay_test.go"), []byte(test))
	ovb, _ := json.Marshal(map[string]interface{}{"Replace": replace})
	ovPath := filepath.Join(tmp, "overlay.json")
	os.WriteFile(ovPath, ovb, 0o644)
	rfPath := filepath.Join(tmp, "replay.json")
	rb, _ := json.Marshal(rf)
	os.WriteFile(rfPath, rb, 0o644)

	ctx, cancel := context.WithTimeout(context.Background(), 240*time.Second)
	defer cancel()
	// counterexamples may depend on Go's randomised map iteration order, which a native run
	// cannot be told: the replay is repeated and counts as reproduced if any repetition fails
	count := "-count=1"
	if rf.Kind != "witness" {
		count = "-count=12"
	}
	args := []string{"test", "-tags", "verifreplay", "-vet=off", count, "-failfast", "-timeout", "120s", "-overlay", ovPath, "-run", "^TestVerifReplay$", "-v"}
	if rf.Kind == "race" {
		// a data race found by the happens-before analysis is confirmed with Go's own race detector
		args = append(args, "-race")
	}
	cmd := exec.CommandContext(ctx, "go", append(args, pkgPath)...)
	cmd.Dir = repoDir
	cmd.Env = append(os.Environ(), "GOFLAGS=-mod=mod", "GOPROXY=off", "GOSUMDB=off", "GOTOOLCHAIN=local", "VERIF_REPLAY="+rfPath)
	out, _ := cmd.CombinedOutput()
	s := string(out)
	if strings.Contains(s, "[build failed]") || strings.Contains(s, "[setup failed]") {
		return false, s, fmt.Errorf("replay build failed:\n%s", tail(s, 20))
	}
	if strings.Contains(s, "VERIF-ASSUME-VIOLATED") {
		return false, s, nil
	}
	switch rf.Kind {
	case "race":
		// reproduced iff a DATA RACE report of the native run names one of the two source positions
		pos := regexp.MustCompile(`[A-Za-z0-9_]+\.go:\d+`).FindAllString(rf.Msg, -1)
		for _, blk := range strings.Split(s, "==================") {
			if !strings.Contains(blk, "DATA RACE") {
				continue
			}
			for _, p := range pos {
				if strings.Contains(blk, p) {
					return true, s, nil
				}
			}
		}
		return false, s, nil
	case "panic":
		return strings.Contains(s, "VERIF-PANIC") || strings.Contains(s, "panic:"), s, nil
	case "deadlock":
		return strings.Contains(s, "VERIF-DEADLOCK") || strings.Contains(s, "test timed out") || strings.Contains(s, "all goroutines are asleep"), s, nil
	}
	return strings.Contains(s, "VERIF-ASSERT-FAILED id="+rf.Assert+"\n") || strings.Contains(s, "VERIF-ASSERT-FAILED id="+rf.Assert+" "), s, nil
}

func cmdReplay(path string) int {
	b, err := os.ReadFile(path)
	if err != nil {
		fmt.Fprintln(os.Stderr, err)
		return 2
	}
	var rf ReplayFile
	if err := json.Unmarshal(b, &rf); err != nil {
		fmt.Fprintln(os.Stderr, err)
		return 2
	}
	ld, err := loadProgram([]string{rf.Pkg})
	if err != nil {
		fmt.Fprintln(os.Stderr, "load:", err)
		return 2
	}
	ok, out, err := nativeReplay(ld, &rf)
	fmt.Println(tail(out, 40))
	if err != nil {
		fmt.Fprintln(os.Stderr, err)
		return 2
	}
	if ok {
		fmt.Printf("VIOLATION property=%s replay=%s\n", rf.Property, path)
		return 1
	}
	fmt.Println("not reproduced")
	return 0
}
