package main

import (
	"fmt"
	"os"
	"runtime/debug"
	"sort"
	"strings"
	"sync"
	"time"

	"golang.org/x/tools/go/ssa"
)

type KnownFinding struct {
	Property string `json:"property"`
	Assert   string `json:"assert,omitempty"`
	Class    string `json:"class,omitempty"`
	Status   string `json:"status"` // known | fixed
	What     string `json:"what"`
	Commit   string `json:"commit,omitempty"`
}

type HarnessCfg struct {
	Name       string         `json:"name"`
	Pkg        string         `json:"pkg"`  // path relative to the repo module
	Func       string         `json:"func"` // harness function
	MaxPreempt int            `json:"max_preempt"`
	MaxTicks   int            `json:"max_ticks"`
	MaxPaths   int            `json:"max_paths"`
	Params     map[string]int `json:"params"`
	Known      []KnownFinding `json:"-"`
	NoReplay   bool           `json:"no_replay"`
	Desc       string         `json:"desc"`
}

type HarnessResult struct {
	Cfg         *HarnessCfg
	Paths       int
	EndReasons  map[string]int
	States      int
	Instrs      int
	FeasQ       int
	AssertQ     int
	NIA         int
	Unknowns    int
	Truncated   int
	Aborts      map[string]int
	Asserts     map[string]*AssertStat
	Reached     map[string]int
	Violations  []Violation
	Funcs       map[*ssa.Function]int
	Intercepts  map[string]int
	Samples     []map[string]string
	SolverTime  time.Duration
	Solver2Time time.Duration
	Wall        time.Duration
	Disagree    []string
	MaxDepth    int
	Events      int
	violSeen    map[string]int
}

func newMachine(ld *Loaded, cfg *HarnessCfg, s, s2 *Solver, prefix []Decision) *Machine {
	return &Machine{
		prog: ld.prog, ld: ld, cfg: cfg, solver: s, solver2: s2,
		vars: map[string]*Term{}, atoms: map[string]*Term{},
		prefix: prefix, globals: map[*ssa.Global]*Obj{}, initDone: map[*ssa.Package]bool{},
		ghost: map[string]Value{}, classes: map[string]*Term{}, observed: map[string]string{},
		asserts: map[string]*AssertStat{}, reached: map[string]int{},
		funcs: map[*ssa.Function]int{}, intercepts: map[string]int{},
		nameCount: map[string]int{}, chosen: map[string]int64{}, errCache: map[string]Value{},
		builders: map[*Obj]string{}, knownConds: map[string]bool{}, bufBlobs: map[*Obj]*Blob{},
		clock:    mkInt(1600000000000000000),
	}
}

// runPath executes the harness once along the given decision prefix.
func runPath(ld *Loaded, cfg *HarnessCfg, fn *ssa.Function, s, s2 *Solver, prefix []Decision, wantSample bool) (m *Machine, abort string) {
	m = newMachine(ld, cfg, s, s2, prefix)
	m.wantSample = wantSample
	s.send("(push 1)")
	defer s.send("(pop 1)")
	defer func() {
		if r := recover(); r != nil {
			switch e := r.(type) {
			case pathEnd:
				m.endReason = e.reason
			case abortErr:
				abort = e.msg + m.where()
				m.endReason = "abort"
			default:
				abort = fmt.Sprintf("engine panic: %v%s\n%s", r, m.where(), debug.Stack())
				m.endReason = "abort"
			}
		}
	}()
	m.raceInit()
	g := m.newGoroutine("main")
	m.cur = g
	m.race.actor = g
	// package initialisation of the harness package (transitively, repo packages only)
	if initFn := fn.Pkg.Func("init"); initFn != nil {
		m.inInit = true
		m.pushFrame(g, initFn, nil, nil, nil, func(Value) {})
		for len(g.frames) > 0 {
			m.step(g)
		}
		m.inInit = false
	}
	m.pushFrame(g, fn, nil, nil, nil, nil)
	m.runLoop()
	// a solved witness of the whole path (every input declared along it)
	if wantSample && m.endReason == "returned" && len(m.reached) > 0 && len(m.violations) == 0 {
		if s.checkSat() == "sat" {
			m.sample = m.model()
			m.sample["@path"] = "returned"
		}
	}
	return m, ""
}

type job struct{ prefix []Decision }

func exploreHarness(ld *Loaded, cfg *HarnessCfg, workers int, cross bool) (*HarnessResult, error) {
	fn := ld.findFunc(cfg.Pkg, cfg.Func)
	if fn == nil {
		return nil, fmt.Errorf("harness %s.%s not found", cfg.Pkg, cfg.Func)
	}
	res := &HarnessResult{Cfg: cfg, EndReasons: map[string]int{}, Aborts: map[string]int{}, Asserts: map[string]*AssertStat{},
		Reached: map[string]int{}, Funcs: map[*ssa.Function]int{}, Intercepts: map[string]int{}, violSeen: map[string]int{}}
	t0 := time.Now()
	var mu sync.Mutex
	cond := sync.NewCond(&mu)
	stack := []job{{nil}}
	active := 0
	stop := false
	maxPaths := cfg.MaxPaths
	if maxPaths == 0 {
		maxPaths = 200000
	}
	var wg sync.WaitGroup
	var firstErr error
	for w := 0; w < workers; w++ {
		wg.Add(1)
		go func(w int) {
			defer wg.Done()
			s, err := newSolver("z3")
			if err != nil {
				mu.Lock()
				firstErr = err
				stop = true
				cond.Broadcast()
				mu.Unlock()
				return
			}
			defer s.close()
			var s2 *Solver
			if cross {
				s2, _ = newSolver("z3-new")
				defer s2.close()
			}
			for {
				mu.Lock()
				for len(stack) == 0 && active > 0 && !stop {
					cond.Wait()
				}
				if stop || (len(stack) == 0 && active == 0) {
					cond.Broadcast()
					mu.Unlock()
					break
				}
				j := stack[len(stack)-1]
				stack = stack[:len(stack)-1]
				active++
				wantSample := len(res.Samples) < 3
				mu.Unlock()

				if s.dead {
					s.close()
					s, _ = newSolver("z3")
				}
				m, abort := runPath(ld, cfg, fn, s, s2, j.prefix, wantSample)

				mu.Lock()
				active--
				res.Paths++
				res.EndReasons[m.endReason]++
				res.States += m.nStates + 1
				res.Instrs += m.nInstr
				res.FeasQ += m.nFeasQ
				res.AssertQ += m.nAssertQ
				res.NIA += m.nia
				res.Unknowns += m.unknowns
				res.Events += m.nEvents
				if len(m.trace) > res.MaxDepth {
					res.MaxDepth = len(m.trace)
				}
				if m.truncated {
					res.Truncated++
				}
				if abort != "" {
					res.Aborts[abort]++
				}
				for id, a := range m.asserts {
					r := res.Asserts[id]
					if r == nil {
						r = &AssertStat{ID: id}
						res.Asserts[id] = r
					}
					r.Checked += a.Checked
					r.Unsat += a.Unsat
					r.Sat += a.Sat
					r.Unknown += a.Unknown
					r.Concrete += a.Concrete
				}
				for id, n := range m.reached {
					res.Reached[id] += n
				}
				for f, n := range m.funcs {
					res.Funcs[f] = n
				}
				for k, n := range m.intercepts {
					res.Intercepts[k] += n
				}
				res.Disagree = append(res.Disagree, m.disagreements...)
				for _, v := range m.violations {
					key := v.AssertID + "|" + strings.Join(v.Classes, ",") + fmt.Sprint(v.Known)
					res.violSeen[key]++
					if res.violSeen[key] <= 3 {
						if v.Model == nil {
							v.Model = map[string]string{}
						}
						for k, c := range m.chosen {
							v.Model["@choose:"+k] = fmt.Sprint(c)
						}
						res.Violations = append(res.Violations, v)
					}
				}
				if m.sample != nil && len(res.Samples) < 3 {
					for k, c := range m.chosen {
						m.sample["@choose:"+k] = fmt.Sprint(c)
					}
					res.Samples = append(res.Samples, m.sample)
				}
				// enqueue unexplored alternatives (deepest last so DFS continues deep first)
				for _, idx := range m.newChoices {
					d := m.trace[idx]
					for alt := d.N - 1; alt >= 1; alt-- {
						np := make([]Decision, idx+1)
						copy(np, m.trace[:idx])
						nd := d
						nd.Alt = alt
						np[idx] = nd
						stack = append(stack, job{np})
					}
				}
				if res.Paths >= maxPaths && len(stack) > 0 {
					res.Truncated += len(stack)
					stack = nil
					stop = true
				}
				res.SolverTime += s.tQuery
				s.tQuery = 0
				if s2 != nil {
					res.Solver2Time += s2.tQuery
					s2.tQuery = 0
				}
				cond.Broadcast()
				mu.Unlock()
			}
		}(w)
	}
	wg.Wait()
	res.Wall = time.Since(t0)
	if firstErr != nil {
		return nil, firstErr
	}
	return res, nil
}

func (r *HarnessResult) summary() string {
	var sb strings.Builder
	fmt.Fprintf(&sb, "harness %s: paths=%d states=%d instrs=%d feasQ=%d assertQ=%d unknown=%d truncated=%d wall=%.1fs solver=%.1fs\n",
		r.Cfg.Name, r.Paths, r.States, r.Instrs, r.FeasQ, r.AssertQ, r.Unknowns, r.Truncated, r.Wall.Seconds(), r.SolverTime.Seconds())
	var ends []string
	for k, n := range r.EndReasons {
		ends = append(ends, fmt.Sprintf("%s=%d", k, n))
	}
	sort.Strings(ends)
	fmt.Fprintf(&sb, "  ends: %s\n", strings.Join(ends, " "))
	var ids []string
	for id := range r.Asserts {
		ids = append(ids, id)
	}
	sort.Strings(ids)
	for _, id := range ids {
		a := r.Asserts[id]
		fmt.Fprintf(&sb, "  assert %-45s checked=%d unsat=%d concrete=%d sat=%d unknown=%d\n", id, a.Checked, a.Unsat, a.Concrete, a.Sat, a.Unknown)
	}
	for id, n := range r.Reached {
		fmt.Fprintf(&sb, "  reach %s: %d\n", id, n)
	}
	for msg, n := range r.Aborts {
		fmt.Fprintf(&sb, "  ABORT x%d: %s\n", n, firstLine(msg))
	}
	return sb.String()
}

func firstLine(s string) string {
	if len(s) > 2000 {
		s = s[:2000]
	}
	return s
}

func dbg(f string, a ...interface{}) {
	if os.Getenv("GOSYM_DEBUG") != "" {
		fmt.Fprintf(os.Stderr, f+"\n", a...)
	}
}

func (m *Machine) where() string {
	if m.cur == nil || len(m.cur.frames) == 0 {
		return ""
	}
	s := " @"
	for i := len(m.cur.frames) - 1; i >= 0 && i >= len(m.cur.frames)-4; i-- {
		fr := m.cur.frames[i]
		if fr.pc < len(fr.block.Instrs) {
			in := fr.block.Instrs[fr.pc]
			s += fmt.Sprintf(" %s[%s: %s]", fr.fn.String(), m.ld.fset.Position(in.Pos()), in.String())
		} else {
			s += " " + fr.fn.String()
		}
	}
	return s
}
