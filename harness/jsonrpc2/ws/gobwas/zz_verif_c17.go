//go:build !verifreplay

package gobwas

import (
	"encoding/json"
	"fmt"
	"io"
	"net"
	"time"

	"github.com/vipnode/vipnode/v2/internal/verifapi"
	"github.com/vipnode/vipnode/v2/jsonrpc2"
)

type verifAddr string

func (a verifAddr) Network() string { return "tcp" }
func (a verifAddr) String() string  { return string(a) }

// verifConn is one end of an in-process connection made of two pipes.
type verifConn struct {
	io.Reader
	io.Writer
	in, out io.Closer
	addr    string
}

func (c *verifConn) Close() error                       { c.in.Close(); return c.out.Close() }
func (c *verifConn) LocalAddr() net.Addr                { return verifAddr("local") }
func (c *verifConn) RemoteAddr() net.Addr               { return verifAddr(c.addr) }
func (c *verifConn) SetDeadline(t time.Time) error      { return nil }
func (c *verifConn) SetReadDeadline(t time.Time) error  { return nil }
func (c *verifConn) SetWriteDeadline(t time.Time) error { return nil }

func verifPair() (jsonrpc2.Codec, jsonrpc2.Codec) {
	ab, ba := verifapi.NewPipe(), verifapi.NewPipe()
	client := clientWebSocketCodec(&verifConn{Reader: ba, Writer: ab, in: ba, out: ab, addr: "server:1"})
	server := serverWebSocketCodec(&verifConn{Reader: ab, Writer: ba, in: ab, out: ba, addr: "client:1"})
	return client, server
}

func verifMsg(i int) *jsonrpc2.Message {
	id, _ := json.Marshal(100 + i)
	params, _ := json.Marshal([]int64{verifapi.Int64(fmt.Sprint("token", i))})
	return &jsonrpc2.Message{ID: id, Version: jsonrpc2.Version, Request: &jsonrpc2.Request{Method: fmt.Sprint("m", i), Params: params}}
}

func verifSame(a, b *jsonrpc2.Message) bool {
	return a != nil && b != nil && string(a.ID) == string(b.ID) && a.Request != nil && b.Request != nil &&
		a.Request.Method == b.Request.Method && verifapi.Same(verifapi.Snapshot(a.Request.Params), verifapi.Snapshot(b.Request.Params))
}

// VerifC17Gobwas: the gobwas websocket codec pair (client side and server
// side, as WebSocketDial and Upgrader build them) over an in-process frame
// transport: messages written on one end - all at once, or each read before
// the next is written, in either direction - are read on the other end exactly
// once, unmodified and in order; after the writer closes, the reader gets an
// error and nothing more.
func VerifC17Gobwas() {
	client, server := verifPair()
	n := verifapi.Param("msgs", 3)
	from, to := client, server
	if verifapi.Bool("server-writes") {
		from, to = server, client
	}
	lockstep := verifapi.Bool("read-after-each-write")
	var sent []*jsonrpc2.Message
	read := 0
	check := func() {
		m, err := to.ReadMessage()
		verifapi.Assert(err == nil && m != nil, "c17.gobwas-every-written-message-is-read")
		if err != nil || m == nil {
			return
		}
		verifapi.Assert(verifSame(m, sent[read]), "c17.gobwas-messages-read-in-order-and-intact")
		read++
	}
	for i := 0; i < n; i++ {
		msg := verifMsg(i)
		sent = append(sent, msg)
		verifapi.Assert(from.WriteMessage(msg) == nil, "c17.gobwas-write-ok")
		if lockstep {
			check()
		}
	}
	for read < n {
		before := read
		check()
		if read == before {
			return
		}
	}
	verifapi.Reach("c17.gobwas")
	from.Close()
	_, err := to.ReadMessage()
	verifapi.Assert(err != nil, "c17.gobwas-nothing-read-twice")
}
