package pool

import (
	"context"
	"fmt"
	"math/big"

	"github.com/vipnode/vipnode/v2/internal/verifapi"
	"github.com/vipnode/vipnode/v2/internal/verifmodels/sigs"
	"github.com/vipnode/vipnode/v2/jsonrpc2"
	"github.com/vipnode/vipnode/v2/pool/balance"
	"github.com/vipnode/vipnode/v2/pool/store"
	"github.com/vipnode/vipnode/v2/pool/store/memory"
)

// VerifC03Pool: connect and keep-alive through the real pool with a minimum
// balance: clients are refused / cut off exactly below the minimum, every
// connected host peering with a cut-off client gets exactly one
// vipnode_disconnect, hosts are never refused for their balance.
func VerifC03Pool() {
	nhosts := verifapi.Param("hosts", 2)
	db := memory.New()
	wallet := store.Account(verifapi.Wallet(0))
	dep := &VerifDeposits{Store: db, Deposit: map[store.Account]*big.Int{wallet: verifapi.BigInt("deposit")}}
	min := verifapi.BigInt("min")
	price := big.NewInt(100000000000)
	p := VerifNewPool(db, dep, price, 60000000000, min)
	t0 := verifapi.Time("t0")
	verifapi.SetNow(t0)

	// hosts: registered directly (store + connection registry); connecting a
	// host through the endpoint is VerifC03HostConnect
	hosts := make([]*VerifHost, nhosts)
	for i := range hosts {
		hosts[i] = &VerifHost{Name: fmt.Sprint("h", i), Addr: "192.0.2.1:1234", Behaviours: verifapi.Param("behaviours", 2)}
		hid := store.NodeID(verifapi.NodeID(1 + i))
		db.SetNode(store.Node{ID: hid, IsHost: true, Kind: "geth", LastSeen: t0, URI: "enode://" + string(hid) + "@192.0.2.1:30303"})
		p.remoteHosts[hid] = hosts[i]
		p.remoteNodeLookup[hosts[i]] = hid
		if verifapi.Bool(fmt.Sprint("hostlinked", i)) {
			db.AddAccountNode(wallet, hid)
		}
	}

	// the client: linked to the wallet (so that it has a deposit) or on trial
	cid := verifapi.NodeID(0)
	clientSvc := &VerifHost{Name: "client"}
	credit := verifapi.BigInt("credit")
	linked := verifapi.Bool("clientlinked")
	db.SetNode(store.Node{ID: store.NodeID(cid), LastSeen: t0})
	if linked {
		db.AddAccountNode(wallet, store.NodeID(cid))
	}
	db.AddNodeBalance(store.NodeID(cid), credit)
	spendable := new(big.Int).Set(credit)
	if linked {
		spendable.Add(spendable, dep.Deposit[wallet])
	}
	// the client registers with vipnode_connect or through the deprecated vipnode_client endpoint
	// (which registers it the same way and then looks for hosts)
	legacy := verifapi.Bool("legacy-endpoint")
	var err error
	if legacy {
		creq := ClientRequest{Kind: "geth", NumHosts: 1}
		nonce := VerifFreshNonce()
		ctx := jsonrpc2.VerifCtxWithService(context.Background(), clientSvc)
		_, err = p.Client(ctx, sigs.SignFor(cid, "vipnode_client", nonce, creq), cid, nonce, creq)
		if _, low := err.(balance.LowBalanceError); err != nil && !low {
			// admitted, but no host acknowledged: not a refusal for the balance
			verifapi.Assert(spendable.Cmp(min) >= 0, "c03.pool.connect-below-min-refused")
			return
		}
	} else {
		_, err = VerifConnect(p, clientSvc, cid, false, "")
	}
	verifapi.Reach("c03.pool.connect")
	if lbe, ok := err.(balance.LowBalanceError); ok {
		verifapi.Assert(spendable.Cmp(min) < 0, "c03.pool.connect-at-or-above-min-accepted")
		verifapi.Assert(lbe.CurrentBalance.Cmp(spendable) == 0, "c03.pool.connect-error-balance")
		return
	}
	verifapi.Assert(err == nil, "c03.pool.connect-no-other-error")
	verifapi.Assert(spendable.Cmp(min) >= 0, "c03.pool.connect-below-min-refused")

	// first keep-alive reports the hosts (no time passed: nothing billed)
	hostIDs := []string{}
	for i := range hosts {
		hostIDs = append(hostIDs, verifapi.NodeID(1+i))
	}
	if _, err := VerifUpdate(p, context.Background(), cid, hostIDs...); err != nil {
		verifapi.Unreachable("c03.pool.first-update")
		return
	}
	// some hosts lose their connection
	connected := make([]bool, nhosts)
	for i := range hosts {
		connected[i] = verifapi.Bool(fmt.Sprint("stillconnected", i))
		if !connected[i] {
			p.CloseRemote(hosts[i])
		}
	}
	// time passes (less than the expiry window so the peers stay active)
	dt := verifapi.Dur("dt")
	verifapi.Assume(dt >= 0 && dt < 120000000000)
	verifapi.SetNow(t0.Add(dt))
	before, _ := dep.GetNodeBalance(store.NodeID(cid))
	_ = before
	_, err = VerifUpdate(p, context.Background(), cid, hostIDs...)
	verifapi.Reach("c03.pool.update")
	after, _ := dep.GetNodeBalance(store.NodeID(cid))
	spendAfter := new(big.Int).Add(&after.Credit, &after.Deposit)
	// hosts sharing the client's wallet give the charge straight back to it
	verifapi.Class("min-compared-with-charge", true)
	if lbe, ok := err.(balance.LowBalanceError); ok {
		verifapi.Assert(spendAfter.Cmp(min) < 0, "c03.pool.update-at-or-above-min-never-cut-off")
		verifapi.Assert(lbe.CurrentBalance.Cmp(spendAfter) == 0, "c03.pool.update-error-balance")
		for i, h := range hosts {
			n := h.Count("vipnode_disconnect", cid)
			if connected[i] {
				verifapi.Assert(n == 1, "c03.pool.connected-host-told-to-disconnect-once")
			} else {
				verifapi.Assert(n == 0, "c03.pool.closed-host-not-called")
			}
		}
	} else {
		verifapi.Assert(err == nil, "c03.pool.update-no-other-error")
		verifapi.Assert(spendAfter.Cmp(min) >= 0, "c03.pool.update-below-min-cut-off")
		for _, h := range hosts {
			verifapi.Assert(h.Count("vipnode_disconnect", cid) == 0, "c03.pool.no-disconnect-without-cutoff")
		}
	}
}

// VerifC03HostConnect: a full-node host is never refused for its balance,
// whatever the minimum and whatever its balance.
func VerifC03HostConnect() {
	db := memory.New()
	wallet := store.Account(verifapi.Wallet(0))
	dep := &VerifDeposits{Store: db, Deposit: map[store.Account]*big.Int{wallet: verifapi.BigInt("deposit")}}
	min := verifapi.BigInt("min")
	p := VerifNewPool(db, dep, big.NewInt(100000000000), 60000000000, min)
	verifapi.SetNow(verifapi.Time("t0"))
	hid := verifapi.NodeID(1)
	// arbitrary earlier state of the host: unknown, or registered with a linked / trial balance
	if verifapi.Bool("known") {
		db.SetNode(store.Node{ID: store.NodeID(hid), IsHost: true})
		if verifapi.Bool("linked") {
			db.AddAccountNode(wallet, store.NodeID(hid))
		}
		db.AddNodeBalance(store.NodeID(hid), verifapi.BigInt("credit"))
	}
	svc := &VerifHost{Name: "h", Addr: "192.0.2.1:1234"}
	_, err := VerifConnect(p, svc, hid, true, "")
	verifapi.Reach("c03.hostconnect")
	_, isLow := err.(balance.LowBalanceError)
	verifapi.Class("onclient-applied-to-hosts", true)
	verifapi.Assert(!isLow, "c03.host-connect-never-refused-for-balance")
	if err == nil {
		verifapi.Assert(p.NumRemotes() == 1, "c03.host-registered")
	}
}

// VerifC03Concurrent: two clients of one wallet send their billed keep-alives
// at the same time, with a minimum configured. Each cut-off decision is taken
// on the wallet's stored balance after that keep-alive's own charge - which
// may or may not include the other one's - so over all interleavings: the
// charges are both applied (no lost update), if both are admitted the wallet
// ends at or above the minimum, if both are cut off it ends below it, and in
// between exactly the serial outcomes are possible.
func VerifC03Concurrent() {
	db := newVerifStore()
	min := verifapi.BigInt("min")
	price := big.NewInt(100000000000)
	p := VerifNewPool(db, db, price, 60000000000, min)
	t0 := verifapi.Time("t0")
	verifapi.SetNow(t0)
	wal := store.Account(verifapi.Wallet(0))
	host := store.NodeID(verifapi.NodeID(1))
	db.SetNode(store.Node{ID: host, IsHost: true, Kind: "geth", LastSeen: t0, URI: "enode://h@192.0.2.1:30303"})
	clients := []string{verifapi.NodeID(0), verifapi.NodeID(2)}
	for _, c := range clients {
		db.SetNode(store.Node{ID: store.NodeID(c), Kind: "geth", LastSeen: t0})
		db.AddAccountNode(wal, store.NodeID(c))
		db.UpdateNodePeers(store.NodeID(c), []string{string(host)}, 0)
	}
	credit := verifapi.BigInt("credit")
	db.AddAccountBalance(wal, credit)
	dt := verifapi.Dur("dt")
	verifapi.Assume(dt > 60000000000 && dt < 100000000000)
	verifapi.SetNow(t0.Add(dt))
	db.UpdateNodePeers(host, nil, 0)
	charge := new(big.Int).Div(new(big.Int).Mul(big.NewInt(int64(dt)), price), big.NewInt(60000000000))
	done := make(chan error, 2)
	for _, c := range clients {
		go func(c string) {
			_, err := VerifUpdate(p, context.Background(), c, string(host))
			done <- err
		}(c)
	}
	admitted, cutoff := 0, 0
	for range clients {
		err := <-done
		if err == nil {
			admitted++
		} else if VerifIsLowBalance(err) {
			cutoff++
		} else {
			verifapi.Unreachable("c03.concurrent.update-no-other-error")
		}
	}
	verifapi.Reach("c03.concurrent")
	final, _ := db.GetAccountBalance(wal)
	want := new(big.Int).Sub(credit, new(big.Int).Mul(charge, big.NewInt(2)))
	verifapi.Assert(final.Credit.Cmp(want) == 0, "c03.concurrent.both-charges-applied")
	afterOne := new(big.Int).Sub(credit, charge)
	if admitted == 2 {
		verifapi.Assert(want.Cmp(min) >= 0, "c03.concurrent.both-admitted-only-at-or-above-min")
	}
	if cutoff == 2 {
		verifapi.Assert(want.Cmp(min) < 0, "c03.concurrent.both-cut-off-only-below-min")
	}
	if afterOne.Cmp(min) < 0 {
		verifapi.Assert(admitted == 0, "c03.concurrent.below-min-after-own-charge-is-cut-off")
	}
	if want.Cmp(min) >= 0 {
		verifapi.Assert(cutoff == 0, "c03.concurrent.at-or-above-min-never-cut-off")
	}
}

// VerifC03RoleRace: one node id connects twice at the same time, once as a
// full-node host and once as a light client (a node that switched modes while
// its old session is still sending), with a minimum configured: the host
// request is never refused for its balance, and the client request is judged
// on the balance alone - whatever the interleaving.
func VerifC03RoleRace() {
	db := newVerifStore()
	min := verifapi.BigInt("min")
	p := VerifNewPool(db, db, big.NewInt(100000000000), 60000000000, min)
	t0 := verifapi.Time("t0")
	verifapi.SetNow(t0)
	id := verifapi.NodeID(0)
	credit := verifapi.BigInt("credit")
	if verifapi.Bool("known-node") {
		db.SetNode(store.Node{ID: store.NodeID(id), LastSeen: t0, IsHost: verifapi.Bool("was-host")})
		db.AddNodeBalance(store.NodeID(id), credit)
	} else {
		credit = new(big.Int)
	}
	hostConn := &VerifHost{Name: "full", Addr: "192.0.2.1:1"}
	clientConn := &VerifHost{Name: "light", Addr: "192.0.2.2:1"}
	var hostErr, clientErr error
	done := make(chan int, 2)
	go func() { _, hostErr = VerifConnect(p, hostConn, id, true, ""); done <- 1 }()
	go func() { _, clientErr = VerifConnect(p, clientConn, id, false, ""); done <- 2 }()
	<-done
	<-done
	verifapi.Reach("c03.rolerace")
	verifapi.Assert(!VerifIsLowBalance(hostErr), "c03.host-never-refused-for-balance")
	// (the two requests carry nonces of one identity: whichever is verified second may be refused
	// for its nonce if it is the lower one - that is C05's subject, not a balance decision)
	verifapi.Assert(hostErr == nil || VerifIsVerifyFailed(hostErr), "c03.rolerace.host-connect-no-other-error")
	if VerifIsVerifyFailed(clientErr) {
		return
	}
	if VerifIsLowBalance(clientErr) {
		verifapi.Assert(credit.Cmp(min) < 0, "c03.client-at-or-above-min-accepted")
	} else {
		verifapi.Assert(clientErr == nil, "c03.rolerace.client-connect-no-other-error")
		verifapi.Assert(credit.Cmp(min) >= 0, "c03.client-below-min-refused")
	}
}
