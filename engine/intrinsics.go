package main

import (
	"fmt"
	"go/types"
	"math/big"
	"strings"
	"sync"

	"golang.org/x/tools/go/ssa"
)

const apiPkg = "github.com/vipnode/vipnode/v2/internal/verifapi"

var icTable = map[string]intercept{}
var icCache sync.Map // *ssa.Function -> intercept (or nil marker)

type icNone struct{}

func (m *Machine) realBig() bool { return m.cfg.Params["real_big"] == 1 }

func (m *Machine) lookupIntercept(fn *ssa.Function) intercept {
	if m.realBig() && fn.Pkg != nil && fn.Pkg.Pkg.Path() == "math/big" {
		return nil // real mode: the pure-Go math/big code is interpreted
	}
	if m.cfg.Params["crypto_model"] == 1 && fn.Pkg != nil && fn.Pkg.Pkg.Path() == repoMod+"/request" && fn.Name() == "Verify" && fn.Signature.Recv() == nil {
		return nil // the real request.Verify runs over the idealised crypto model instead of the signing oracle
	}
	if v, ok := icCache.Load(fn); ok {
		if ic, ok := v.(intercept); ok {
			return ic
		}
		return nil
	}
	name := fn.String()
	if fn.Origin() != nil {
		name = fn.Origin().String()
	}
	ic, ok := icTable[name]
	if !ok {
		// wrappers/thunks for intercepted methods (bound method closures, promoted methods)
		if fn.Synthetic != "" && fn.Object() != nil {
			if f, ok := fn.Object().(*types.Func); ok {
				if decl := m.prog.FuncValue(f); decl != nil && decl != fn {
					if strings.HasPrefix(fn.Synthetic, "bound method wrapper") {
						if inner, ok := icTable[decl.String()]; ok {
							// bound: receiver is FreeVars[0]; handled by interpreting the wrapper body
							_ = inner
						}
					}
				}
			}
		}
		// the command's leveled logger (github.com/alexcesaro/log/golog): logging has an empty body
		if fn.Pkg != nil && fn.Pkg.Pkg.Path() == "github.com/alexcesaro/log/golog" && fn.Signature.Recv() != nil {
			res := fn.Signature.Results()
			ic = func(m *Machine, g *Goroutine, c *callCtx) (Value, stepStatus) {
				if res.Len() == 1 {
					return m.zero(res.At(0).Type()), stNext
				}
				return nil, stNext
			}
			ok = true
		}
		// init of packages we do not execute
		if fn.Name() == "init" && fn.Pkg != nil && fn.Signature.Recv() == nil && !m.ld.isRepoPkg(fn.Pkg.Pkg.Path()) {
			ic = func(m *Machine, g *Goroutine, c *callCtx) (Value, stepStatus) { return nil, stNext }
			ok = true
		}
	}
	if !ok {
		icCache.Store(fn, icNone{})
		return nil
	}
	icCache.Store(fn, ic)
	return ic
}

func reg(name string, ic intercept) { icTable[name] = ic }

func regV(name string, f func(m *Machine, g *Goroutine, a []Value) Value) {
	icTable[name] = func(m *Machine, g *Goroutine, c *callCtx) (Value, stepStatus) {
		return f(m, g, c.args), stNext
	}
}

func cstr(v Value, what string) string {
	s, ok := v.(StrVal)
	if !ok || !s.concrete() {
		panic(abortf("%s: need a concrete string, got %s", what, describe(v)))
	}
	return s.s
}

func cint(v Value, what string) int64 {
	t, ok := v.(*Term)
	if ok {
		if c, ok := t.constInt(); ok {
			return c
		}
	}
	panic(abortf("%s: need a concrete int, got %s", what, describe(v)))
}

func (m *Machine) uniqueName(base string) string {
	n := m.nameCount[base]
	m.nameCount[base] = n + 1
	if n == 0 {
		return base
	}
	return fmt.Sprintf("%s#%d", base, n+1)
}

func (m *Machine) symInt(name string, bits int, signed bool) *Term {
	lo, hi := intRange(bits, signed)
	t := mkVar(m.uniqueName(name), SInt, lo, hi)
	m.declare(t)
	return t
}

func (m *Machine) errorType() types.Type {
	if m.ld.errStringPtr != nil {
		return m.ld.errStringPtr
	}
	panic(abortf("errors.errorString type not found"))
}

// newErrorValue builds a distinct error value (an *errors.errorString).
func (m *Machine) newErrorValue(msg string) Value {
	if v, ok := m.errCache[msg]; ok {
		return v
	}
	pt := m.errorType().(*types.Pointer)
	o := m.newObj(StructVal{[]Value{StrVal{s: msg}}}, pt.Elem(), "err:"+msg)
	v := IfaceVal{typ: pt, v: PtrVal{obj: o}}
	m.errCache[msg] = v
	return v
}

func (m *Machine) freshError(msg string) Value {
	pt := m.errorType().(*types.Pointer)
	o := m.newObj(StructVal{[]Value{StrVal{s: msg}}}, pt.Elem(), "err:"+msg)
	return IfaceVal{typ: pt, v: PtrVal{obj: o}}
}

func bigOf(m *Machine, v Value, what string) *Term {
	p, ok := v.(PtrVal)
	if !ok {
		panic(abortf("%s: expected *big.Int, got %T", what, v))
	}
	if p.obj == nil {
		panic(goPanic{msg: "nil pointer dereference (*big.Int in " + what + ")"})
	}
	b, ok := m.load(p).(BigVal)
	if !ok {
		panic(abortf("%s: pointer does not hold a big.Int: %s", what, describe(m.load(p))))
	}
	return b.t
}

func (m *Machine) newBig(t *Term) Value {
	o := m.newObj(BigVal{t}, m.ld.bigIntType, "big")
	return PtrVal{obj: o}
}

func bigBin(name string, f func(m *Machine, x, y *Term) *Term) {
	regV("(*math/big.Int)."+name, func(m *Machine, g *Goroutine, a []Value) Value {
		x := bigOf(m, a[1], name)
		y := bigOf(m, a[2], name)
		z := a[0].(PtrVal)
		if z.obj == nil {
			panic(goPanic{msg: "nil pointer dereference (big.Int receiver)"})
		}
		m.bigWrite(z)
		m.store(z, BigVal{f(m, x, y)})
		return z
	})
}

func timeOf(v Value) *Term {
	t, ok := v.(TimeVal)
	if !ok {
		panic(abortf("expected time.Time, got %T", v))
	}
	return t.t
}

func init() {
	// ---------- verifapi ----------
	regV(apiPkg+".Int64", func(m *Machine, g *Goroutine, a []Value) Value { return m.symInt(cstr(a[0], "Int64"), 64, true) })
	regV(apiPkg+".Int", func(m *Machine, g *Goroutine, a []Value) Value { return m.symInt(cstr(a[0], "Int"), 64, true) })
	regV(apiPkg+".Uint64", func(m *Machine, g *Goroutine, a []Value) Value { return m.symInt(cstr(a[0], "Uint64"), 64, false) })
	regV(apiPkg+".Byte", func(m *Machine, g *Goroutine, a []Value) Value { return m.symInt(cstr(a[0], "Byte"), 8, false) })
	regV(apiPkg+".Bool", func(m *Machine, g *Goroutine, a []Value) Value {
		t := mkVar(m.uniqueName(cstr(a[0], "Bool")), SBool, nil, nil)
		m.declare(t)
		return t
	})
	regV(apiPkg+".Choose", func(m *Machine, g *Goroutine, a []Value) Value {
		n := cint(a[1], "Choose n")
		name := m.uniqueName(cstr(a[0], "Choose"))
		k := m.choose(int(n), "choose:"+name)
		// recorded as a pseudo-variable so that replay files carry it
		m.chosen[name] = int64(k)
		return mkInt(int64(k))
	})
	regV(apiPkg+".BigInt", func(m *Machine, g *Goroutine, a []Value) Value {
		t := mkVar(m.uniqueName(cstr(a[0], "BigInt")), SInt, nil, nil)
		m.declare(t)
		return m.newBig(t)
	})
	regV(apiPkg+".Time", func(m *Machine, g *Goroutine, a []Value) Value {
		// a wall-clock instant between 2001 and 2200 (ns since epoch)
		lo, _ := new(big.Int).SetString("1000000000000000000", 10)
		hi, _ := new(big.Int).SetString("7258118400000000000", 10)
		t := mkVar(m.uniqueName(cstr(a[0], "Time")), SInt, lo, hi)
		m.declare(t)
		return TimeVal{t}
	})
	regV(apiPkg+".Dur", func(m *Machine, g *Goroutine, a []Value) Value { return m.symInt(cstr(a[0], "Dur"), 64, true) })
	regV(apiPkg+".Assume", func(m *Machine, g *Goroutine, a []Value) Value { m.assume(a[0].(*Term)); return nil })
	regV(apiPkg+".Assert", func(m *Machine, g *Goroutine, a []Value) Value {
		m.checkAssert(a[0].(*Term), cstr(a[1], "Assert id"), "assert", "")
		return nil
	})
	regV(apiPkg+".Reach", func(m *Machine, g *Goroutine, a []Value) Value {
		id := cstr(a[0], "Reach")
		m.reached[id]++
		return nil
	})
	regV(apiPkg+".Class", func(m *Machine, g *Goroutine, a []Value) Value {
		name := cstr(a[0], "Class")
		if _, ok := m.classes[name]; !ok {
			m.classOrder = append(m.classOrder, name)
		}
		m.classes[name] = a[1].(*Term)
		return nil
	})
	regV(apiPkg+".Observe", func(m *Machine, g *Goroutine, a []Value) Value {
		m.observed[cstr(a[0], "Observe")] = describe(a[1])
		return nil
	})
	regV(apiPkg+".SetNow", func(m *Machine, g *Goroutine, a []Value) Value { m.clock = timeOf(a[0]); return nil })
	regV(apiPkg+".Now", func(m *Machine, g *Goroutine, a []Value) Value { return TimeVal{m.clock} })
	regV(apiPkg+".MapOrderAll", func(m *Machine, g *Goroutine, a []Value) Value { m.mapOrdAll = a[0].(*Term).isTrue(); return nil })
	regV(apiPkg+".Unreachable", func(m *Machine, g *Goroutine, a []Value) Value {
		m.checkAssert(tFalse, cstr(a[0], "Unreachable"), "assert", "unreachable reached")
		return nil
	})
	regV(apiPkg+".LiveGoroutines", func(m *Machine, g *Goroutine, a []Value) Value {
		n := 0
		for _, o := range m.gs {
			if o != g && !o.done && len(o.frames) > 0 {
				n++
			}
		}
		return mkInt(int64(n))
	})
	reg(apiPkg+".Yield", func(m *Machine, g *Goroutine, c *callCtx) (Value, stepStatus) {
		if m.maybePreempt(g) {
			return nil, stBlocked
		}
		return nil, stNext
	})
	// Quiesce blocks the caller until no other goroutine can run.
	reg(apiPkg+".Quiesce", func(m *Machine, g *Goroutine, c *callCtx) (Value, stepStatus) {
		for _, o := range m.gs {
			if o != g && m.runnable(o) {
				m.cur = o
				return nil, stBlocked
			}
		}
		return nil, stNext
	})
	// FireTimers fires up to n pending environment events (ticks, deadlines) now.
	regV(apiPkg+".FireTimers", func(m *Machine, g *Goroutine, a []Value) Value {
		n := int(cint(a[0], "FireTimers"))
		fired := 0
		for i := 0; i < n; i++ {
			evs := m.pendingEvents()
			if len(evs) == 0 {
				break
			}
			k := 0
			if len(evs) > 1 {
				k = m.choose(len(evs), "event")
			}
			m.fire(evs[k])
			fired++
		}
		return mkInt(int64(fired))
	})
	// FireTicker delivers one tick of the i-th ticker created (regardless of the spontaneous-tick budget).
	regV(apiPkg+".FireTicker", func(m *Machine, g *Goroutine, a []Value) Value {
		i := int(cint(a[0], "FireTicker"))
		k := 0
		for _, t := range m.timers {
			if t.kind != "tick" {
				continue
			}
			if k == i {
				m.fire(t)
				return tTrue
			}
			k++
		}
		return tFalse
	})
	regV(apiPkg+".Tickers", func(m *Machine, g *Goroutine, a []Value) Value { return mkInt(int64(len(m.tickIntervals))) })
	regV(apiPkg+".TickInterval", func(m *Machine, g *Goroutine, a []Value) Value {
		i := int(cint(a[0], "TickInterval"))
		if i < 0 || i >= len(m.tickIntervals) {
			return mkInt(-1)
		}
		return m.tickIntervals[i]
	})
	regV(apiPkg+".Snapshot", func(m *Machine, g *Goroutine, a []Value) Value {
		return m.snapshot(a[0])
	})
	regV(apiPkg+".Same", func(m *Machine, g *Goroutine, a []Value) Value {
		return m.snapSame(a[0], a[1])
	})
	regV(apiPkg+".Param", func(m *Machine, g *Goroutine, a []Value) Value {
		if v, ok := m.cfg.Params[cstr(a[0], "Param")]; ok {
			return mkInt(int64(v))
		}
		return a[1]
	})
	regV(apiPkg+".StrAtom", func(m *Machine, g *Goroutine, a []Value) Value {
		name := m.uniqueName(cstr(a[0], "StrAtom"))
		t := mkVar(name, SAtom, nil, nil)
		m.declare(t)
		l := mkVar(name+"!len", SInt, big.NewInt(0), big.NewInt(1<<16))
		m.declare(l)
		return StrVal{atom: t, alen: l}
	})
	regV(apiPkg+".StrBytes", func(m *Machine, g *Goroutine, a []Value) Value {
		name := m.uniqueName(cstr(a[0], "StrBytes"))
		n := int(cint(a[1], "StrBytes n"))
		bs := make([]*Term, n)
		for i := range bs {
			bs[i] = mkVar(fmt.Sprintf("%s[%d]", name, i), SInt, big.NewInt(0), big.NewInt(255))
			m.declare(bs[i])
		}
		if n == 0 {
			return StrVal{}
		}
		return StrVal{sym: bs}
	})
	// GuardedBy(map, &mutex): from now on every access to the map must happen
	// while the mutex is held by the accessing goroutine (C10 monitor).
	regV(apiPkg+".GuardedBy", func(m *Machine, g *Goroutine, a []Value) Value {
		mv, ok := a[0].(IfaceVal).v.(MapVal)
		if !ok || mv.m == nil {
			panic(abortf("GuardedBy: first argument must be a non-nil map"))
		}
		p := a[1].(IfaceVal).v.(PtrVal)
		mu, ok := getPath(p.obj.v, p.path).(*MutexObj)
		if !ok {
			panic(abortf("GuardedBy: second argument must point to a sync.Mutex/RWMutex"))
		}
		if m.guards == nil {
			m.guards = map[*MapObj]*MutexObj{}
		}
		m.guards[mv.m] = mu
		return nil
	})
	regV(apiPkg+".Unguard", func(m *Machine, g *Goroutine, a []Value) Value { m.guards = nil; return nil })
	regV(apiPkg+".LocksHeld", func(m *Machine, g *Goroutine, a []Value) Value { return mkInt(int64(len(g.locks))) })
	regV(apiPkg+".IsSymbolic", func(m *Machine, g *Goroutine, a []Value) Value { return tTrue })

	// ---------- math/big ----------
	regV("math/big.NewInt", func(m *Machine, g *Goroutine, a []Value) Value { return m.newBig(a[0].(*Term)) })
	bigBin("Add", func(m *Machine, x, y *Term) *Term { return tAdd(x, y) })
	bigBin("Sub", func(m *Machine, x, y *Term) *Term { return tSub(x, y) })
	bigBin("Mul", func(m *Machine, x, y *Term) *Term {
		if !x.isConst() && !y.isConst() {
			m.nia++
		}
		return tMul(x, y)
	})
	divLike := func(name string, f func(x, y *Term) *Term) {
		bigBin(name, func(m *Machine, x, y *Term) *Term {
			if m.branch(tEq(y, mkInt(0))) {
				panic(goPanic{msg: "division by zero"})
			}
			if !y.isConst() {
				m.nia++
			}
			return f(x, y)
		})
	}
	divLike("Div", tEDiv)
	divLike("Mod", tEMod)
	divLike("Quo", tTDiv)
	divLike("Rem", tTRem)
	unary := func(name string, f func(x *Term) *Term) {
		regV("(*math/big.Int)."+name, func(m *Machine, g *Goroutine, a []Value) Value {
			x := bigOf(m, a[1], name)
			z := a[0].(PtrVal)
			if z.obj == nil {
				panic(goPanic{msg: "nil pointer dereference (big.Int receiver)"})
			}
			m.bigWrite(z)
			m.store(z, BigVal{f(x)})
			return z
		})
	}
	unary("Neg", tNeg)
	unary("Set", func(x *Term) *Term { return x })
	unary("Abs", func(x *Term) *Term { return tIte(tLt(x, mkInt(0)), tNeg(x), x) })
	regV("(*math/big.Int).SetInt64", func(m *Machine, g *Goroutine, a []Value) Value {
		z := a[0].(PtrVal)
		m.bigWrite(z)
		m.store(z, BigVal{a[1].(*Term)})
		return z
	})
	regV("(*math/big.Int).SetUint64", func(m *Machine, g *Goroutine, a []Value) Value {
		z := a[0].(PtrVal)
		m.bigWrite(z)
		m.store(z, BigVal{a[1].(*Term)})
		return z
	})
	regV("(*math/big.Int).Cmp", func(m *Machine, g *Goroutine, a []Value) Value {
		x, y := bigOf(m, a[0], "Cmp"), bigOf(m, a[1], "Cmp")
		return tIte(tLt(x, y), mkInt(-1), tIte(tEq(x, y), mkInt(0), mkInt(1)))
	})
	regV("(*math/big.Int).CmpAbs", func(m *Machine, g *Goroutine, a []Value) Value {
		abs := func(x *Term) *Term { return tIte(tLt(x, mkInt(0)), tNeg(x), x) }
		x, y := abs(bigOf(m, a[0], "CmpAbs")), abs(bigOf(m, a[1], "CmpAbs"))
		return tIte(tLt(x, y), mkInt(-1), tIte(tEq(x, y), mkInt(0), mkInt(1)))
	})
	regV("(*math/big.Int).Sign", func(m *Machine, g *Goroutine, a []Value) Value {
		x := bigOf(m, a[0], "Sign")
		return tIte(tLt(x, mkInt(0)), mkInt(-1), tIte(tEq(x, mkInt(0)), mkInt(0), mkInt(1)))
	})
	regV("(*math/big.Int).Int64", func(m *Machine, g *Goroutine, a []Value) Value {
		return tWrap(bigOf(m, a[0], "Int64"), 64, true)
	})
	regV("(*math/big.Int).Uint64", func(m *Machine, g *Goroutine, a []Value) Value {
		return tWrap(bigOf(m, a[0], "Uint64"), 64, false)
	})
	regV("(*math/big.Int).IsInt64", func(m *Machine, g *Goroutine, a []Value) Value {
		x := bigOf(m, a[0], "IsInt64")
		lo, hi := intRange(64, true)
		return tAnd(tLe(mkIntBig(lo), x), tLe(x, mkIntBig(hi)))
	})
	regV("(*math/big.Int).String", func(m *Machine, g *Goroutine, a []Value) Value {
		p := a[0].(PtrVal)
		if p.obj == nil {
			return StrVal{s: "<nil>"}
		}
		x := bigOf(m, a[0], "String")
		if x.isConst() {
			return StrVal{s: x.iv.String()}
		}
		return StrVal{s: "<big>"}
	})
	regV("(*math/big.Int).SetString", func(m *Machine, g *Goroutine, a []Value) Value {
		s := cstr(a[1], "SetString")
		base := cint(a[2], "SetString base")
		v, ok := new(big.Int).SetString(s, int(base))
		z := a[0].(PtrVal)
		if !ok {
			return TupleVal{PtrVal{}, tFalse}
		}
		m.store(z, BigVal{mkIntBig(v)})
		return TupleVal{z, tTrue}
	})

	// ---------- time ----------
	regV("time.Now", func(m *Machine, g *Goroutine, a []Value) Value { return TimeVal{m.clock} })
	regV("time.Since", func(m *Machine, g *Goroutine, a []Value) Value { return tSat64(tSub(m.clock, timeOf(a[0]))) })
	regV("time.Until", func(m *Machine, g *Goroutine, a []Value) Value { return tSat64(tSub(timeOf(a[0]), m.clock)) })
	regV("(time.Time).Sub", func(m *Machine, g *Goroutine, a []Value) Value { return tSat64(tSub(timeOf(a[0]), timeOf(a[1]))) })
	regV("(time.Time).Add", func(m *Machine, g *Goroutine, a []Value) Value { return TimeVal{tAdd(timeOf(a[0]), a[1].(*Term))} })
	regV("(time.Time).After", func(m *Machine, g *Goroutine, a []Value) Value { return tGt(timeOf(a[0]), timeOf(a[1])) })
	regV("(time.Time).Before", func(m *Machine, g *Goroutine, a []Value) Value { return tLt(timeOf(a[0]), timeOf(a[1])) })
	regV("(time.Time).Equal", func(m *Machine, g *Goroutine, a []Value) Value { return tEq(timeOf(a[0]), timeOf(a[1])) })
	regV("(time.Time).IsZero", func(m *Machine, g *Goroutine, a []Value) Value { return tEq(timeOf(a[0]), mkIntBig(zeroTimeNs)) })
	regV("(time.Time).UnixNano", func(m *Machine, g *Goroutine, a []Value) Value { return tWrap(timeOf(a[0]), 64, true) })
	regV("(time.Time).Unix", func(m *Machine, g *Goroutine, a []Value) Value {
		return tEDiv(timeOf(a[0]), mkInt(1000000000))
	})
	regV("(time.Time).UTC", func(m *Machine, g *Goroutine, a []Value) Value { return a[0] })
	regV("(time.Time).String", func(m *Machine, g *Goroutine, a []Value) Value { return StrVal{s: "<time>"} })
	regV("(time.Duration).String", func(m *Machine, g *Goroutine, a []Value) Value { return StrVal{s: "<duration>"} })
	regV("time.Unix", func(m *Machine, g *Goroutine, a []Value) Value {
		return TimeVal{tAdd(tMul(a[0].(*Term), mkInt(1000000000)), a[1].(*Term))}
	})
	regV("time.Tick", func(m *Machine, g *Goroutine, a []Value) Value {
		c := m.newChan(1)
		c.tag = "tick"
		m.timers = append(m.timers, &timerEv{c: c, kind: "tick", max: m.cfg.MaxTicks, dur: a[0].(*Term)})
		m.tickIntervals = append(m.tickIntervals, a[0].(*Term))
		return ChanVal{c: c}
	})
	regV("time.After", func(m *Machine, g *Goroutine, a []Value) Value {
		c := m.newChan(1)
		c.tag = "after"
		m.timers = append(m.timers, &timerEv{c: c, kind: "after", max: 1, dur: a[0].(*Term)})
		return ChanVal{c: c}
	})
	reg("time.Sleep", func(m *Machine, g *Goroutine, c *callCtx) (Value, stepStatus) {
		if m.maybePreempt(g) {
			return nil, stBlocked
		}
		return nil, stNext
	})

	// ---------- sync ----------
	mu := func(v Value) *MutexObj {
		p := v.(PtrVal)
		if p.obj == nil {
			panic(goPanic{msg: "nil pointer dereference (mutex)"})
		}
		mo, ok := getPath(p.obj.v, p.path).(*MutexObj)
		if !ok {
			panic(abortf("mutex op on %T", getPath(p.obj.v, p.path)))
		}
		if mo.name == "" {
			mo.name = p.obj.name
		}
		return mo
	}
	lock := func(read bool) intercept {
		return func(m *Machine, g *Goroutine, c *callCtx) (Value, stepStatus) {
			return nil, m.mutexLock(g, mu(c.args[0]), read)
		}
	}
	unlock := func(read bool) intercept {
		return func(m *Machine, g *Goroutine, c *callCtx) (Value, stepStatus) {
			m.mutexUnlock(g, mu(c.args[0]), read)
			return nil, stNext
		}
	}
	reg("(*sync.Mutex).Lock", lock(false))
	reg("(*sync.Mutex).Unlock", unlock(false))
	reg("(*sync.RWMutex).Lock", lock(false))
	reg("(*sync.RWMutex).Unlock", unlock(false))
	reg("(*sync.RWMutex).RLock", lock(true))
	reg("(*sync.RWMutex).RUnlock", unlock(true))
	reg("(*sync.Once).Do", func(m *Machine, g *Goroutine, c *callCtx) (Value, stepStatus) {
		p := c.args[0].(PtrVal)
		o := getPath(p.obj.v, p.path).(*OnceObj)
		if o.done {
			m.vcAcquire(g, o.vc)
			return nil, stNext
		}
		if !g.atSched {
			if m.maybePreempt(g) {
				return nil, stBlocked
			}
		}
		if o.running != nil && o.running != g {
			g.waitFn = func() bool { return o.done }
			return nil, stBlocked
		}
		g.waitFn = nil
		if o.done {
			m.vcAcquire(g, o.vc)
			return nil, stNext
		}
		o.running = g
		m.callClosure(g, c.args[1].(FuncVal), nil, func(Value) {
			o.done = true
			o.running = nil
			if m.race.on {
				o.vc = vcCopy(m.vcOf(g))
				m.vcTick(g)
			}
			c.deliver(nil)
		})
		return nil, stStay
	})
	reg("sync/atomic.AddInt32", func(m *Machine, g *Goroutine, c *callCtx) (Value, stepStatus) {
		if m.maybePreempt(g) {
			return nil, stBlocked
		}
		p := c.args[0].(PtrVal)
		m.atomicSync(g, p, true)
		m.race.off++
		v := tWrap(tAdd(m.load(p).(*Term), c.args[1].(*Term)), 32, true)
		m.store(p, v)
		m.race.off--
		return v, stNext
	})
	reg("sync/atomic.LoadInt32", func(m *Machine, g *Goroutine, c *callCtx) (Value, stepStatus) {
		if m.maybePreempt(g) {
			return nil, stBlocked
		}
		m.atomicSync(g, c.args[0].(PtrVal), false)
		m.race.off++
		defer func() { m.race.off-- }()
		return m.load(c.args[0].(PtrVal)), stNext
	})

	// math/rand.Shuffle: every permutation is explored (Fisher-Yates with a choice per step)
	reg("math/rand.Shuffle", func(m *Machine, g *Goroutine, c *callCtx) (Value, stepStatus) {
		n := int(cint(c.args[0], "Shuffle n"))
		swap := c.args[1].(FuncVal)
		var step func(i int)
		step = func(i int) {
			if i <= 0 {
				c.deliver(nil)
				return
			}
			j := m.choose(i+1, "shuffle")
			m.callClosure(g, swap, []Value{mkInt(int64(i)), mkInt(int64(j))}, func(Value) { step(i - 1) })
		}
		if n <= 1 {
			return nil, stNext
		}
		if n > 4 {
			panic(abortf("rand.Shuffle of %d elements exceeds the model's bound (4)", n))
		}
		step(n - 1)
		return nil, stStay
	})

	// ---------- context ----------
	regV("context.Background", func(m *Machine, g *Goroutine, a []Value) Value { return m.ctxIface(m.bgCtx()) })
	regV("context.TODO", func(m *Machine, g *Goroutine, a []Value) Value { return m.ctxIface(m.bgCtx()) })
	regV("context.WithValue", func(m *Machine, g *Goroutine, a []Value) Value {
		return m.ctxIface(m.newCtx(&CtxObj{parent: ctxOf(a[0]), key: a[1], val: a[2]}))
	})
	withCancel := func(deadline bool) func(m *Machine, g *Goroutine, a []Value) Value {
		return func(m *Machine, g *Goroutine, a []Value) Value {
			parent := ctxOf(a[0])
			c := m.newCtx(&CtxObj{parent: parent, done: m.newChan(0), hasDl: deadline})
			c.done.tag = "ctxdone"
			if pd := parent.doneChan(); pd != nil && pd.closed {
				c.err = parent.errVal()
				c.done.closed = true
			}
			if deadline {
				m.timers = append(m.timers, &timerEv{kind: "deadline", ctx: c})
			}
			cancel := FuncVal{native: &NativeFn{name: "cancel", fn: func(m *Machine, g *Goroutine, _ []Value) Value {
				m.cancelCtx(c, "context.Canceled")
				return nil
			}}}
			return TupleVal{m.ctxIface(c), cancel}
		}
	}
	regV("context.WithTimeout", withCancel(true))
	regV("context.WithDeadline", withCancel(true))
	regV("context.WithCancel", withCancel(false))

	// ---------- logging (empty bodies) ----------
	for _, n := range []string{"Printf", "Println", "Print", "Fatalf", "Fatal", "Panicf"} {
		regV("(*log.Logger)."+n, func(m *Machine, g *Goroutine, a []Value) Value { return nil })
		regV("log."+n, func(m *Machine, g *Goroutine, a []Value) Value { return nil })
	}
	regV("log.New", func(m *Machine, g *Goroutine, a []Value) Value {
		return PtrVal{obj: m.newObj(OpaqueVal{tag: "logger"}, nil, "logger")}
	})
	regV("github.com/vipnode/ether.Print", func(m *Machine, g *Goroutine, a []Value) Value { return StrVal{s: "<ether>"} })
	regV("log.Flags", func(m *Machine, g *Goroutine, a []Value) Value { return mkInt(0) })

	// ---------- fmt ----------
	regV("fmt.Sprintf", func(m *Machine, g *Goroutine, a []Value) Value { return m.sprintf(g, a[0], a[1]) })
	regV("fmt.Sprint", func(m *Machine, g *Goroutine, a []Value) Value { return m.sprint(g, a[0]) })
	regV("fmt.Errorf", func(m *Machine, g *Goroutine, a []Value) Value {
		s := m.sprintf(g, a[0], a[1]).(StrVal)
		return m.freshError(s.s)
	})
	regV("fmt.Fprintf", func(m *Machine, g *Goroutine, a []Value) Value {
		s := m.sprintf(g, a[1], a[2]).(StrVal)
		m.writeTo(a[0], s)
		return TupleVal{mkInt(int64(len(s.s))), IfaceVal{}}
	})
	regV("fmt.Println", func(m *Machine, g *Goroutine, a []Value) Value { return TupleVal{mkInt(0), IfaceVal{}} })
	regV("fmt.Printf", func(m *Machine, g *Goroutine, a []Value) Value { return TupleVal{mkInt(0), IfaceVal{}} })

	// ---------- strings.Builder / bytes.Buffer (concrete content) ----------
	regV("(*strings.Builder).WriteString", func(m *Machine, g *Goroutine, a []Value) Value {
		m.writeTo(IfaceVal{typ: types.NewPointer(nil), v: a[0]}, a[1].(StrVal))
		return TupleVal{m.strLen(a[1].(StrVal)), IfaceVal{}}
	})
	regV("(*strings.Builder).String", func(m *Machine, g *Goroutine, a []Value) Value { return m.builderString(a[0]) })
	regV("(*bytes.Buffer).WriteString", func(m *Machine, g *Goroutine, a []Value) Value {
		m.writeTo(IfaceVal{typ: types.NewPointer(nil), v: a[0]}, a[1].(StrVal))
		return TupleVal{m.strLen(a[1].(StrVal)), IfaceVal{}}
	})
	regV("(*bytes.Buffer).WriteRune", func(m *Machine, g *Goroutine, a []Value) Value {
		r := cint(a[1], "WriteRune")
		m.writeTo(IfaceVal{typ: types.NewPointer(nil), v: a[0]}, StrVal{s: string(rune(r))})
		return TupleVal{mkInt(1), IfaceVal{}}
	})
	regV("(*bytes.Buffer).String", func(m *Machine, g *Goroutine, a []Value) Value { return m.builderString(a[0]) })
	regV("(*bytes.Buffer).Reset", func(m *Machine, g *Goroutine, a []Value) Value {
		p := a[0].(PtrVal)
		if m.race.on && p.obj != nil {
			m.raceObj(p.obj, p.path, true)
		}
		delete(m.builders, p.obj)
		return nil
	})
}

func (m *Machine) writeTo(w Value, s StrVal) {
	iv, ok := w.(IfaceVal)
	if !ok {
		panic(abortf("writeTo %T", w))
	}
	p, ok := iv.v.(PtrVal)
	if !ok || p.obj == nil {
		panic(abortf("writeTo: writer %s", describe(w)))
	}
	if !s.concrete() {
		s = StrVal{s: "<sym>"}
	}
	if m.race.on {
		m.raceObj(p.obj, p.path, true)
	}
	m.builders[p.obj] += s.s
}

func (m *Machine) builderString(v Value) Value {
	p := v.(PtrVal)
	if m.race.on && p.obj != nil {
		m.raceObj(p.obj, p.path, false)
	}
	return StrVal{s: m.builders[p.obj]}
}

// ---- contexts ----

func (m *Machine) bgCtx() *CtxObj {
	if m.background == nil {
		m.background = m.newCtx(&CtxObj{})
	}
	return m.background
}

func (m *Machine) newCtx(c *CtxObj) *CtxObj {
	m.nextID++
	c.id = m.nextID
	m.ctxs = append(m.ctxs, c)
	return c
}

func (m *Machine) ctxIface(c *CtxObj) Value {
	return IfaceVal{typ: m.ld.ctxMarker, v: c}
}

func ctxOf(v Value) *CtxObj {
	iv, ok := v.(IfaceVal)
	if !ok || iv.typ == nil {
		panic(goPanic{msg: "cannot create context from nil parent"})
	}
	c, ok := iv.v.(*CtxObj)
	if !ok {
		panic(abortf("foreign context implementation %s", describe(v)))
	}
	return c
}

// ---- fmt ----

func (m *Machine) fmtArg(g *Goroutine, v Value) interface{} {
	switch x := v.(type) {
	case IfaceVal:
		if x.typ == nil {
			return nil
		}
		// error / Stringer with concrete message
		if p, ok := x.v.(PtrVal); ok && p.obj != nil {
			if sv, ok := p.obj.v.(StructVal); ok && len(sv.f) == 1 && types.Identical(x.typ, m.ld.errStringPtr) {
				if s, ok := sv.f[0].(StrVal); ok && s.concrete() {
					return fmtErr(s.s)
				}
			}
			if b, ok := getPath(p.obj.v, p.path).(BigVal); ok {
				if b.t.isConst() {
					return b.t.iv
				}
				return fmtSym("<big>")
			}
		}
		return m.fmtArg(g, x.v)
	case StrVal:
		if x.concrete() {
			return x.s
		}
		return fmtSym("<sym>")
	case *Term:
		if x.sort == SBool && x.isConst() {
			return x.bv
		}
		if x.sort == SInt && x.isConst() {
			if x.iv.IsInt64() {
				return x.iv.Int64()
			}
			return x.iv
		}
		return fmtSym("<sym>")
	case BigVal:
		if x.t.isConst() {
			return x.t.iv
		}
		return fmtSym("<big>")
	case nil:
		return nil
	}
	return fmtSym("<" + strings.SplitN(describe(v), " ", 2)[0] + ">")
}

type fmtSym string

func (f fmtSym) Format(s fmt.State, c rune) { s.Write([]byte(string(f))) }

type fmtErr string

func (f fmtErr) Error() string { return string(f) }

func sliceElems(v Value) []Value {
	s, ok := v.(SliceVal)
	if !ok || s.arr == nil {
		return nil
	}
	arr := s.arr.v.(ArrayVal)
	return arr.e[s.off : s.off+s.len]
}

func (m *Machine) sprintf(g *Goroutine, f Value, args Value) Value {
	format := cstr(f, "Sprintf format")
	var ga []interface{}
	for _, a := range sliceElems(args) {
		ga = append(ga, m.fmtArg(g, a))
	}
	return StrVal{s: fmt.Sprintf(format, ga...)}
}

func (m *Machine) sprint(g *Goroutine, args Value) Value {
	var ga []interface{}
	for _, a := range sliceElems(args) {
		ga = append(ga, m.fmtArg(g, a))
	}
	return StrVal{s: fmt.Sprint(ga...)}
}
