package payment

import (
	"context"

	"github.com/vipnode/vipnode/v2/ethnode"
	"github.com/vipnode/vipnode/v2/internal/verifapi"
	"github.com/vipnode/vipnode/v2/internal/verifmodels/faultstore"
	"github.com/vipnode/vipnode/v2/internal/verifmodels/sigs"
	"github.com/vipnode/vipnode/v2/jsonrpc2"
	"github.com/vipnode/vipnode/v2/pool"
)

// verifSubmit sends one correctly signed request to endpoint ep (7 = vipnode_update signed in the deprecated form).
func verifSubmit(w *verifWorld, ep int, nonce int64, svc *pool.VerifHost) error {
	ctx := jsonrpc2.VerifCtxWithService(context.Background(), svc)
	node, wal := string(w.nodes[0]), string(w.wallets[0])
	switch ep {
	case 0:
		req := pool.ConnectRequest{NodeInfo: ethnode.UserAgent{Kind: ethnode.Geth}, Payout: wal}
		_, err := w.p.Connect(ctx, sigs.SignFor(node, "vipnode_connect", nonce, req), node, nonce, req)
		return err
	case 1:
		req := pool.UpdateRequest{PeerInfo: pool.VerifPeerInfos(string(w.nodes[1])), BlockNumber: 7}
		_, err := w.p.Update(ctx, sigs.SignFor(node, "vipnode_update", nonce, req), node, nonce, req)
		return err
	case 2:
		req := pool.PeerRequest{Num: 1}
		_, err := w.p.Peer(ctx, sigs.SignFor(node, "vipnode_peer", nonce, req), node, nonce, req)
		return err
	case 3:
		req := pool.HostRequest{Kind: "geth", Payout: wal}
		_, err := w.p.Host(ctx, sigs.SignFor(node, "vipnode_host", nonce, req), node, nonce, req)
		return err
	case 4:
		req := pool.ClientRequest{Kind: "geth", NumHosts: 1}
		_, err := w.p.Client(ctx, sigs.SignFor(node, "vipnode_client", nonce, req), node, nonce, req)
		return err
	case 5:
		return w.pay.AddNode(ctx, sigs.SignFor(wal, "pool_addNode", nonce, node), wal, nonce, node)
	case 6:
		return w.pay.Withdraw(ctx, sigs.SignFor(wal, "pool_withdraw", nonce), wal, nonce)
	default:
		req := pool.UpdateRequest{Peers: []string{string(w.nodes[1])}, BlockNumber: 7}
		_, err := w.p.Update(ctx, pool.VerifSignOldUpdate(node, nonce, req.Peers, req.BlockNumber), node, nonce, req)
		return err
	}
}

// VerifC05Endpoints: through every signed endpoint (and the deprecated
// update form) a signed request is honoured at most once, a nonce that is not
// above the identity's accepted ones is refused, and so is one older than the
// freshness window - whichever endpoint consumed the earlier nonce.
func VerifC05Endpoints() {
	w := verifSmallWorld()
	w.pay.Settle = verifSettleStub(w, "settlefails")
	svc := &pool.VerifHost{Name: "conn", Addr: "192.0.2.9:1"}
	first := verifapi.Choose("first", 8)
	second := verifapi.Choose("second", 8)
	// wallet endpoints (5,6) and node endpoints use different identities
	sameIdentity := (first == 5 || first == 6) == (second == 5 || second == 6)
	n1 := pool.VerifFreshNonce()
	// noncefault=1: the store may fail while checking and recording the first request's nonce (a
	// storage fault, nothing recorded): the request may then be refused, but if it is honoured all the
	// same its nonce counts as used
	fs := faultstore.New(w.db)
	fault := verifapi.Param("noncefault", 0) == 1 && verifapi.Bool("nonce-store-fault")
	if verifapi.Param("noncefault", 0) == 1 {
		w.p.Store, w.pay.NonceStore = fs, fs
	}
	if fault {
		fs.Arm(0, "CheckAndSaveNonce")
	}
	err1 := verifSubmit(w, first, n1, svc)
	fs.Disarm()
	honoured1 := !pool.VerifIsVerifyFailed(err1)
	if !fault {
		verifapi.Assert(honoured1, "c05.ep.fresh-request-accepted")
	}
	n2 := verifapi.Int64("nonce2")
	now := verifapi.Now().UnixNano()
	verifapi.Assume(n2 <= now+1000000000)
	err2 := verifSubmit(w, second, n2, svc)
	verifapi.Reach("c05.ep.second")
	window := int64(900000000000)
	if sameIdentity && n2 <= n1 && honoured1 {
		verifapi.Assert(pool.VerifIsVerifyFailed(err2), "c05.ep.replayed-or-lower-nonce-refused")
	}
	if n2 < now-window {
		verifapi.Assert(pool.VerifIsVerifyFailed(err2), "c05.ep.stale-nonce-refused")
	}
	if n2 > n1 && n2 > now-window {
		verifapi.Assert(!pool.VerifIsVerifyFailed(err2), "c05.ep.higher-fresh-nonce-accepted")
	}
}

// VerifC05PoolRace: two copies of one signed request delivered at the same time are honoured at most once.
func VerifC05PoolRace() {
	w := verifSmallWorld()
	w.pay.Settle = verifSettleStub(w, "settlefails")
	svc := &pool.VerifHost{Name: "conn", Addr: "192.0.2.9:1"}
	// keep-alive and peer request (node-signed), account linking and withdrawal (wallet-signed)
	ep := []int{1, 2, 5, 6}[verifapi.Choose("endpoint", 4)]
	nonce := pool.VerifFreshNonce()
	done := make(chan error, 2)
	for i := 0; i < 2; i++ {
		go func() { done <- verifSubmit(w, ep, nonce, svc) }()
	}
	accepted := 0
	for i := 0; i < 2; i++ {
		if err := <-done; !pool.VerifIsVerifyFailed(err) {
			accepted++
		}
	}
	verifapi.Reach("c05.ep.race")
	if verifapi.KVConflicts() > 0 || verifapi.Param("driver", 0) == 0 {
		verifapi.Reach("c05.ep.race.conflict-path-explored")
	}
	verifapi.Assert(accepted <= 1, "c05.ep.racing-copies-honoured-at-most-once")
}
