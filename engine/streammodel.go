package main

// Byte-stream transports for the codecs (C17).
//
// verifapi.NewStream() is a loop-back io.ReadWriteCloser whose content is a
// sequence of written JSON messages. json.Encoder.Encode appends one message;
// json.Decoder.Decode pulls a chunk of ARBITRARY size from the stream (fork
// over every cut position: inside a message or at a message boundary, any
// number of messages ahead), keeps what it read beyond the first complete
// value in ITS OWN buffer (json.Decoder's documented read-ahead), and fails
// with a syntax error when it starts reading in the middle of a message.
//
// The gorilla websocket connection is a frame transport: WriteJSON /
// ReadJSON move one whole message; the model asserts that two WriteJSON (or
// two ReadJSON) calls never overlap, which is what the codec's mutexes are for.

import (
	"fmt"
	"go/types"
	"math/big"
	"reflect"
	"strings"
)

type StreamObj struct {
	id     int
	msgs   []Value // written values (deep copies)
	pos    int     // 2*i = at the start of message i, 2*i+1 = inside message i
	closed bool
	cuts   int
	// blocking: one direction of an in-process connection (verifapi.NewPipe): a read with nothing
	// pending waits for a write or Close; one message per read (read-ahead is the loop-back stream's subject)
	blocking  bool
	sizes     []*Term       // symbolic byte length of each message (1..4096), created on demand
	limiters  []*readerWrap // io.LimitReader wrappers decoders read this stream through
	frameOpen []bool        // gobwas: frame i is a non-final fragment of its message
	frameEnds []int         // gobwas frame transport: message index at which each sent frame ends
	mistyped  map[int]bool  // message i is a complete JSON value whose "jsonrpc" member has the wrong type (verifapi.WriteMistyped)
}

func (s *StreamObj) implements(it *types.Interface) bool { return true }
func (s *StreamObj) invoke(m *Machine, g *Goroutine, method string, args []Value) (Value, stepStatus) {
	switch method {
	case "Close":
		s.closed = true
		return IfaceVal{}, stNext
	case "Write":
		// a whole encoded value handed over in one Write (what json.Encoder does)
		if s.closed {
			return TupleVal{mkInt(0), m.newErrorValue("io: read/write on closed pipe")}, stNext
		}
		bl := blobOf(args[0])
		if bl == nil || bl.kind != "json" {
			panic(abortf("stream Write of something that is not one encoded JSON value: %s", describe(args[0])))
		}
		s.msgs = append(s.msgs, bl.v)
		return TupleVal{m.blobLen(bl), IfaceVal{}}, stNext
	}
	panic(abortf("stream method %s called directly (only json.Encoder/Decoder are modelled on it)", method))
}

type jsonEncoder struct{ w Value }
type jsonDecoder struct {
	limiters   []*readerWrap // LimitReaders between the decoder and the stream
	cut        bool          // a limiter ran out: what follows is (unexpected) EOF
	r          Value
	buf        []int // indices of complete messages read ahead
	ownPartial bool  // holds the beginning of the message the stream cursor is inside
	garbage    bool
}

func streamOf(v Value) *StreamObj {
	iv, ok := v.(IfaceVal)
	if !ok {
		return nil
	}
	s, _ := iv.v.(*StreamObj)
	return s
}

// wsFrameReader is the io.Reader conn.NextReader hands out for one data frame.
type wsFrameReader struct {
	conn *wsConn
	idx  int
	done bool
}

func (r *wsFrameReader) implements(it *types.Interface) bool { return true }
func (r *wsFrameReader) invoke(m *Machine, g *Goroutine, method string, args []Value) (Value, stepStatus) {
	panic(abortf("websocket frame reader: %s called directly (only json.Decoder is modelled on it)", method))
}

type wsConn struct {
	id       int
	binary   map[int]bool // frame i is a binary data frame (text otherwise)
	frames   []Value
	writers  int
	readers  int
	inWrite  map[*Goroutine]bool
	inRead   map[*Goroutine]bool
	overlapW bool
	overlapR bool
	readPos  int
}

func init() {
	regV(apiPkg+".NewStream", func(m *Machine, g *Goroutine, a []Value) Value {
		m.nextID++
		return IfaceVal{typ: m.ld.ctxMarker, v: &StreamObj{id: m.nextID}}
	})
	// StreamHistory(rwc): an arbitrary amount of earlier traffic has already flowed through every
	// reader that currently wraps this stream
	regV(apiPkg+".StreamHistory", func(m *Machine, g *Goroutine, a []Value) Value {
		s := streamOf(a[0])
		if s == nil {
			panic(abortf("StreamHistory on something that is not a verifapi stream"))
		}
		for _, w := range s.limiters {
			h := mkVar(m.uniqueName("history"), SInt, big.NewInt(0), nil)
			m.declare(h)
			if w.consumed == nil {
				w.consumed = mkInt(0)
			}
			w.consumed = tAdd(w.consumed, h)
		}
		return nil
	})
	// WriteMistyped(w, v): v's encoding with the "jsonrpc" member replaced by a number
	regV(apiPkg+".WriteMistyped", func(m *Machine, g *Goroutine, a []Value) Value {
		s := streamOf(a[0])
		if s == nil {
			panic(abortf("WriteMistyped on something that is not a verifapi stream"))
		}
		if s.mistyped == nil {
			s.mistyped = map[int]bool{}
		}
		s.mistyped[len(s.msgs)] = true
		s.msgs = append(s.msgs, m.deepCopy(a[1], map[*Obj]*Obj{}))
		return nil
	})
	regV("(*encoding/json.UnmarshalTypeError).Error", func(m *Machine, g *Goroutine, a []Value) Value {
		return StrVal{s: "json: cannot unmarshal number into Go struct field of type string"}
	})
	regV(apiPkg+".NewPipe", func(m *Machine, g *Goroutine, a []Value) Value {
		m.nextID++
		return IfaceVal{typ: m.ld.ctxMarker, v: &StreamObj{id: m.nextID, blocking: true}}
	})
	regV("encoding/json.NewEncoder", func(m *Machine, g *Goroutine, a []Value) Value {
		return m.nativePtr(&jsonEncoder{w: a[0]}, "jsonenc")
	})
	regV("(*encoding/json.Encoder).Encode", func(m *Machine, g *Goroutine, a []Value) Value {
		e := m.nativeOf(a[0], "json.Encode").(*jsonEncoder)
		s := streamOf(e.w)
		if s == nil {
			panic(abortf("json.Encoder on a writer that is not a verifapi stream: %s", describe(e.w)))
		}
		s.msgs = append(s.msgs, m.deepCopy(a[1], map[*Obj]*Obj{}))
		return IfaceVal{}
	})
	regV("encoding/json.NewDecoder", func(m *Machine, g *Goroutine, a []Value) Value {
		return m.nativePtr(&jsonDecoder{r: a[0]}, "jsondec")
	})
	reg("(*encoding/json.Decoder).Decode", func(m *Machine, g *Goroutine, c *callCtx) (Value, stepStatus) {
		a := c.args
		d := m.nativeOf(a[0], "json.Decode").(*jsonDecoder)
		if iv, ok := d.r.(IfaceVal); ok {
			if fr, ok := iv.v.(*wsFrameReader); ok {
				if fr.done {
					return m.newErrorValue("EOF"), stNext
				}
				fr.done = true
				return m.jsonStoreInto(fr.conn.frames[fr.idx], a[1]), stNext
			}
		}
		if s := streamOf(d.r); s != nil && s.blocking {
			if !g.atSched && m.maybePreempt(g) {
				return nil, stBlocked
			}
			if m.race.on {
				m.raceObj(a[0].(PtrVal).obj, nil, true)
			}
			if s.pos >= 2*len(s.msgs) {
				if s.closed {
					g.waitFn = nil
					return m.newErrorValue("EOF"), stNext
				}
				g.waitFn = func() bool { return s.pos < 2*len(s.msgs) || s.closed }
				return nil, stBlocked
			}
			g.waitFn = nil
			i := s.pos / 2
			s.pos += 2
			if len(d.limiters) > 0 && !m.consumeThrough(d, s, i) {
				return m.newErrorValue("unexpected EOF"), stNext
			}
			return m.streamDeliver(s, i, a[1]), stNext
		}
		return streamDecode(m, g, a), stNext
	})
}

func streamDecode(m *Machine, g *Goroutine, a []Value) Value {
	{
		d := m.nativeOf(a[0], "json.Decode").(*jsonDecoder)
		if m.race.on {
			m.raceObj(a[0].(PtrVal).obj, nil, true) // a json.Decoder is not safe for concurrent use
		}
		s := streamOf(d.r)
		if s == nil {
			panic(abortf("json.Decoder on a reader that is not a verifapi stream: %s", describe(d.r)))
		}
		for {
			if d.garbage {
				return m.freshError("invalid character: decoder started in the middle of a message")
			}
			if len(d.buf) > 0 {
				i := d.buf[0]
				d.buf = d.buf[1:]
				if len(d.limiters) > 0 && !m.consumeThrough(d, s, i) {
					return m.newErrorValue("unexpected EOF")
				}
				return m.streamDeliver(s, i, a[1])
			}
			if d.cut {
				return m.newErrorValue("EOF")
			}
			end := 2 * len(s.msgs)
			if s.pos >= end {
				return m.newErrorValue("EOF")
			}
			// the next Read returns data up to any later position
			n := end - s.pos
			k := 0
			if n > 1 {
				k = m.choose(n, "chunk")
				m.chosen[fmt.Sprintf("chunk#%d", s.cuts)] = int64(k)
			}
			s.cuts++
			q := s.pos + 1 + k
			for msg := s.pos / 2; 2*(msg+1) <= q; msg++ {
				// message msg ends inside this chunk
				if 2*msg >= s.pos || d.ownPartial {
					d.buf = append(d.buf, msg)
				} else {
					d.garbage = true
				}
				d.ownPartial = false
			}
			if q%2 == 1 {
				// stopped inside message q/2
				if 2*(q/2) >= s.pos || d.ownPartial {
					d.ownPartial = true
				} else {
					d.garbage = true
				}
			}
			s.pos = q
		}
	}
}

func init() {
	// ---- gorilla websocket connection as a frame transport ----
	regV(repoMod+"/jsonrpc2/ws/gorilla.verifConn", func(m *Machine, g *Goroutine, a []Value) Value {
		m.nextID++
		c := &wsConn{id: m.nextID, inWrite: map[*Goroutine]bool{}, inRead: map[*Goroutine]bool{}}
		m.wsConns = append(m.wsConns, c)
		return m.nativePtr(c, "wsconn")
	})
	reg("(*github.com/gorilla/websocket.Conn).WriteJSON", func(m *Machine, g *Goroutine, c *callCtx) (Value, stepStatus) {
		conn := m.nativeOf(c.args[0], "WriteJSON").(*wsConn)
		if !conn.inWrite[g] {
			conn.inWrite[g] = true
			conn.writers++
			if conn.writers > 1 {
				conn.overlapW = true
			}
			g.atSched = false
			if m.maybePreempt(g) {
				return nil, stBlocked
			}
		}
		delete(conn.inWrite, g)
		conn.writers--
		conn.frames = append(conn.frames, m.deepCopy(c.args[1], map[*Obj]*Obj{}))
		return IfaceVal{}, stNext
	})
	reg("(*github.com/gorilla/websocket.Conn).ReadJSON", func(m *Machine, g *Goroutine, c *callCtx) (Value, stepStatus) {
		conn := m.nativeOf(c.args[0], "ReadJSON").(*wsConn)
		if !conn.inRead[g] {
			conn.inRead[g] = true
			conn.readers++
			if conn.readers > 1 {
				conn.overlapR = true
			}
			g.atSched = false
			if m.maybePreempt(g) {
				return nil, stBlocked
			}
		}
		delete(conn.inRead, g)
		conn.readers--
		if conn.readPos >= len(conn.frames) {
			return m.newErrorValue("EOF"), stNext
		}
		v := conn.frames[conn.readPos]
		conn.readPos++
		return m.jsonStoreInto(v, c.args[1]), stNext
	})
	// a data frame sent by the other side (any WebSocket JSON-RPC peer): text or binary
	regV(repoMod+"/jsonrpc2/ws/gorilla.verifPeerWrites", func(m *Machine, g *Goroutine, a []Value) Value {
		conn := m.nativeOf(a[0], "verifPeerWrites").(*wsConn)
		if m.branch(a[2].(*Term)) {
			if conn.binary == nil {
				conn.binary = map[int]bool{}
			}
			conn.binary[len(conn.frames)] = true
		}
		conn.frames = append(conn.frames, m.deepCopy(a[1], map[*Obj]*Obj{}))
		return nil
	})
	reg("(*github.com/gorilla/websocket.Conn).NextReader", func(m *Machine, g *Goroutine, c *callCtx) (Value, stepStatus) {
		conn := m.nativeOf(c.args[0], "NextReader").(*wsConn)
		if conn.readPos >= len(conn.frames) {
			return TupleVal{mkInt(-1), IfaceVal{}, m.newErrorValue("EOF")}, stNext
		}
		i := conn.readPos
		conn.readPos++
		kind := int64(1) // websocket.TextMessage
		if conn.binary[i] {
			kind = 2 // websocket.BinaryMessage
		}
		return TupleVal{mkInt(kind), IfaceVal{typ: m.ld.ctxMarker, v: &wsFrameReader{conn: conn, idx: i}}, IfaceVal{}}, stNext
	})
	regV(repoMod+"/jsonrpc2/ws/gorilla.verifOverlap", func(m *Machine, g *Goroutine, a []Value) Value {
		conn := m.nativeOf(a[0], "verifOverlap").(*wsConn)
		return mkBool(conn.overlapW || conn.overlapR)
	})
	regV("github.com/gorilla/websocket.IsUnexpectedCloseError", func(m *Machine, g *Goroutine, a []Value) Value { return tFalse })
}

// streamDeliver decodes message i of the stream into dst.
func (m *Machine) streamDeliver(s *StreamObj, i int, dst Value) Value {
	if !s.mistyped[i] {
		return m.jsonStoreInto(s.msgs[i], dst)
	}
	// encoding/json records the type mismatch, goes on decoding the other members and returns the
	// recorded *json.UnmarshalTypeError at the end: the destination is filled except for that member
	if err := m.jsonStoreIntoSkipping(s.msgs[i], dst, "jsonrpc"); !isNilIface(err) {
		return err
	}
	jp := m.ld.ssaPkgs["encoding/json"]
	if jp == nil || jp.Type("UnmarshalTypeError") == nil {
		return m.freshError("json: cannot unmarshal number into Go struct field of type string")
	}
	t := jp.Type("UnmarshalTypeError").Type()
	o := m.newObj(m.zero(t), t, "json.UnmarshalTypeError")
	return IfaceVal{typ: types.NewPointer(t), v: PtrVal{obj: o}}
}

func isNilIface(v Value) bool {
	iv, ok := v.(IfaceVal)
	return ok && iv.typ == nil
}

// jsonStoreInto stores a transported value (what Encode was given) into the destination pointer.
func (m *Machine) jsonStoreInto(src Value, dst Value) Value {
	return m.jsonStoreIntoSkipping(src, dst, "")
}

func (m *Machine) jsonStoreIntoSkipping(src Value, dst Value, skip string) Value {
	iv, ok := dst.(IfaceVal)
	if !ok || iv.typ == nil {
		return m.freshError("json: Unmarshal(nil)")
	}
	p, ok := iv.v.(PtrVal)
	if !ok || p.obj == nil {
		return m.freshError("json: Unmarshal(non-pointer)")
	}
	pt := iv.typ.Underlying().(*types.Pointer)
	sv, ok := src.(IfaceVal)
	if !ok || sv.typ == nil {
		return IfaceVal{}
	}
	val := m.deepCopy(sv.v, map[*Obj]*Obj{})
	st := sv.typ
	if spt, ok := st.Underlying().(*types.Pointer); ok {
		sp := val.(PtrVal)
		if sp.obj == nil {
			return IfaceVal{}
		}
		val = m.load(sp)
		st = spt.Elem()
	}
	if !types.AssignableTo(st, pt.Elem()) {
		return m.freshError("json: cannot unmarshal into a value of a different type")
	}
	m.store(p, m.jsonMerge(pt.Elem(), m.load(p), val, skip))
	return IfaceVal{}
}

// jsonMerge reproduces what decoding does to a destination that already holds something: a member
// that is absent on the wire (an omitempty field holding its empty value, the fields of a nil embedded
// pointer) leaves the destination's field as it is, an existing pointee is decoded into rather than
// replaced, and a json.RawMessage reuses its backing array (rawMessageReuse). skip names a top-level
// member whose wire value has the wrong type (left untouched). With a zero destination - every decode
// in the shipped code - this is plain assignment.
func (m *Machine) jsonMerge(t types.Type, cur, nv Value, skip string) Value {
	st, ok := t.Underlying().(*types.Struct)
	if !ok {
		return m.rawMessageReuse(t, cur, nv)
	}
	if n, ok := t.(*types.Named); ok && n.Obj().Pkg() != nil && (n.Obj().Pkg().Path() == "time" || n.Obj().Pkg().Path() == "math/big") {
		return nv
	}
	cv, ok1 := cur.(StructVal)
	nw, ok2 := nv.(StructVal)
	if !ok1 || !ok2 || len(cv.f) != len(nw.f) || len(nw.f) != st.NumFields() {
		return nv
	}
	f := make([]Value, len(nw.f))
	copy(f, nw.f)
	for i := 0; i < st.NumFields(); i++ {
		fld := st.Field(i)
		name, omitempty := fld.Name(), false
		if tag, ok := reflect.StructTag(st.Tag(i)).Lookup("json"); ok {
			parts := strings.Split(tag, ",")
			if parts[0] != "" {
				name = parts[0]
			}
			for _, o := range parts[1:] {
				omitempty = omitempty || o == "omitempty"
			}
		}
		if skip != "" && name == skip {
			f[i] = cv.f[i]
			continue
		}
		ft := fld.Type()
		if pt, isPtr := ft.Underlying().(*types.Pointer); isPtr {
			np, okn := nw.f[i].(PtrVal)
			cp, okc := cv.f[i].(PtrVal)
			if !okn || !okc {
				continue
			}
			if np.obj == nil {
				if fld.Embedded() || omitempty {
					f[i] = cv.f[i] // absent on the wire
				}
				continue
			}
			if cp.obj != nil {
				if _, isStruct := pt.Elem().Underlying().(*types.Struct); isStruct {
					// decoded into the existing pointee
					m.store(cp, m.jsonMerge(pt.Elem(), m.load(cp), m.load(np), ""))
					f[i] = cv.f[i]
				}
			}
			continue
		}
		if omitempty && jsonEmptyValue(nw.f[i]) {
			f[i] = cv.f[i]
			continue
		}
		f[i] = m.jsonMerge(ft, cv.f[i], nw.f[i], "")
	}
	return StructVal{f}
}

// jsonEmptyValue: encoding/json's "empty" for omitempty, decided on concrete values only.
func jsonEmptyValue(v Value) bool {
	switch x := v.(type) {
	case SliceVal:
		return x.len == 0
	case StrVal:
		return x.concrete() && x.s == ""
	case MapVal:
		return x.m == nil || len(x.m.keys) == 0
	case IfaceVal:
		return x.typ == nil
	case *Term:
		if x.isConst() {
			if x.sort == SBool {
				return !x.bv
			}
			return x.iv.Sign() == 0
		}
	}
	return false
}

// rawMessageReuse reproduces one piece of encoding/json that matters for aliasing: decoding into a
// json.RawMessage does *m = append((*m)[0:0], data...), i.e. it writes into the destination's
// existing backing array when the capacity suffices - so a RawMessage copied out of a reused
// destination changes when the next value is decoded. Only concrete byte contents are handled
// (opaque blobs are replaced, as a fresh allocation would).
func (m *Machine) rawMessageReuse(t types.Type, cur, nv Value) Value {
	if n, ok := t.(*types.Named); ok && n.Obj().Pkg() != nil && n.Obj().Pkg().Path() == "encoding/json" && n.Obj().Name() == "RawMessage" {
		cs, ok1 := cur.(SliceVal)
		ns, ok2 := nv.(SliceVal)
		if !ok1 || !ok2 || cs.arr == nil || ns.arr == nil || ns.len > cs.cap {
			return nv
		}
		ca, okc := cs.arr.v.(ArrayVal)
		na, okn := ns.arr.v.(ArrayVal)
		if !okc || !okn || cs.off+ns.len > len(ca.e) {
			return nv
		}
		for i := 0; i < ns.len; i++ {
			m.store(PtrVal{obj: cs.arr, path: []int{cs.off + i}}, na.e[ns.off+i])
		}
		return SliceVal{arr: cs.arr, off: cs.off, len: ns.len, cap: cs.cap}
	}
	st, ok := t.Underlying().(*types.Struct)
	if !ok {
		return nv
	}
	cv, ok1 := cur.(StructVal)
	nw, ok2 := nv.(StructVal)
	if !ok1 || !ok2 || len(cv.f) != len(nw.f) {
		return nv
	}
	f := make([]Value, len(nw.f))
	copy(f, nw.f)
	for i := 0; i < st.NumFields(); i++ {
		f[i] = m.rawMessageReuse(st.Field(i).Type(), cv.f[i], nw.f[i])
	}
	return StructVal{f}
}

// msgSize: the byte length of message i on the wire, an arbitrary ordinary size.
func (m *Machine) msgSize(s *StreamObj, i int) *Term {
	for len(s.sizes) <= i {
		v := mkVar(m.uniqueName("msgsize"), SInt, big.NewInt(1), big.NewInt(4096))
		m.declare(v)
		s.sizes = append(s.sizes, v)
	}
	return s.sizes[i]
}

// consumeThrough accounts message i to every LimitReader of the decoder; false if one of them
// cannot deliver it completely.
func (m *Machine) consumeThrough(d *jsonDecoder, s *StreamObj, i int) bool {
	if d.cut {
		return false
	}
	for _, w := range d.limiters {
		if w.consumed == nil {
			w.consumed = mkInt(0)
		}
		w.consumed = tAdd(w.consumed, m.msgSize(s, i))
		if m.branch(tGt(w.consumed, w.limit)) {
			d.cut = true
			return false
		}
	}
	return true
}
