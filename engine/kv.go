package main

// Native model of badger v2 (DESIGN Appendix E): snapshot transactions with
// read sets, optimistic conflict detection at commit, TTL entries, ordered
// prefix iteration; plus the gob / bytes.Buffer / bytes.Reader glue of
// pool/store/badger/helpers.go as a typed-blob model with gob's merge
// semantics, and the few reflect calls loopItem makes.

import (
	"fmt"
	"go/types"
	"sort"
	"strings"
)

const badgerPkg = "github.com/dgraph-io/badger/v2"

type kvVersion struct {
	ts      int
	blob    *Blob
	deleted bool
	expires *Term // unix seconds; nil = never
}

type kvDB struct {
	id       int
	keys     map[string][]*kvVersion
	commitTs int
	commits  int
	crashes  bool
	txns     int
}

type kvTxn struct {
	db      *kvDB
	update  bool
	readTs  int
	reads   map[string]bool
	writes  map[string]*kvVersion
	done    bool
	nWrites int
}

type kvItem struct {
	key string
	ver *kvVersion
}

type kvIter struct {
	txn    *kvTxn
	keys   []string
	pos    int
	closed bool
}

type kvEntry struct {
	key     string
	blob    *Blob
	expires *Term
}

type gobEncoder struct{ dst PtrVal }
type gobDecoder struct{ src Value }
type bytesReader struct{ data Value }

func (k *kvDB) snap(m *Machine, sb *strings.Builder, sn *SnapVal, seen map[*Obj]int, depth int) {
	var ks []string
	for key := range k.keys {
		ks = append(ks, key)
	}
	sort.Strings(ks)
	sb.WriteString("kv{")
	for _, key := range ks {
		vs := k.keys[key]
		if len(vs) == 0 {
			continue
		}
		v := vs[len(vs)-1]
		if v.deleted {
			continue
		}
		sb.WriteString(key + "=")
		m.snapWalk(v.blob.v, sb, sn, seen, depth+1)
		if v.expires != nil {
			sb.WriteString("@")
			m.snapWalk(v.expires, sb, sn, seen, depth+1)
		}
		sb.WriteString(";")
	}
	sb.WriteString("}")
}

func (m *Machine) nativeOf(v Value, what string) interface{} {
	p, ok := v.(PtrVal)
	if !ok || p.obj == nil {
		panic(goPanic{msg: "nil pointer dereference (" + what + ")"})
	}
	return p.obj.v
}

func (m *Machine) nativePtr(x interface{}, name string) Value {
	return PtrVal{obj: m.newObj(x, nil, name)}
}

func keyOf(v Value) string {
	b, ok := concreteBytes(v)
	if !ok {
		panic(abortf("badger key must be concrete bytes, got %s", describe(v)))
	}
	return string(b)
}

func (m *Machine) badgerErr(name string) Value {
	sp := m.ld.ssaPkgs[badgerPkg]
	if sp == nil {
		panic(abortf("badger package not loaded"))
	}
	g := sp.Var(name)
	return m.load(PtrVal{obj: m.global(g)})
}

func (m *Machine) nowUnix() *Term { return tEDiv(m.clock, mkInt(1000000000)) }

// visible decides (forking on the clock when needed) whether a version is live.
func (m *Machine) kvLive(v *kvVersion) bool {
	if v == nil || v.deleted {
		return false
	}
	if v.expires == nil {
		return true
	}
	// badger: expired iff ExpiresAt <= now (unix seconds)
	return m.branch(tGt(v.expires, m.nowUnix()))
}

func (t *kvTxn) committedAt(key string) *kvVersion {
	vs := t.db.keys[key]
	for i := len(vs) - 1; i >= 0; i-- {
		if vs[i].ts <= t.readTs {
			return vs[i]
		}
	}
	return nil
}

func (m *Machine) kvGet(t *kvTxn, key string, track bool) *kvVersion {
	if w, ok := t.writes[key]; ok {
		if m.kvLive(w) {
			return w
		}
		return nil
	}
	if t.update && track {
		t.reads[key] = true
	}
	v := t.committedAt(key)
	if m.kvLive(v) {
		return v
	}
	return nil
}

func (m *Machine) kvCommit(t *kvTxn) Value {
	t.done = true
	if len(t.writes) == 0 {
		return IfaceVal{}
	}
	for key := range t.reads {
		vs := t.db.keys[key]
		if len(vs) > 0 && vs[len(vs)-1].ts > t.readTs {
			m.kvConflicts++
			return m.badgerErr("ErrConflict")
		}
	}
	// conflict storm (verifapi.KVStorm(N)): writers the path does not contain - other
	// requests being served - may have committed to a key this transaction read, up to N times per
	// path. Sound as an abstraction of "any number of concurrent writers": ErrConflict says exactly
	// that, and the transaction is not applied.
	if len(t.reads) > 0 && m.stormLeft() > 0 && m.choose(2, "storm") == 1 {
		m.stormUsed++
		m.kvConflicts++
		return m.badgerErr("ErrConflict")
	}
	t.db.commitTs++
	t.db.commits++
	for key, w := range t.writes {
		w.ts = t.db.commitTs
		t.db.keys[key] = append(t.db.keys[key], w)
	}
	return IfaceVal{}
}

func (m *Machine) kvRun(g *Goroutine, c *callCtx, update bool) (Value, stepStatus) {
	db := m.nativeOf(c.args[0], "badger.DB").(*kvDB)
	// yield point at begin: another transaction may commit before our snapshot
	if !g.atSched {
		if m.maybePreempt(g) {
			return nil, stBlocked
		}
	}
	t := &kvTxn{db: db, update: update, readTs: db.commitTs, reads: map[string]bool{}, writes: map[string]*kvVersion{}}
	db.txns++
	fn := c.args[1].(FuncVal)
	m.callClosure(g, fn, []Value{m.nativePtr(t, "txn")}, func(ret Value) {
		if iv, ok := ret.(IfaceVal); ok && iv.typ != nil {
			t.done = true
			c.deliver(ret)
			return
		}
		if !update {
			t.done = true
			c.deliver(IfaceVal{})
			return
		}
		// the commit is its own scheduling point (reached via a tiny native continuation)
		m.pendingCommits = append(m.pendingCommits, pendingCommit{g: g, t: t, deliver: c.deliver})
		g.commitPending = true
		g.atSched = false
	})
	return nil, stStay
}

type pendingCommit struct {
	g       *Goroutine
	t       *kvTxn
	deliver func(Value)
}

// runPendingCommit commits (crash choice first when enabled).
func (m *Machine) runPendingCommit(g *Goroutine) {
	for i, pc := range m.pendingCommits {
		if pc.g != g {
			continue
		}
		m.pendingCommits = append(m.pendingCommits[:i], m.pendingCommits[i+1:]...)
		g.commitPending = false
		if m.crashFn != nil && len(pc.t.writes) > 0 {
			switch m.choose(3, "crash") {
			case 1: // process killed before the commit
				m.doCrash(g)
				return
			case 2: // killed right after the commit, before the call returns
				r := m.kvCommit(pc.t)
				_ = r
				m.doCrash(g)
				return
			}
		}
		pc.deliver(m.kvCommit(pc.t))
		return
	}
}

// doCrash abandons everything in flight and runs the harness's crash handler on the committed state.
func (m *Machine) doCrash(g *Goroutine) {
	fn := *m.crashFn
	m.crashFn = nil
	m.crashed = true
	g.frames = nil
	g.wait, g.waitMu, g.waitFn = nil, nil, nil
	for _, o := range m.gs {
		if o != g {
			o.done = true
		}
	}
	m.pushFrame(g, fn.fn, nil, fn.bind, nil, func(Value) {
		panic(pathEnd{"crash-handled"})
	})
}

func init() {
	// ---- harness entry: a fresh database ----
	regV(apiPkg+".KVOpen", func(m *Machine, g *Goroutine, a []Value) Value {
		m.nextID++
		return m.nativePtr(&kvDB{id: m.nextID, keys: map[string][]*kvVersion{}}, "kvdb")
	})
	regV(repoMod+"/pool/store/badger.verifDB", func(m *Machine, g *Goroutine, a []Value) Value {
		m.nextID++
		return m.nativePtr(&kvDB{id: m.nextID, keys: map[string][]*kvVersion{}}, "kvdb")
	})
	regV(apiPkg+".KVConflicts", func(m *Machine, g *Goroutine, a []Value) Value { return mkInt(int64(m.kvConflicts)) })
	regV(apiPkg+".KVCommits", func(m *Machine, g *Goroutine, a []Value) Value {
		db := m.nativeOf(a[0], "KVCommits").(*kvDB)
		return mkInt(int64(db.commits))
	})
	regV(apiPkg+".OnCrash", func(m *Machine, g *Goroutine, a []Value) Value {
		fv := a[0].(FuncVal)
		m.crashFn = &fv
		return nil
	})
	regV(apiPkg+".NoCrash", func(m *Machine, g *Goroutine, a []Value) Value { m.crashFn = nil; return nil })

	reg("(*"+badgerPkg+".DB).Update", func(m *Machine, g *Goroutine, c *callCtx) (Value, stepStatus) { return m.kvRun(g, c, true) })
	reg("(*"+badgerPkg+".DB).View", func(m *Machine, g *Goroutine, c *callCtx) (Value, stepStatus) { return m.kvRun(g, c, false) })
	regV("(*"+badgerPkg+".DB).Close", func(m *Machine, g *Goroutine, a []Value) Value { return IfaceVal{} })

	regV("(*"+badgerPkg+".Txn).Get", func(m *Machine, g *Goroutine, a []Value) Value {
		t := m.nativeOf(a[0], "Txn.Get").(*kvTxn)
		key := keyOf(a[1])
		if v := m.kvGet(t, key, true); v != nil {
			return TupleVal{m.nativePtr(&kvItem{key: key, ver: v}, "item"), IfaceVal{}}
		}
		return TupleVal{PtrVal{}, m.badgerErr("ErrKeyNotFound")}
	})
	set := func(m *Machine, t *kvTxn, key string, blob *Blob, expires *Term) Value {
		if !t.update {
			return m.badgerErr("ErrReadOnlyTxn")
		}
		t.writes[key] = &kvVersion{blob: blob, expires: expires}
		t.nWrites++
		return IfaceVal{}
	}
	regV("(*"+badgerPkg+".Txn).Set", func(m *Machine, g *Goroutine, a []Value) Value {
		t := m.nativeOf(a[0], "Txn.Set").(*kvTxn)
		bl := blobOf(a[2])
		if bl == nil {
			b, ok := concreteBytes(a[2])
			if !ok {
				panic(abortf("Txn.Set: value is neither a blob nor concrete bytes"))
			}
			bl = &Blob{kind: "raw", raw: string(b), v: StrVal{s: string(b)}}
		}
		return set(m, t, keyOf(a[1]), bl, nil)
	})
	regV(badgerPkg+".NewEntry", func(m *Machine, g *Goroutine, a []Value) Value {
		bl := blobOf(a[1])
		if bl == nil {
			panic(abortf("NewEntry: value is not a blob"))
		}
		return m.nativePtr(&kvEntry{key: keyOf(a[0]), blob: bl}, "entry")
	})
	regV("(*"+badgerPkg+".Entry).WithTTL", func(m *Machine, g *Goroutine, a []Value) Value {
		e := m.nativeOf(a[0], "WithTTL").(*kvEntry)
		// ExpiresAt = uint64(time.Now().Add(dur).Unix()), fixed when WithTTL is called
		e.expires = tEDiv(tAdd(m.clock, a[1].(*Term)), mkInt(1000000000))
		return a[0]
	})
	regV("(*"+badgerPkg+".Txn).SetEntry", func(m *Machine, g *Goroutine, a []Value) Value {
		t := m.nativeOf(a[0], "SetEntry").(*kvTxn)
		e := m.nativeOf(a[1], "SetEntry").(*kvEntry)
		return set(m, t, e.key, e.blob, e.expires)
	})
	regV("(*"+badgerPkg+".Txn).Delete", func(m *Machine, g *Goroutine, a []Value) Value {
		t := m.nativeOf(a[0], "Txn.Delete").(*kvTxn)
		if !t.update {
			return m.badgerErr("ErrReadOnlyTxn")
		}
		t.writes[keyOf(a[1])] = &kvVersion{deleted: true}
		t.nWrites++
		return IfaceVal{}
	})
	regV("(*"+badgerPkg+".Item).Key", func(m *Machine, g *Goroutine, a []Value) Value {
		it := m.nativeOf(a[0], "Item.Key").(*kvItem)
		return m.bytesSlice([]byte(it.key))
	})
	regV("(*"+badgerPkg+".Item).KeyCopy", func(m *Machine, g *Goroutine, a []Value) Value {
		it := m.nativeOf(a[0], "Item.KeyCopy").(*kvItem)
		return m.bytesSlice([]byte(it.key))
	})
	reg("(*"+badgerPkg+".Item).Value", func(m *Machine, g *Goroutine, c *callCtx) (Value, stepStatus) {
		it := m.nativeOf(c.args[0], "Item.Value").(*kvItem)
		m.callClosure(g, c.args[1].(FuncVal), []Value{m.blobSlice(it.ver.blob)}, func(ret Value) { c.deliver(ret) })
		return nil, stStay
	})
	regV("(*"+badgerPkg+".Txn).NewIterator", func(m *Machine, g *Goroutine, a []Value) Value {
		t := m.nativeOf(a[0], "NewIterator").(*kvTxn)
		set := map[string]bool{}
		for k := range t.db.keys {
			set[k] = true
		}
		for k := range t.writes {
			set[k] = true
		}
		var ks []string
		for k := range set {
			ks = append(ks, k)
		}
		sort.Strings(ks)
		return m.nativePtr(&kvIter{txn: t, keys: ks, pos: len(ks)}, "iter")
	})
	// skip positions whose key is not visible
	settle := func(m *Machine, it *kvIter) {
		for it.pos < len(it.keys) {
			if m.kvGet(it.txn, it.keys[it.pos], false) != nil {
				return
			}
			it.pos++
		}
	}
	regV("(*"+badgerPkg+".Iterator).Seek", func(m *Machine, g *Goroutine, a []Value) Value {
		it := m.nativeOf(a[0], "Seek").(*kvIter)
		p := keyOf(a[1])
		it.pos = sort.SearchStrings(it.keys, p)
		settle(m, it)
		return nil
	})
	regV("(*"+badgerPkg+".Iterator).Rewind", func(m *Machine, g *Goroutine, a []Value) Value {
		it := m.nativeOf(a[0], "Rewind").(*kvIter)
		it.pos = 0
		settle(m, it)
		return nil
	})
	regV("(*"+badgerPkg+".Iterator).Valid", func(m *Machine, g *Goroutine, a []Value) Value {
		it := m.nativeOf(a[0], "Valid").(*kvIter)
		return mkBool(it.pos < len(it.keys))
	})
	regV("(*"+badgerPkg+".Iterator).ValidForPrefix", func(m *Machine, g *Goroutine, a []Value) Value {
		it := m.nativeOf(a[0], "ValidForPrefix").(*kvIter)
		return mkBool(it.pos < len(it.keys) && strings.HasPrefix(it.keys[it.pos], keyOf(a[1])))
	})
	regV("(*"+badgerPkg+".Iterator).Next", func(m *Machine, g *Goroutine, a []Value) Value {
		it := m.nativeOf(a[0], "Next").(*kvIter)
		it.pos++
		settle(m, it)
		return nil
	})
	regV("(*"+badgerPkg+".Iterator).Item", func(m *Machine, g *Goroutine, a []Value) Value {
		it := m.nativeOf(a[0], "Iterator.Item").(*kvIter)
		if it.pos >= len(it.keys) {
			return PtrVal{}
		}
		key := it.keys[it.pos]
		v := m.kvGet(it.txn, key, false)
		if it.txn.update {
			it.txn.reads[key] = true
		}
		return m.nativePtr(&kvItem{key: key, ver: v}, "item")
	})
	regV("(*"+badgerPkg+".Iterator).Close", func(m *Machine, g *Goroutine, a []Value) Value { return nil })

	// ---- gob over bytes.Buffer / bytes.Reader ----
	regV("encoding/gob.NewEncoder", func(m *Machine, g *Goroutine, a []Value) Value {
		iv := a[0].(IfaceVal)
		p, ok := iv.v.(PtrVal)
		if !ok {
			panic(abortf("gob.NewEncoder on %s", describe(a[0])))
		}
		return m.nativePtr(&gobEncoder{dst: p}, "gobenc")
	})
	regV("(*encoding/gob.Encoder).Encode", func(m *Machine, g *Goroutine, a []Value) Value {
		e := m.nativeOf(a[0], "gob.Encode").(*gobEncoder)
		iv, ok := a[1].(IfaceVal)
		if !ok || iv.typ == nil {
			return m.freshError("gob: cannot encode nil value")
		}
		val := iv.v
		typ := iv.typ
		if pt, ok := typ.Underlying().(*types.Pointer); ok {
			p := iv.v.(PtrVal)
			if p.obj == nil {
				return m.freshError("gob: cannot encode nil pointer")
			}
			val = m.load(p)
			typ = pt.Elem()
		}
		m.bufBlobs[e.dst.obj] = &Blob{kind: "gob", v: m.deepCopy(val, map[*Obj]*Obj{}), typ: typ}
		return IfaceVal{}
	})
	regV("(*bytes.Buffer).Bytes", func(m *Machine, g *Goroutine, a []Value) Value {
		p := a[0].(PtrVal)
		if bl, ok := m.bufBlobs[p.obj]; ok {
			return m.blobSlice(bl)
		}
		return m.bytesSlice([]byte(m.builders[p.obj]))
	})
	regV("bytes.NewReader", func(m *Machine, g *Goroutine, a []Value) Value {
		return m.nativePtr(&bytesReader{data: a[0]}, "bytesreader")
	})
	regV("encoding/gob.NewDecoder", func(m *Machine, g *Goroutine, a []Value) Value {
		iv := a[0].(IfaceVal)
		r, ok := m.nativeOf(iv.v, "gob.NewDecoder").(*bytesReader)
		if !ok {
			panic(abortf("gob.NewDecoder on a reader that is not bytes.Reader"))
		}
		return m.nativePtr(&gobDecoder{src: r.data}, "gobdec")
	})
	regV("(*encoding/gob.Decoder).Decode", func(m *Machine, g *Goroutine, a []Value) Value {
		d := m.nativeOf(a[0], "gob.Decode").(*gobDecoder)
		bl := blobOf(d.src)
		if bl == nil || bl.kind != "gob" {
			return m.freshError("gob: decode of non-gob data")
		}
		iv, ok := a[1].(IfaceVal)
		if !ok || iv.typ == nil {
			return m.freshError("gob: decode into nil")
		}
		pt, ok := iv.typ.Underlying().(*types.Pointer)
		if !ok {
			return m.freshError("gob: attempt to decode into a non-pointer")
		}
		st := bl.typ.(types.Type)
		if !types.Identical(st.Underlying(), pt.Elem().Underlying()) {
			return m.freshError(fmt.Sprintf("gob: type mismatch: %s into %s", st, pt.Elem()))
		}
		p := iv.v.(PtrVal)
		cur := m.load(p)
		m.store(p, m.gobMerge(cur, m.deepCopy(bl.v, map[*Obj]*Obj{}), true))
		return IfaceVal{}
	})

	// ---- the reflect calls of loopItem (reset *into to its zero value) ----
	regV("reflect.ValueOf", func(m *Machine, g *Goroutine, a []Value) Value {
		iv, ok := a[0].(IfaceVal)
		if !ok || iv.typ == nil {
			return &ReflVal{}
		}
		return &ReflVal{typ: iv.typ, v: iv.v}
	})
	regV("(reflect.Value).Elem", func(m *Machine, g *Goroutine, a []Value) Value {
		r := a[0].(*ReflVal)
		switch t := r.typ.Underlying().(type) {
		case *types.Pointer:
			p := r.v.(PtrVal)
			if p.obj == nil {
				return &ReflVal{}
			}
			return &ReflVal{typ: t.Elem(), v: m.load(p), addr: &p}
		case *types.Interface:
			iv := r.v.(IfaceVal)
			return &ReflVal{typ: iv.typ, v: iv.v}
		}
		panic(goPanic{msg: "reflect: call of reflect.Value.Elem on non-pointer Value"})
	})
	regV("(reflect.Value).Type", func(m *Machine, g *Goroutine, a []Value) Value {
		r := a[0].(*ReflVal)
		return m.reflTypeIface(r.typ)
	})
	regV("reflect.Zero", func(m *Machine, g *Goroutine, a []Value) Value {
		t := reflTypeOf(a[0])
		return &ReflVal{typ: t, v: m.zero(t)}
	})
	regV("(reflect.Value).Set", func(m *Machine, g *Goroutine, a []Value) Value {
		r := a[0].(*ReflVal)
		x := a[1].(*ReflVal)
		if r.addr == nil {
			panic(goPanic{msg: "reflect: reflect.Value.Set using unaddressable value"})
		}
		m.store(*r.addr, x.v)
		return nil
	})
}

// gobMerge reproduces gob's decode-into-existing-value behaviour: zero-valued
// plain fields are not transmitted and leave the destination untouched;
// GobEncoder types (big.Int, time.Time) and top-level non-struct values are
// always overwritten; maps are merged key-wise.
func (m *Machine) gobMerge(dst, src Value, top bool) Value {
	switch s := src.(type) {
	case StructVal:
		d, ok := dst.(StructVal)
		if !ok || len(d.f) != len(s.f) {
			return src
		}
		f := make([]Value, len(s.f))
		for i := range f {
			f[i] = m.gobMerge(d.f[i], s.f[i], false)
		}
		return StructVal{f}
	case BigVal, TimeVal:
		return src
	case *Term:
		if top {
			return src
		}
		d, ok := dst.(*Term)
		if !ok {
			return src
		}
		var zero *Term
		if s.sort == SBool {
			zero = tFalse
		} else {
			zero = mkInt(0)
		}
		if d.isConst() && tEq(d, zero).isTrue() {
			return src
		}
		return tIte(tEq(s, zero), d, s)
	case StrVal:
		if top {
			return src
		}
		d, ok := dst.(StrVal)
		if !ok {
			return src
		}
		if s.concrete() {
			if s.s == "" {
				return d
			}
			return src
		}
		if d.concrete() && d.s == "" {
			return src
		}
		panic(abortf("gob merge of a symbolic string into a non-empty destination"))
	case MapVal:
		d, ok := dst.(MapVal)
		if !ok || d.m == nil {
			return src
		}
		if s.m == nil {
			return dst
		}
		for i := range s.m.keys {
			m.mapSet(d.m, s.m.keys[i], s.m.vals[i])
		}
		return dst
	case SliceVal:
		if s.arr == nil || s.len == 0 {
			if top {
				return src
			}
			return dst
		}
		return src
	case PtrVal:
		if s.obj == nil && !top {
			return dst
		}
		return src
	}
	return src
}

// ---- minimal reflect values ----

type ReflVal struct {
	typ  types.Type
	v    Value
	addr *PtrVal
}

type ReflType struct{ t types.Type }

func (r *ReflType) implements(it *types.Interface) bool { return true }
func (r *ReflType) invoke(m *Machine, g *Goroutine, method string, args []Value) (Value, stepStatus) {
	return m.reflTypeMethod(r, method, args), stNext
}

func (m *Machine) reflTypeIface(t types.Type) Value {
	if t == nil {
		return IfaceVal{}
	}
	return IfaceVal{typ: m.ld.reflMarker, v: &ReflType{t: t}}
}

func reflTypeOf(v Value) types.Type {
	iv, ok := v.(IfaceVal)
	if !ok || iv.typ == nil {
		panic(goPanic{msg: "reflect: nil Type"})
	}
	rt, ok := iv.v.(*ReflType)
	if !ok {
		panic(abortf("foreign reflect.Type %s", describe(v)))
	}
	return rt.t
}

func (m *Machine) stormLeft() int { return m.stormBudget - m.stormUsed }

func init() {
	// verifapi.KVStorm(n): from now on up to n commits of read-write transactions may fail with
	// ErrConflict although the path itself contains no conflicting writer
	regV(apiPkg+".KVStorm", func(m *Machine, g *Goroutine, a []Value) Value {
		m.stormBudget = int(cint(a[0], "KVStorm"))
		m.stormUsed = 0
		return nil
	})
}
