package main

import (
	"encoding/json"
	"fmt"
	"os"
	"path/filepath"
	"runtime"
	"sort"
	"strconv"
	"strings"
	"time"

	"golang.org/x/tools/go/ssa"
)

type TierCfg struct {
	Params     map[string]int `json:"params"`
	MaxPreempt int            `json:"max_preempt"`
	MaxTicks   int            `json:"max_ticks"`
	MaxPaths   int            `json:"max_paths"`
	Bounds     string         `json:"bounds"`
}

type CheckHarness struct {
	Name     string   `json:"name"`
	Pkg      string   `json:"pkg"`
	Func     string   `json:"func"`
	Desc     string   `json:"desc"`
	Quick    *TierCfg `json:"quick"`
	Thorough *TierCfg `json:"thorough"`
	NoReplay bool     `json:"no_replay"`
}

type CheckDef struct {
	Property    string         `json:"property"`
	Harnesses   []CheckHarness `json:"harnesses"`
	Assumptions []string       `json:"assumptions"`
	Outside     []string       `json:"outside_claim"`
	Stubs       []string       `json:"stubs"`
}

func loadChecks() (map[string]*CheckDef, error) {
	b, err := os.ReadFile(filepath.Join(verifDir, "checks.json"))
	if err != nil {
		return nil, err
	}
	var m map[string]*CheckDef
	if err := json.Unmarshal(b, &m); err != nil {
		return nil, err
	}
	return m, nil
}

// expectedIDs scans the harness (and the functions of its package it calls
// statically) for verifapi.Reach / verifapi.Assert identifiers.
func expectedIDs(ld *Loaded, fn *ssa.Function) (reach, asserts []string) {
	seen := map[*ssa.Function]bool{}
	rs, as := map[string]bool{}, map[string]bool{}
	var walk func(f *ssa.Function)
	walk = func(f *ssa.Function) {
		if f == nil || seen[f] || f.Blocks == nil {
			return
		}
		seen[f] = true
		for _, b := range f.Blocks {
			for _, in := range b.Instrs {
				if mc, ok := in.(*ssa.MakeClosure); ok {
					walk(mc.Fn.(*ssa.Function))
				}
				c, ok := in.(ssa.CallInstruction)
				if !ok {
					continue
				}
				cal := c.Common().StaticCallee()
				if cal == nil {
					continue
				}
				if cal.Pkg != nil && cal.Pkg.Pkg.Path() == apiPkg {
					switch cal.Name() {
					case "Reach":
						if k, ok := c.Common().Args[0].(*ssa.Const); ok {
							rs[strings.Trim(k.Value.ExactString(), `"`)] = true
						}
					case "Assert":
						if k, ok := c.Common().Args[1].(*ssa.Const); ok {
							as[strings.Trim(k.Value.ExactString(), `"`)] = true
						}
					}
					continue
				}
				if cal.Pkg == fn.Pkg && strings.Contains(ld.fset.Position(cal.Pos()).Filename, "zz_verif") {
					walk(cal)
				}
			}
		}
	}
	walk(fn)
	for k := range rs {
		reach = append(reach, k)
	}
	for k := range as {
		asserts = append(asserts, k)
	}
	sort.Strings(reach)
	sort.Strings(asserts)
	return
}

type funcInfo struct {
	Name   string `json:"name"`
	File   string `json:"file"`
	Line   int    `json:"line"`
	Instrs int    `json:"instrs"`
	Hash   string `json:"src_sha256_12"`
}

func cmdCheck(id, tier string) int {
	t0 := time.Now()
	if tier != "quick" && tier != "thorough" {
		fmt.Fprintln(os.Stderr, "tier must be quick or thorough")
		return 2
	}
	seed := 0
	if s := os.Getenv("VERIF_SEED"); s != "" {
		seed, _ = strconv.Atoi(s)
	}
	checks, err := loadChecks()
	if err != nil {
		fmt.Fprintln(os.Stderr, "checks.json:", err)
		return 2
	}
	def := checks[id]
	if def == nil {
		fmt.Fprintln(os.Stderr, "no check registered for", id)
		return 2
	}
	known := loadKnown(id)
	pkgSet := map[string]bool{}
	for _, h := range def.Harnesses {
		pkgSet[h.Pkg] = true
	}
	var pkgs []string
	for p := range pkgSet {
		pkgs = append(pkgs, p)
	}
	sort.Strings(pkgs)
	ld, err := loadProgram(pkgs)
	if err != nil {
		fmt.Fprintln(os.Stderr, "load:", err)
		writeEvidenceFailure(id, tier, seed, "load error: "+err.Error(), time.Since(t0))
		return 2
	}
	workers := runtime.NumCPU()
	if w := os.Getenv("VERIF_WORKERS"); w != "" {
		workers, _ = strconv.Atoi(w)
	}
	cross := os.Getenv("VERIF_NOCROSS") == ""

	var results []*HarnessResult
	inconclusive := []string{}
	for _, h := range def.Harnesses {
		tc := h.Quick
		if tier == "thorough" {
			tc = h.Thorough
			if tc == nil {
				tc = h.Quick
			}
		}
		if tc == nil {
			continue
		}
		cfg := &HarnessCfg{Name: h.Name, Pkg: h.Pkg, Func: h.Func, MaxPreempt: tc.MaxPreempt, MaxTicks: tc.MaxTicks, MaxPaths: tc.MaxPaths,
			Params: tc.Params, Known: known, NoReplay: h.NoReplay, Desc: h.Desc}
		if cfg.MaxTicks == 0 {
			cfg.MaxTicks = 2
		}
		if ld.findFunc(h.Pkg, h.Func) == nil && len(ld.dropped) > 0 {
			why := ""
			for f, msg := range ld.dropped {
				why += " " + filepath.Base(f) + ": " + msg + ";"
			}
			inconclusive = append(inconclusive, h.Name+": harness does not compile against this tree and was not run ("+strings.TrimSpace(why)+")")
			continue
		}
		res, err := exploreHarness(ld, cfg, workers, cross)
		if err != nil {
			fmt.Fprintln(os.Stderr, "explore:", err)
			inconclusive = append(inconclusive, h.Name+": "+err.Error())
			continue
		}
		fmt.Print(res.summary())
		results = append(results, res)
		fn := ld.findFunc(h.Pkg, h.Func)
		reach, _ := expectedIDs(ld, fn)
		for _, r := range reach {
			if res.Reached[r] == 0 {
				inconclusive = append(inconclusive, fmt.Sprintf("%s: VACUOUS: Reach(%q) never reached", h.Name, r))
			}
		}
		if len(reach) == 0 {
			inconclusive = append(inconclusive, h.Name+": harness has no Reach witness")
		}
		if len(res.Aborts) > 0 {
			for msg, n := range res.Aborts {
				inconclusive = append(inconclusive, fmt.Sprintf("%s: unsupported/abort x%d: %s", h.Name, n, firstLine(msg)))
			}
		}
		if res.Unknowns > 0 {
			inconclusive = append(inconclusive, fmt.Sprintf("%s: %d solver answers unknown/timeout", h.Name, res.Unknowns))
		}
		if res.Truncated > 0 {
			inconclusive = append(inconclusive, fmt.Sprintf("%s: %d paths truncated (budget)", h.Name, res.Truncated))
		}
		dis := map[string]int{}
		for _, d := range res.Disagree {
			dis[d]++
		}
		for d, n := range dis {
			inconclusive = append(inconclusive, fmt.Sprintf("%s: solver disagreement x%d %s", h.Name, n, d))
		}
	}

	// translator validation: solved witnesses of clean paths are replayed natively; the
	// native run of the same harness on the solver's inputs must pass every assertion too
	validated, mismatches := 0, 0
	if os.Getenv("VERIF_NOREPLAY") == "" {
		for _, res := range results {
			if res.Cfg.NoReplay || len(res.Violations) > 0 {
				continue
			}
			limit := 1
			if tier == "thorough" {
				limit = 3
			}
			for i, smp := range res.Samples {
				if i >= limit {
					break
				}
				rf := ReplayFile{Property: id, Harness: res.Cfg.Name, Pkg: res.Cfg.Pkg, Func: res.Cfg.Func, Assert: "", Kind: "witness", Model: smp, Params: res.Cfg.Params}
				_, out, err := nativeReplay(ld, &rf)
				// a native run of a concurrent harness settles by waiting (verifapi.Quiesce sleeps): on a loaded
				// machine it can fail for timing alone, whereas a real mismatch between model and code fails
				// every time - so a failing witness run is repeated before it is believed
				for try := 0; try < 2 && err == nil && !strings.Contains(out, "VERIF-ASSUME-VIOLATED") &&
					(strings.Contains(out, "VERIF-ASSERT-FAILED") || strings.Contains(out, "VERIF-PANIC") || strings.Contains(out, "panic:") || strings.Contains(out, "VERIF-DEADLOCK")); try++ {
					_, out, err = nativeReplay(ld, &rf)
				}
				switch {
				case err != nil:
					inconclusive = append(inconclusive, fmt.Sprintf("%s: witness replay could not run: %v", res.Cfg.Name, err))
				case strings.Contains(out, "VERIF-ASSUME-VIOLATED"):
					// inputs declared after the last solved point defaulted to zero and broke an assumption: not a validation
				case strings.Contains(out, "VERIF-ASSERT-FAILED") || strings.Contains(out, "VERIF-PANIC") || strings.Contains(out, "panic:") || strings.Contains(out, "VERIF-DEADLOCK"):
					mismatches++
					inconclusive = append(inconclusive, fmt.Sprintf("%s: MODEL MISMATCH: the native run on a solved witness fails although the symbolic path passed:\n%s", res.Cfg.Name, tail(out, 12)))
				case strings.Contains(out, "\nok ") || strings.Contains(out, "PASS"):
					validated++
				}
			}
		}
	}

	// violations
	exit := 0
	nViol := 0
	replayed := 0
	spurious := 0
	knownPrinted := map[string]bool{}
	violPrinted := map[string]bool{}
	spuriousTried := map[string]int{}
	os.MkdirAll(filepath.Join(outDir(), "replays"), 0o755)
	for _, res := range results {
		for i, v := range res.Violations {
			if v.Known {
				for _, c := range v.Classes {
					key := v.AssertID + "/" + c
					if knownPrinted[key] {
						continue
					}
					knownPrinted[key] = true
					what := c
					for _, k := range known {
						if k.Class == c && k.Assert == v.AssertID {
							what = k.What
						}
					}
					fmt.Printf("KNOWN-FINDING: property=%s %s [%s, class %s]\n", id, what, v.AssertID, c)
				}
				continue
			}
			key := res.Cfg.Name + "/" + v.AssertID
			if violPrinted[key] || spuriousTried[key] >= 4 {
				continue
			}
			violPrinted[key] = true
			path := filepath.Join(outDir(), "replays", fmt.Sprintf("%s-%s-%s-%d.json", id, res.Cfg.Name, sanitizeFile(v.AssertID), i))
			rf := ReplayFile{Property: id, Harness: res.Cfg.Name, Pkg: res.Cfg.Pkg, Func: res.Cfg.Func, Assert: v.AssertID, Kind: v.Kind, Msg: v.Msg,
				Model: v.Model, Trace: v.Trace, Observed: v.Observed, Params: res.Cfg.Params}
			b, _ := json.MarshalIndent(rf, "", " ")
			os.WriteFile(path, b, 0o644)
			status := "not-replayable"
			if v.Kind == "race" && os.Getenv("VERIF_NOREPLAY") == "" {
				// confirmation with Go's race detector is attempted for every harness; the native run need
				// not take the path of the symbolic one, so a miss does not make the verdict spurious
				if ok, _, err := nativeReplay(ld, &rf); err == nil && ok {
					status = "reproduced by go test -race"
					replayed++
				} else {
					status = "happens-before verdict; go test -race of the harness did not hit it"
				}
			} else if v.AssertID == "guarded-by" {
				// the lock-discipline monitor has no native counterpart (a single-threaded native run of the
				// harness cannot observe which mutex was held): its verdict is the engine's own
				status = "lock-discipline monitor verdict (no native counterpart)"
			} else if !res.Cfg.NoReplay && os.Getenv("VERIF_NOREPLAY") == "" {
				ok, out, err := nativeReplay(ld, &rf)
				if err != nil {
					status = "replay-error: " + err.Error()
					inconclusive = append(inconclusive, fmt.Sprintf("%s: replay of %s could not run: %v", res.Cfg.Name, v.AssertID, err))
				} else if ok {
					status = "reproduced"
					replayed++
				} else {
					status = "NOT reproduced natively (spurious)"
					spurious++
					// another counterexample for the same assertion may reproduce (the paths are explored in no
					// fixed order): up to four are tried before the assertion is given up as inconclusive
					violPrinted[key] = false
					spuriousTried[key]++
					inconclusive = append(inconclusive, fmt.Sprintf("%s: counterexample for %s did not reproduce natively:\n%s", res.Cfg.Name, v.AssertID, tail(out, 15)))
					continue
				}
			}
			nViol++
			exit = 1
			fmt.Printf("VIOLATION property=%s replay=%s\n", id, path)
			fmt.Printf("  harness=%s assert=%s kind=%s %s [%s]\n", res.Cfg.Name, v.AssertID, v.Kind, v.Msg, status)
			ks := make([]string, 0, len(v.Model))
			for k := range v.Model {
				ks = append(ks, k)
			}
			sort.Strings(ks)
			for _, k := range ks {
				fmt.Printf("    %s = %s\n", k, v.Model[k])
			}
		}
	}
	if exit == 0 && len(inconclusive) > 0 {
		exit = 2
	}
	for _, s := range inconclusive {
		fmt.Printf("INCONCLUSIVE: %s\n", s)
	}
	writeEvidence(ld, def, id, tier, seed, results, inconclusive, nViol, replayed+validated, spurious, time.Since(t0))
	if exit == 0 {
		fmt.Printf("OK property=%s tier=%s held within bounds (%.1fs)\n", id, tier, time.Since(t0).Seconds())
	}
	return exit
}

func tail(s string, n int) string {
	ls := strings.Split(strings.TrimSpace(s), "\n")
	if len(ls) > n {
		ls = ls[len(ls)-n:]
	}
	return strings.Join(ls, "\n")
}

func sanitizeFile(s string) string {
	r := strings.NewReplacer("/", "_", " ", "_", ":", "_")
	return r.Replace(s)
}

func writeEvidenceFailure(id, tier string, seed int, msg string, wall time.Duration) {
	ev := map[string]interface{}{
		"property_id": id, "tier": tier, "seed": seed, "level": "model_checking",
		"coverage": map[string]interface{}{"evaluations": 0, "distinct_nontrivial": 0, "explanation": "run failed: " + msg},
		"wall_s":   wall.Seconds(), "violations": 0, "run_failed": msg,
	}
	b, _ := json.MarshalIndent(ev, "", " ")
	os.MkdirAll(filepath.Join(outDir(), "evidence"), 0o755)
	os.WriteFile(filepath.Join(outDir(), "evidence", id+".json"), b, 0o644)
}

func writeEvidence(ld *Loaded, def *CheckDef, id, tier string, seed int, results []*HarnessResult, inconclusive []string, nViol, replayed, spurious int, wall time.Duration) {
	states, trans, paths, feasQ, assertQ, unsat, sat, unknown, concrete, nia, trunc := 0, 0, 0, 0, 0, 0, 0, 0, 0, 0, 0
	var solverT, solver2T float64
	funcs := map[string]funcInfo{}
	icpts := map[string]int{}
	var samples []interface{}
	var harnessEv []map[string]interface{}
	obligations := 0
	for _, r := range results {
		states += r.States
		trans += r.Instrs
		paths += r.Paths
		feasQ += r.FeasQ
		assertQ += r.AssertQ
		nia += r.NIA
		trunc += r.Truncated
		solverT += r.SolverTime.Seconds()
		solver2T += r.Solver2Time.Seconds()
		as := map[string]interface{}{}
		for aid, a := range r.Asserts {
			unsat += a.Unsat
			sat += a.Sat
			unknown += a.Unknown
			concrete += a.Concrete
			obligations += a.Checked
			as[aid] = map[string]int{"checked_on_paths": a.Checked, "unsat": a.Unsat, "decided_concretely": a.Concrete, "sat": a.Sat, "unknown": a.Unknown}
		}
		for f, n := range r.Funcs {
			pos := ld.fset.Position(f.Pos())
			name := f.String()
			if pos.Filename == "" && f.Parent() != nil {
				pos = ld.fset.Position(f.Parent().Pos())
			}
			if !strings.HasPrefix(pos.Filename, repoDir) {
				name = "(dependency) " + name
			}
			funcs[name] = funcInfo{Name: name, File: pos.Filename, Line: pos.Line, Instrs: n, Hash: ld.fileHash(pos.Filename)}
		}
		for k, n := range r.Intercepts {
			icpts[k] += n
		}
		for _, s := range r.Samples {
			samples = append(samples, map[string]interface{}{"harness": r.Cfg.Name, "kind": "solved reach witness (solver model of the inputs)", "inputs": s})
		}
		bounds := ""
		for _, h := range def.Harnesses {
			if h.Name == r.Cfg.Name {
				tc := h.Quick
				if tier == "thorough" && h.Thorough != nil {
					tc = h.Thorough
				}
				if tc != nil {
					bounds = tc.Bounds
				}
			}
		}
		harnessEv = append(harnessEv, map[string]interface{}{
			"harness": r.Cfg.Name, "entry": r.Cfg.Pkg + "." + r.Cfg.Func, "desc": r.Cfg.Desc, "bounds": bounds, "params": r.Cfg.Params,
			"max_preemptions": r.Cfg.MaxPreempt, "paths": r.Paths, "path_ends": r.EndReasons, "paths_truncated": r.Truncated,
			"symbolic_states": r.States, "ssa_instructions_executed": r.Instrs, "max_decision_depth": r.MaxDepth,
			"feasibility_queries": r.FeasQ, "assertion_queries": r.AssertQ, "nia_terms": r.NIA, "asserts": as,
			"reach": r.Reached, "solver_time_s": r.SolverTime.Seconds(), "cross_solver_time_s": r.Solver2Time.Seconds(), "wall_s": r.Wall.Seconds(),
			"environment_events_fired": r.Events,
		})
	}
	var flist []funcInfo
	for _, f := range funcs {
		flist = append(flist, f)
	}
	sort.Slice(flist, func(i, j int) bool { return flist[i].Name < flist[j].Name })
	if len(samples) == 0 {
		samples = append(samples, "no sample: no harness produced a witness")
	}
	if states == 0 {
		states = 1
	}
	if trans == 0 {
		trans = 1
	}
	cov := map[string]interface{}{
		"states": states, "transitions": trans, "traces_validated_against_impl": replayed, "samples": samples,
		"evaluations": paths, "distinct_nontrivial": paths,
		"rule":          "each evaluation is one feasible symbolic path of a harness through the real SSA of /repo (distinct decision prefixes; every path constrains a different region of the symbolic inputs); states = symbolic states created at fork points, transitions = SSA instructions interpreted",
		"exhaustive":    len(inconclusive) == 0 && trunc == 0,
		"paths":         paths, "paths_truncated": trunc,
		"queries":       map[string]int{"feasibility": feasQ, "assertion": assertQ, "assert_unsat": unsat, "assert_decided_concretely": concrete, "assert_sat": sat, "assert_unknown": unknown},
		"obligations":   obligations, "discharged": unsat + concrete,
		"nia_terms":     nia,
		"solver_time_s": map[string]float64{"z3-4.8.12": solverT, "z3-5.1.0(cross-check)": solver2T},
		"functions_encoded": flist, "intercepts": icpts, "harnesses": harnessEv,
		"stubs": def.Stubs, "outside_claim": def.Outside, "inconclusive": inconclusive,
		"spurious_counterexamples": spurious,
		"explanation":   "bounded symbolic execution of the real Go SSA (regenerated from /repo's working tree on this run); assertions decided by z3 (pc ∧ ¬assert unsat on every path), cross-checked with z3 5.1",
	}
	ev := map[string]interface{}{
		"property_id": id, "tier": tier, "seed": seed, "level": "model_checking", "coverage": cov,
		"assumptions": def.Assumptions, "wall_s": wall.Seconds(), "violations": nViol,
	}
	b, _ := json.MarshalIndent(ev, "", " ")
	os.MkdirAll(filepath.Join(outDir(), "evidence"), 0o755)
	os.WriteFile(filepath.Join(outDir(), "evidence", id+".json"), b, 0o644)
}

// outDir is where evidence and replay files go: /verif normally, a scratch
// directory when the checks are pointed at a scratch worktree (GOSYM_REPO).
func outDir() string {
	if os.Getenv("GOSYM_REPO") != "" {
		d := filepath.Join(os.TempDir(), "gosym-dev-out")
		os.MkdirAll(d, 0o755)
		return d
	}
	return verifDir
}
