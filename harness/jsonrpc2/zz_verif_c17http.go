package jsonrpc2

import (
	"bytes"
	"context"
	"errors"
	"fmt"
	"io/ioutil"
	"net/http"

	"github.com/vipnode/vipnode/v2/internal/verifapi"
)

// VerifHTTPSvc is the receiver registered on the real Server: it records the
// tokens it was called with, in order.
type VerifHTTPSvc struct {
	seen []int64
}

func (s *VerifHTTPSvc) Echo(ctx context.Context, x int64) (int64, error) {
	s.seen = append(s.seen, x)
	return x, nil
}

// Fail is a method that refuses: its error is the reply the caller must receive.
func (s *VerifHTTPSvc) Fail(ctx context.Context, x int64) (int64, error) {
	s.seen = append(s.seen, x)
	return 0, errors.New("verif: refused")
}

// verifRecorder is the http.ResponseWriter of the in-process network.
type verifRecorder struct {
	hdr    http.Header
	code   int
	body   []byte
	writes int
}

func (r *verifRecorder) Header() http.Header { return r.hdr }
func (r *verifRecorder) WriteHeader(c int) {
	if r.code == 0 {
		r.code = c
	}
}
func (r *verifRecorder) Write(p []byte) (int, error) {
	if r.code == 0 {
		r.code = http.StatusOK
	}
	r.writes++
	r.body = append(r.body, p...)
	return len(p), nil
}

// verifRT is the network between HTTPService and HTTPServer: per round trip
// it either fails before the request reaches the server, delivers it and
// loses the reply, or delivers it and returns the reply.
type verifRT struct {
	server    *HTTPServer
	attempts  int
	delivered int
	faults    int
	chunked   bool // requests may arrive without a declared length
	reliable  bool // no faults
	// boundary mode: the size limits configured on the two ends sit exactly delta bytes away from the
	// request / reply being carried (set just before each is handed over, when its size is known)
	client      *HTTPService
	boundary    bool
	reqDelta    int64
	replyDelta  int64
	reqTooBig   bool
	replyTooBig bool
}

func (t *verifRT) RoundTrip(req *http.Request) (*http.Response, error) {
	k := 0
	if !t.reliable {
		k = verifapi.Choose(fmt.Sprint("transport", t.attempts), 3)
	}
	t.attempts++
	if k == 1 {
		t.faults++
		return nil, errors.New("verif: connection refused")
	}
	rec := &verifRecorder{hdr: http.Header{}}
	sreq := &http.Request{Method: req.Method, URL: req.URL, Body: req.Body, ContentLength: req.ContentLength, RemoteAddr: "192.0.2.5:4000"}
	if t.chunked && verifapi.Bool(fmt.Sprint("chunked", t.attempts)) {
		sreq.ContentLength = -1 // the body arrives with chunked transfer encoding: its length is not declared
	}
	if t.boundary {
		t.reqDelta = int64(verifapi.Choose(fmt.Sprint("request-limit-delta", t.attempts), 3)) - 1
		t.server.MaxContentLength = req.ContentLength + t.reqDelta
		t.reqTooBig = t.reqDelta < 0
		if t.server.MaxContentLength <= 0 {
			t.server.MaxContentLength, t.reqTooBig = 1, true // (a limit of 0 means "none")
		}
	}
	t.server.ServeHTTP(rec, sreq.WithContext(req.Context()))
	t.delivered++
	if t.boundary {
		t.replyDelta = int64(verifapi.Choose(fmt.Sprint("reply-limit-delta", t.attempts), 3)) - 1
		t.client.MaxContentLength = int64(len(rec.body)) + t.replyDelta
		t.replyTooBig = t.replyDelta < 0
	}
	if k == 2 {
		t.faults++
		return nil, errors.New("verif: connection reset before the reply arrived")
	}
	if rec.code == 0 {
		rec.code = http.StatusOK
	}
	return &http.Response{StatusCode: rec.code, Body: ioutil.NopCloser(bytes.NewReader(rec.body)), ContentLength: int64(len(rec.body)), Request: req}, nil
}

// VerifC17HTTP: calls through the real HTTPService and the real
// HTTPServer/Server over an in-process network that may fail before delivery
// or lose the reply: every message reaches the handler at most once, a call
// that reports success was handled exactly once and got its own, intact
// reply, messages are handled in the order the calls were made, and without
// a fault every call succeeds.
func VerifC17HTTP() {
	svc := &VerifHTTPSvc{}
	srv := &HTTPServer{}
	if err := srv.Server.Register("", svc); err != nil {
		verifapi.Observe("err", err.Error())
		verifapi.Unreachable("c17.http-register")
	}
	rt := &verifRT{server: srv}
	client := &HTTPService{Endpoint: "http://pool.invalid/", HTTPClient: http.Client{Transport: rt}}
	if verifapi.Param("maxlen", 0) == 1 {
		// size limits configured on both ends, far above any message of the harness
		srv.MaxContentLength, client.MaxContentLength = 1<<40, 1<<40
		rt.chunked = true
	}
	n := verifapi.Param("calls", 2)
	var sent []int64
	for i := 0; i < n; i++ {
		tok := verifapi.Int64(fmt.Sprint("token", i))
		var got int64
		before, faults := len(svc.seen), rt.faults
		var err error
		bad := 0
		if verifapi.Param("badcalls", 0) == 1 {
			bad = verifapi.Choose(fmt.Sprint("badcall", i), 6)
		}
		switch bad {
		case 0:
			err = client.Call(context.Background(), &got, "echo", tok)
		case 1: // a name that differs from the registered one only in case
			err = client.Call(context.Background(), &got, "Echo", tok)
		case 2: // too few parameters
			err = client.Call(context.Background(), &got, "echo")
		case 3: // too many parameters
			err = client.Call(context.Background(), &got, "echo", tok, tok)
		case 4: // a wrongly typed parameter
			err = client.Call(context.Background(), &got, "echo", "text")
		case 5: // a served call that the method refuses: the error reply is a message like any other
			err = client.Call(context.Background(), &got, "fail", tok)
			ran := len(svc.seen) - before
			verifapi.Assert(ran <= 1, "c17.http-message-handled-at-most-once")
			verifapi.Assert(err != nil, "c17.http-refusal-is-an-error")
			if rt.faults == faults {
				e, ok := err.(*ErrResponse)
				verifapi.Assert(ok && ran == 1, "c17.http-error-reply-delivered-as-sent")
				if ok {
					verifapi.Assert(e.Code == ErrCodeInternal && e.Message == "verif: refused", "c17.http-error-reply-delivered-as-sent")
				}
			}
			if ran >= 1 {
				verifapi.Assert(svc.seen[before] == tok, "c17.http-message-intact")
				sent = append(sent, tok)
			}
			continue
		}
		if bad != 0 {
			// C16 over HTTP: not served, and answered with an error (unless the transport failed first)
			verifapi.Assert(len(svc.seen) == before, "c16.http.bad-call-does-not-run-the-method")
			verifapi.Assert(err != nil, "c16.http.bad-call-is-an-error")
			if rt.faults == faults {
				code := 0
				if e, ok := err.(interface{ ErrorCode() int }); ok {
					code = e.ErrorCode()
				}
				if bad == 1 {
					verifapi.Assert(code == ErrCodeMethodNotFound, "c16.http.unknown-name-is-method-not-found")
				} else {
					verifapi.Assert(code == ErrCodeInvalidParams, "c16.http.wrong-params-is-invalid-params")
				}
			}
			continue
		}
		ran := len(svc.seen) - before
		verifapi.Assert(ran <= 1, "c17.http-message-handled-at-most-once")
		if err == nil {
			verifapi.Assert(ran == 1, "c17.http-successful-call-was-handled")
			verifapi.Assert(got == tok, "c17.http-reply-is-own-and-intact")
		}
		if rt.faults == faults {
			verifapi.Assert(err == nil, "c17.http-fault-free-call-succeeds")
		}
		if ran >= 1 {
			verifapi.Assert(svc.seen[before] == tok, "c17.http-message-intact")
			sent = append(sent, tok)
		}
	}
	verifapi.Reach("c17.http")
	verifapi.Assert(len(svc.seen) == len(sent), "c17.http-no-message-handled-twice")
	for i := range sent {
		if i < len(svc.seen) {
			verifapi.Assert(svc.seen[i] == sent[i], "c17.http-messages-handled-in-order")
		}
	}
}

// VerifC17HTTPConcurrent: several goroutines call through one HTTPService at
// once (as the agent's keep-alive loop and its RPC handlers do) over a
// fault-free in-process network: every message arrives intact and exactly
// once, every caller gets its own reply, and the callers share no
// unsynchronised state (data race = violation).
func VerifC17HTTPConcurrent() {
	svc := &VerifHTTPSvc{}
	srv := &HTTPServer{}
	if err := srv.Server.Register("", svc); err != nil {
		verifapi.Unreachable("c17.http-register")
	}
	rt := &verifRT{server: srv, reliable: true}
	client := &HTTPService{Endpoint: "http://pool.invalid/", HTTPClient: http.Client{Transport: rt}}
	n := verifapi.Param("callers", 2)
	toks := make([]int64, n)
	type res struct {
		i   int
		got int64
		err error
	}
	done := make(chan res, n)
	for i := 0; i < n; i++ {
		toks[i] = verifapi.Int64(fmt.Sprint("token", i))
		go func(i int) {
			var got int64
			err := client.Call(context.Background(), &got, "echo", toks[i])
			done <- res{i, got, err}
		}(i)
	}
	for k := 0; k < n; k++ {
		r := <-done
		verifapi.Assert(r.err == nil, "c17.http-fault-free-call-succeeds")
		verifapi.Assert(r.got == toks[r.i], "c17.http-reply-is-own-and-intact")
	}
	verifapi.Reach("c17.http.concurrent")
	verifapi.Assert(len(svc.seen) == n, "c17.http-no-message-handled-twice")
	for i := 0; i < n; i++ {
		cnt := 0
		for _, x := range svc.seen {
			if x == toks[i] {
				cnt++
			}
		}
		verifapi.Assert(cnt >= 1, "c17.http-message-intact")
	}
}

// VerifC17HTTPBoundary: size limits exactly at, one below and one above the
// size of the message being carried, on either end, with the length declared
// or not (chunked): a message within the limit is delivered intact - and
// handled exactly once - however it is framed; only a message larger than the
// limit is refused, and then nothing of it is handled.
func VerifC17HTTPBoundary() {
	svc := &VerifHTTPSvc{}
	srv := &HTTPServer{}
	if err := srv.Server.Register("", svc); err != nil {
		verifapi.Unreachable("c17.http-register")
	}
	rt := &verifRT{server: srv, reliable: true, boundary: true, chunked: true}
	client := &HTTPService{Endpoint: "http://pool.invalid/", HTTPClient: http.Client{Transport: rt}}
	rt.client = client
	tok := verifapi.Int64("token")
	var got int64
	err := client.Call(context.Background(), &got, "echo", tok)
	verifapi.Reach("c17.http.boundary")
	if rt.reqTooBig {
		verifapi.Assert(len(svc.seen) == 0 && err != nil, "c17.http-oversized-request-is-refused-unhandled")
		return
	}
	verifapi.Assert(len(svc.seen) == 1 && svc.seen[0] == tok, "c17.http-request-within-limit-is-delivered-intact")
	if rt.replyTooBig {
		verifapi.Assert(err != nil, "c17.http-oversized-reply-is-refused")
		return
	}
	verifapi.Assert(err == nil && got == tok, "c17.http-reply-within-limit-is-delivered-intact")
}
