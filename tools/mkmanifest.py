#!/usr/bin/env python3
"""Regenerates /verif/MANIFEST.json from checks.json (claimed checks) and tools/notes.json (texts, not_applicable)."""
import json, os
V = os.path.dirname(os.path.dirname(os.path.abspath(__file__)))
checks = json.load(open(os.path.join(V, 'checks.json')))
notes = json.load(open(os.path.join(V, 'tools', 'notes.json')))
props = [json.loads(l)['id'] for l in open(os.path.join(V, 'properties.jsonl'))]
out = {
 "version": 1,
 "setup_cmd": "cd /verif/engine && GOFLAGS=-mod=mod GOPROXY=off GOSUMDB=off GOTOOLCHAIN=local go build -o /verif/bin/gosym .",
 "hooks": {"guard": "verif", "enable": "no source hooks in /repo: harnesses, models and the verifapi package live under /verif and are injected with go/packages Overlay (symbolic run, tag verif) and go test -overlay (native replay, tag verifreplay)",
           "baseline_off_cmd": "cd /repo && go test -vet=off -count=1 ./...", "source_commits": [], "add_only": True},
 "engines": [{"name": "gosym", "path": "/verif/engine", "serves_properties": sorted(checks.keys()),
              "kind_free_text": "bounded symbolic executor for Go: go/packages+go/ssa of /repo's working tree -> forking SSA interpreter -> SMT-LIB2 (Int/Bool, wrap-around preserved) -> z3 4.8.12, assertion queries cross-checked with z3 5.1; counterexamples replayed natively with go test -overlay"}],
 "checks": [], "not_applicable": [],
 "notes": "All checks: `bin/gosym check <id> <tier>`; exit 0 held, 1 VIOLATION (replayed natively where the harness is sequential), 2 inconclusive (unknown/timeout/unsupported/vacuous/truncated). known-findings.json lists recorded and fixed findings.",
}
for pid in props:
    if pid in checks:
        n = notes['claimed'].get(pid, {})
        out['checks'].append({
            "property_id": pid,
            "quick_cmd": "/verif/bin/gosym check %s quick" % pid,
            "thorough_cmd": "/verif/bin/gosym check %s thorough" % pid,
            "evidence_file": "/verif/evidence/%s.json" % pid,
            "replay_cmd_template": "/verif/bin/gosym replay {path}",
            "engine": "gosym",
            "level_claimed": {"category": "model_checking", "text": n.get('text', ''), "design_ref": "DESIGN.md section 6, " + pid},
            "level_note": n.get('note', ''),
            "technique": n.get('technique', "bounded symbolic execution of the real Go SSA; assertions decided by SMT (z3, cross-checked z3 5.1)"),
        })
    else:
        out['not_applicable'].append({"property_id": pid, "reason": notes['not_applicable'].get(pid, "check not built yet; see DESIGN.md")})
json.dump(out, open(os.path.join(V, 'MANIFEST.json'), 'w'), indent=1)
print("claimed:", [c['property_id'] for c in out['checks']])
