package request

import (
	"encoding/base64"
	"encoding/hex"

	"github.com/vipnode/vipnode/v2/internal/verifapi"
)

// VerifC15Verify: signature verification never panics, whatever the
// signature string decodes to (bytes of any length, or a decode error). The
// codecs and crypto primitives return arbitrary values of their types (havoc);
// the claimed identities are well-formed so that the native replay gets past
// the identity parsing too.
func VerifC15Verify() {
	// the signature: an arbitrary string whose decoding is arbitrary (bytes of any length, or an error)
	// - or one of a family of concrete strings that the real decoders take apart: hex and base64 of
	// 0, 1, 63, 64, 65, 66 bytes, with and without 0x, odd lengths, not an encoding at all
	sig := verifapi.StrAtom("sig")
	if k := verifapi.Choose("concrete-signature", 16); k > 0 {
		n := []int{0, 1, 63, 64, 65, 66}[(k-1)%6]
		raw := make([]byte, n)
		for i := range raw {
			raw[i] = byte(27 + i%3)
		}
		switch (k - 1) / 6 {
		case 0:
			sig = hex.EncodeToString(raw)
		case 1:
			sig = "0x" + hex.EncodeToString(raw)
		default:
			sig = []string{base64.StdEncoding.EncodeToString(raw), "0x0", "%%"}[(k-1)%3]
		}
	}
	method := "vipnode_connect"
	nonce := verifapi.Int64("nonce")
	var err error
	switch verifapi.Choose("entry", 3) {
	case 0:
		err = NodeRequest{Method: method, NodeID: verifapi.NodeID(0), Nonce: nonce, ExtraArgs: []interface{}{"x"}}.Verify(sig)
	case 1:
		err = AddressRequest{Method: method, Address: verifapi.Wallet(0), Nonce: nonce, ExtraArgs: []interface{}{"x"}}.Verify(sig)
	default:
		id := []string{verifapi.NodeID(0), verifapi.Wallet(0), "", "short"}[verifapi.Choose("identity", 4)]
		err = Verify(sig, method, id, nonce, "x")
	}
	verifapi.Reach("c15.verify-returned")
	_ = err
}
