package main

// math/big.Float on CONCRETE values, bridged to the real library (model mode only: with
// real_big=1 the package is interpreted). A *big.Float is tracked by the object it points to.
// Anything symbolic aborts the path: floating-point arithmetic is outside the encoder.

import (
	"math/big"
)

func (m *Machine) bigFloatOf(v Value, what string) *big.Float {
	p, ok := v.(PtrVal)
	if !ok || p.obj == nil {
		panic(goPanic{msg: "nil pointer dereference (*big.Float in " + what + ")"})
	}
	if f, ok := m.bigFloats[p.obj]; ok {
		return f
	}
	return new(big.Float)
}

func (m *Machine) setBigFloat(v Value, f *big.Float, what string) Value {
	p, ok := v.(PtrVal)
	if !ok || p.obj == nil {
		panic(goPanic{msg: "nil pointer dereference (*big.Float receiver in " + what + ")"})
	}
	if m.bigFloats == nil {
		m.bigFloats = map[*Obj]*big.Float{}
	}
	m.bigFloats[p.obj] = f
	return v
}

func concBig(m *Machine, v Value, what string) *big.Int {
	t := bigOf(m, v, what)
	if !t.isConst() {
		panic(abortf("%s with a symbolic big.Int (floating-point arithmetic is outside the encoder)", what))
	}
	return t.iv
}

func init() {
	const bf = "(*math/big.Float)."
	ifModel := func(name string, f func(m *Machine, g *Goroutine, a []Value) Value) {
		prev := icTable[name]
		reg(name, func(m *Machine, g *Goroutine, c *callCtx) (Value, stepStatus) {
			if m.realBig() && prev != nil {
				return prev(m, g, c)
			}
			return f(m, g, c.args), stNext
		})
	}
	ifModel("math/big.NewFloat", func(m *Machine, g *Goroutine, a []Value) Value {
		x, ok := a[0].(FloatVal)
		f, conc := x.concrete()
		if !ok || !conc {
			panic(abortf("big.NewFloat of a symbolic float64"))
		}
		ft := m.namedType("math/big", "Float")
		v := PtrVal{obj: m.newObj(m.zero(ft), ft, "big.Float")}
		return m.setBigFloat(v, big.NewFloat(f), "NewFloat")
	})
	ifModel(bf+"SetInt", func(m *Machine, g *Goroutine, a []Value) Value {
		return m.setBigFloat(a[0], new(big.Float).SetInt(concBig(m, a[1], "Float.SetInt")), "SetInt")
	})
	ifModel(bf+"SetFloat64", func(m *Machine, g *Goroutine, a []Value) Value {
		f, conc := a[1].(FloatVal).concrete()
		if !conc {
			panic(abortf("Float.SetFloat64 of a symbolic float64"))
		}
		return m.setBigFloat(a[0], new(big.Float).SetFloat64(f), "SetFloat64")
	})
	for name, op := range map[string]func(z, x, y *big.Float) *big.Float{
		"Mul": (*big.Float).Mul, "Quo": (*big.Float).Quo, "Add": (*big.Float).Add, "Sub": (*big.Float).Sub,
	} {
		name, op := name, op
		ifModel(bf+name, func(m *Machine, g *Goroutine, a []Value) Value {
			x, y := m.bigFloatOf(a[1], name), m.bigFloatOf(a[2], name)
			z := new(big.Float).Copy(m.bigFloatOf(a[0], name)) // keeps the receiver's precision / mode
			return m.setBigFloat(a[0], op(z, x, y), name)
		})
	}
	ifModel(bf+"Int", func(m *Machine, g *Goroutine, a []Value) Value {
		res, acc := m.bigFloatOf(a[0], "Float.Int").Int(nil)
		var z Value
		if p, ok := a[1].(PtrVal); ok && p.obj != nil {
			m.bigWrite(p)
			m.store(p, BigVal{mkIntBig(res)})
			z = p
		} else {
			z = m.newBig(mkIntBig(res))
		}
		return TupleVal{z, mkInt(int64(acc))}
	})
	ifModel(bf+"Cmp", func(m *Machine, g *Goroutine, a []Value) Value {
		return mkInt(int64(m.bigFloatOf(a[0], "Float.Cmp").Cmp(m.bigFloatOf(a[1], "Float.Cmp"))))
	})
	ifModel(bf+"Sign", func(m *Machine, g *Goroutine, a []Value) Value {
		return mkInt(int64(m.bigFloatOf(a[0], "Float.Sign").Sign()))
	})
}
