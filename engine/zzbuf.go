package main

// (*bytes.Buffer).Write: concrete bytes extend the buffer's text; one encoded value (a blob, as
// json.Encoder hands it over) becomes the buffer's content. Both are write accesses for the
// data-race analysis; Bytes is a read access.

func init() {
	regV("(*bytes.Buffer).Write", func(m *Machine, g *Goroutine, a []Value) Value {
		p := a[0].(PtrVal)
		if p.obj == nil {
			panic(goPanic{msg: "nil pointer dereference (bytes.Buffer.Write)"})
		}
		if m.race.on {
			m.raceObj(p.obj, p.path, true)
		}
		if bl := blobOf(a[1]); bl != nil {
			if m.builders[p.obj] != "" {
				panic(abortf("bytes.Buffer: an encoded value appended to non-empty text is outside the model"))
			}
			m.bufBlobs[p.obj] = bl
			return TupleVal{m.blobLen(bl), IfaceVal{}}
		}
		b, ok := concreteBytes(a[1])
		if !ok {
			panic(abortf("bytes.Buffer.Write of %s", describe(a[1])))
		}
		m.builders[p.obj] += string(b)
		return TupleVal{mkInt(int64(len(b))), IfaceVal{}}
	})
	prevBytes := icTable["(*bytes.Buffer).Bytes"]
	regV("(*bytes.Buffer).Bytes", func(m *Machine, g *Goroutine, a []Value) Value {
		if p, ok := a[0].(PtrVal); ok && p.obj != nil && m.race.on {
			m.raceObj(p.obj, p.path, false)
		}
		v, _ := prevBytes(m, g, &callCtx{args: a})
		return v
	})
	prevReset := icTable["(*bytes.Buffer).Reset"]
	regV("(*bytes.Buffer).Reset", func(m *Machine, g *Goroutine, a []Value) Value {
		if p, ok := a[0].(PtrVal); ok && p.obj != nil {
			delete(m.bufBlobs, p.obj)
		}
		v, _ := prevReset(m, g, &callCtx{args: a})
		return v
	})
}
