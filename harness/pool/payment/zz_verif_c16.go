package payment

import (
	"context"
	"encoding/json"
	"math/big"

	"github.com/vipnode/vipnode/v2/agent"
	"github.com/vipnode/vipnode/v2/internal/verifapi"
	"github.com/vipnode/vipnode/v2/jsonrpc2"
	"github.com/vipnode/vipnode/v2/pool"
	"github.com/vipnode/vipnode/v2/pool/status"
	"github.com/vipnode/vipnode/v2/pool/store/memory"
)

// verifPoolServer registers exactly what the pool binary registers (pool.go).
func verifPoolServer() *jsonrpc2.Server {
	db := memory.New()
	p := pool.New(db, nil)
	srv := &jsonrpc2.Server{}
	if err := srv.Register("vipnode_", p, "connect", "disconnect", "ping", "update", "peer", "client", "host"); err != nil {
		verifapi.Observe("err", err.Error())
		verifapi.Unreachable("c16.register-pool")
	}
	pay := &PaymentService{NonceStore: db, AccountStore: db, BalanceStore: db,
		WithdrawFee: func(a *big.Int) *big.Int { return a }, WithdrawMin: big.NewInt(1)}
	if err := srv.Register("pool_", pay); err != nil {
		verifapi.Unreachable("c16.register-payment")
	}
	dash := &status.PoolStatus{Store: db, Version: "v"}
	if err := srv.Register("pool_", dash); err != nil {
		verifapi.Unreachable("c16.register-status")
	}
	return srv
}

type verifEndpoint struct {
	name  string
	kinds []string // JSON kinds of the positional parameters
}

var verifDocumented = []verifEndpoint{
	{"vipnode_connect", []string{"string", "string", "number", "object"}},
	{"vipnode_update", []string{"string", "string", "number", "object"}},
	{"vipnode_peer", []string{"string", "string", "number", "object"}},
	{"vipnode_client", []string{"string", "string", "number", "object"}},
	{"vipnode_host", []string{"string", "string", "number", "object"}},
	{"vipnode_ping", []string{}},
	{"pool_account", []string{"string"}},
	{"pool_addNode", []string{"string", "string", "number", "string"}},
	{"pool_withdraw", []string{"string", "string", "number"}},
	{"pool_status", []string{}},
}

func verifCall(srv *jsonrpc2.Server, method string, params []byte) *jsonrpc2.Message {
	id, _ := json.Marshal(7)
	return srv.Handle(context.Background(), &jsonrpc2.Message{ID: id, Version: jsonrpc2.Version, Request: &jsonrpc2.Request{Method: method, Params: params}})
}

// VerifC16Names: the pool's server answers exactly the documented names; any
// other name (an arbitrary string: case variants, unexported or helper
// methods, unknown names) gets method-not-found and runs nothing.
func VerifC16Names() {
	srv := verifPoolServer()
	method := verifapi.StrAtom("method")
	before := verifapi.ReflectCalls()
	resp := verifCall(srv, method, verifapi.JSONArgs(true))
	verifapi.Reach("c16.names")
	documented := false
	for _, d := range verifDocumented {
		if method == d.name {
			documented = true
		}
	}
	notFound := resp.Response != nil && resp.Error != nil && resp.Error.Code == jsonrpc2.ErrCodeMethodNotFound
	if documented {
		verifapi.Assert(!notFound, "c16.documented-name-is-served")
	} else {
		verifapi.Assert(notFound, "c16.undocumented-name-is-method-not-found")
		verifapi.Assert(verifapi.ReflectCalls() == before, "c16.undocumented-name-runs-nothing")
	}
	verifapi.Assert(string(resp.ID) == "7" && resp.Version == jsonrpc2.Version, "c16.reply-carries-request-id")
}

// VerifC16Params: for each documented call, every arity 0..n+1 and, per
// position, the right or a wrong JSON kind: invalid-params unless arity and
// kinds are exactly the declared ones; only then is the method run, once.
func VerifC16Params() {
	srv := verifPoolServer()
	ep := verifDocumented[verifapi.Choose("endpoint", len(verifDocumented))]
	n := len(ep.kinds)
	arity := verifapi.Choose("arity", n+2)
	isArray := verifapi.Bool("isarray")
	all := []string{"string", "number", "bool", "object", "array"}
	ok := isArray && arity == n
	kinds := make([]string, arity)
	for i := 0; i < arity; i++ {
		// per position: the declared kind, or one of two other kinds
		k := verifapi.Choose("kind"+string(rune('0'+i)), 3)
		if i < n && k == 0 {
			kinds[i] = ep.kinds[i]
			continue
		}
		for _, cand := range all {
			if i >= n || cand != ep.kinds[i] {
				if k <= 1 {
					kinds[i] = cand
					break
				}
				k--
			}
		}
		ok = false
	}
	if !isArray && n == 0 {
		// methods without parameters never look at params that are not an array... they do: non-array is invalid
	}
	before := verifapi.ReflectCalls()
	resp := verifCall(srv, ep.name, verifapi.JSONArgs(isArray, kinds...))
	verifapi.Reach("c16.params")
	if resp.Response != nil && resp.Error != nil {
		verifapi.Observe("errmsg", resp.Error.Message)
		verifapi.Observe("errcode", resp.Error.Code)
	}
	invalid := resp.Response != nil && resp.Error != nil && resp.Error.Code == jsonrpc2.ErrCodeInvalidParams
	ran := verifapi.ReflectCalls() - before
	if ok {
		verifapi.Assert(!invalid, "c16.well-formed-call-accepted")
		verifapi.Assert(ran == 1, "c16.well-formed-call-runs-the-method-once")
	} else {
		verifapi.Assert(invalid, "c16.wrong-arity-or-type-is-invalid-params")
		verifapi.Assert(ran == 0, "c16.invalid-params-does-not-run-the-method")
	}
	verifapi.Assert(resp.Response != nil && (resp.Error != nil || len(resp.Result) > 0), "c16.reply-has-result-or-error")
}

// VerifC16Agent: the agent's reverse-RPC server exposes vipnode_whitelist and nothing else.
func VerifC16Agent() {
	var svc agent.Service = &agent.Agent{EthNode: agent.VerifFakeNode()}
	srv := &jsonrpc2.Server{}
	if err := srv.RegisterMethod("vipnode_whitelist", svc, "Whitelist"); err != nil {
		verifapi.Unreachable("c16.register-agent")
	}
	method := verifapi.StrAtom("method")
	resp := verifCall(srv, method, verifapi.JSONArgs(true, "string"))
	verifapi.Reach("c16.agent")
	notFound := resp.Error != nil && resp.Error.Code == jsonrpc2.ErrCodeMethodNotFound
	if method == "vipnode_whitelist" {
		verifapi.Assert(!notFound, "c16.agent-whitelist-served")
	} else {
		verifapi.Assert(notFound, "c16.agent-serves-nothing-else")
	}
}

// VerifC16NoParams: a call that omits params (or sends null) has too few
// parameters unless the method takes none: invalid-params, method not run.
func VerifC16NoParams() {
	srv := verifPoolServer()
	ep := verifDocumented[verifapi.Choose("endpoint", len(verifDocumented))]
	var params []byte
	if verifapi.Bool("null") {
		params = []byte("null")
	}
	before := verifapi.ReflectCalls()
	resp := verifCall(srv, ep.name, params)
	verifapi.Reach("c16.noparams")
	ran := verifapi.ReflectCalls() - before
	if len(ep.kinds) == 0 {
		verifapi.Assert(ran == 1, "c16.parameterless-call-without-params-runs")
		return
	}
	verifapi.Assert(ran == 0, "c16.missing-params-does-not-run-the-method")
	verifapi.Assert(resp.Response != nil && resp.Error != nil, "c16.missing-params-is-an-error")
	verifapi.Class("missing-params-reported-as-internal-error", true)
	verifapi.Assert(resp.Response != nil && resp.Error != nil && resp.Error.Code == jsonrpc2.ErrCodeInvalidParams, "c16.missing-params-is-invalid-params")
}
