package pool

import (
	"context"
	"errors"
	"fmt"
	"math/big"
	"time"

	"github.com/vipnode/vipnode/v2/ethnode"
	"github.com/vipnode/vipnode/v2/internal/verifapi"
	"github.com/vipnode/vipnode/v2/internal/verifmodels/sigs"
	"github.com/vipnode/vipnode/v2/jsonrpc2"
	"github.com/vipnode/vipnode/v2/pool/balance"
	"github.com/vipnode/vipnode/v2/pool/store"
)

var verifSeq int

func verifTick() int { verifSeq++; return verifSeq }

type VerifCall struct {
	Method string
	Arg    string
	Seq    int // when the call was received
	Done   int // when it was acknowledged (0 = not acknowledged)
}

// VerifHost is a host connection stub: a jsonrpc2.Service whose every call is
// acknowledged, refused, or left unanswered until the caller's deadline —
// chosen symbolically per call (behaviours = how many of those are allowed).
type VerifHost struct {
	Name       string
	Addr       string
	Behaviours int
	Calls      []VerifCall
	Closed     bool
}

func (h *VerifHost) RemoteAddr() string { return h.Addr }

func (h *VerifHost) Call(ctx context.Context, result interface{}, method string, params ...interface{}) error {
	arg := ""
	if len(params) > 0 {
		arg, _ = params[0].(string)
	}
	ix := len(h.Calls)
	h.Calls = append(h.Calls, VerifCall{Method: method, Arg: arg, Seq: verifTick()})
	k := 0
	if h.Behaviours > 1 {
		k = verifapi.Choose(fmt.Sprintf("%s.%s.%d", h.Name, method, ix), h.Behaviours)
	}
	switch k {
	case 0:
		verifapi.Yield()
		h.Calls[ix].Done = verifTick()
		return nil
	case 1:
		return errors.New("host refused")
	default:
		<-ctx.Done()
		return ctx.Err()
	}
}

func (h *VerifHost) Count(method, arg string) int {
	n := 0
	for _, c := range h.Calls {
		if c.Method == method && c.Arg == arg {
			n++
		}
	}
	return n
}

func (h *VerifHost) Acked(method, arg string) int {
	for _, c := range h.Calls {
		if c.Method == method && c.Arg == arg && c.Done > 0 {
			return c.Done
		}
	}
	return 0
}

// VerifDeposits is the BalanceStore proxy that adds the on-chain deposit
// (mirrors payment.contractPayment: Deposit from the contract, Credit from the store).
type VerifDeposits struct {
	store.Store
	Deposit map[store.Account]*big.Int
}

func (d *VerifDeposits) GetNodeBalance(id store.NodeID) (store.Balance, error) {
	b, err := d.Store.GetNodeBalance(id)
	if err == nil && b.Account != "" {
		if dep, ok := d.Deposit[b.Account]; ok {
			b.Deposit = *new(big.Int).Set(dep)
		}
	}
	return b, err
}

func (d *VerifDeposits) GetAccountBalance(a store.Account) (store.Balance, error) {
	b, err := d.Store.GetAccountBalance(a)
	if err == nil {
		if dep, ok := d.Deposit[a]; ok {
			b.Deposit = *new(big.Int).Set(dep)
		}
	}
	return b, err
}

type verifMgr interface {
	balance.Manager
}

// VerifNewPool builds a pool over db with the production pay-per-interval manager.
func VerifNewPool(db store.Store, bs store.BalanceStore, price *big.Int, interval time.Duration, min *big.Int) *VipnodePool {
	mgr := balance.PayPerInterval(bs, interval, price)
	mgr.MinBalance = min
	p := New(db, mgr)
	return p
}

var verifNonce int64

// VerifBlockNumber is the block number the next keep-alives report (harnesses may vary it: a node's
// head can lag or be reorganised, so reported numbers are not monotonic).
var VerifBlockNumber uint64 = 1

// VerifFreshNonce returns a fresh, strictly increasing nonce inside the freshness window.
func VerifFreshNonce() int64 {
	n := verifapi.Now().UnixNano()
	if n <= verifNonce {
		n = verifNonce + 1
	}
	verifNonce = n
	return n
}

// VerifPeerEnodeForm: peers are reported the way recent geth does - the id field holds a hash, the node id
// (public key) travels inside an enode URI.
var VerifPeerEnodeForm bool

func VerifPeerInfos(ids ...string) []ethnode.PeerInfo {
	r := []ethnode.PeerInfo{}
	for i, id := range ids {
		pi := ethnode.PeerInfo{ID: id}
		if VerifPeerEnodeForm {
			pi.ID = fmt.Sprintf("%064x", 0xabc0+i)
			pi.Enode = "enode://" + id + "@192.0.2.77:30303"
		}
		r = append(r, pi)
	}
	return r
}

// VerifUpdate performs a correctly signed vipnode_update.
func VerifUpdate(p *VipnodePool, ctx context.Context, nodeID string, peers ...string) (*UpdateResponse, error) {
	req := UpdateRequest{PeerInfo: VerifPeerInfos(peers...), BlockNumber: VerifBlockNumber}
	nonce := VerifFreshNonce()
	sig := sigs.SignFor(nodeID, "vipnode_update", nonce, req)
	return p.Update(ctx, sig, nodeID, nonce, req)
}

// VerifConnect performs a correctly signed vipnode_connect on connection svc.
// verifLegacySeq numbers the registrations that may go through the deprecated endpoint.
var verifLegacySeq int

// VerifRegisterHost registers a host with vipnode_connect or - with the
// harness parameter legacy_host=1, as a symbolic choice per registration -
// with the deprecated vipnode_host endpoint, which is documented as a
// backport onto the same code.
func VerifRegisterHost(p *VipnodePool, ctx context.Context, nodeID string, req ConnectRequest) error {
	nonce := VerifFreshNonce()
	verifLegacySeq++
	if verifapi.Param("legacy_host", 0) == 1 && verifapi.Bool(fmt.Sprint("via-vipnode_host#", verifLegacySeq)) {
		hreq := HostRequest{Kind: req.NodeInfo.Kind.String(), Payout: req.Payout, NodeURI: req.NodeURI}
		_, err := p.Host(ctx, sigs.SignFor(nodeID, "vipnode_host", nonce, hreq), nodeID, nonce, hreq)
		return err
	}
	_, err := p.Connect(ctx, sigs.SignFor(nodeID, "vipnode_connect", nonce, req), nodeID, nonce, req)
	return err
}

func VerifConnect(p *VipnodePool, svc *VerifHost, nodeID string, full bool, payout string) (*ConnectResponse, error) {
	return VerifConnectSvc(p, svc, nodeID, full, payout)
}

// VerifConn is a host connection stub that also reports whether it has ended (as jsonrpc2.Remote does).
type VerifConn struct{ VerifHost }

func (c *VerifConn) Closed() bool { return c.VerifHost.Closed }

// VerifConnectSvc is VerifConnect on an arbitrary connection object.
func VerifConnectSvc(p *VipnodePool, svc jsonrpc2.Service, nodeID string, full bool, payout string) (*ConnectResponse, error) {
	req := ConnectRequest{NodeInfo: ethnode.UserAgent{Kind: ethnode.Geth, IsFullNode: full}, Payout: payout}
	if full && verifapi.Param("legacy_host", 0) == 1 {
		err := VerifRegisterHost(p, jsonrpc2.VerifCtxWithService(context.Background(), svc), nodeID, req)
		if err != nil {
			return nil, err
		}
		return &ConnectResponse{}, nil
	}
	nonce := VerifFreshNonce()
	sig := sigs.SignFor(nodeID, "vipnode_connect", nonce, req)
	ctx := jsonrpc2.VerifCtxWithService(context.Background(), svc)
	return p.Connect(ctx, sig, nodeID, nonce, req)
}

// VerifTotalCredit sums credit over all wallet accounts and trial balances through the public getters.
func VerifTotalCredit(db store.Store, nodes []store.NodeID, wallets []store.Account) *big.Int {
	total := new(big.Int)
	for _, w := range wallets {
		b, _ := db.GetAccountBalance(w)
		total.Add(total, &b.Credit)
	}
	for _, id := range nodes {
		linked := false
		for _, w := range wallets {
			if db.IsAccountNode(w, id) == nil {
				linked = true
			}
		}
		if !linked {
			if b, err := db.GetNodeBalance(id); err == nil {
				total.Add(total, &b.Credit)
			}
		}
	}
	return total
}

// VerifRegisterRemote registers svc as the live connection of host id (what connect does for hosts).
func VerifRegisterRemote(p *VipnodePool, id store.NodeID, svc jsonrpc2.Service) {
	p.mu.Lock()
	p.remoteHosts[id] = svc
	p.remoteNodeLookup[svc] = id
	p.mu.Unlock()
}

// VerifSignOldUpdate signs the deprecated vipnode_update form (peers, block number only).
func VerifSignOldUpdate(nodeID string, nonce int64, peers []string, blockNumber uint64) string {
	return sigs.SignFor(nodeID, "vipnode_update", nonce, oldUpdateRequest{peers, blockNumber})
}

// VerifIsVerifyFailed reports whether err is the pool's authentication error.
func VerifIsVerifyFailed(err error) bool {
	_, ok := err.(VerifyFailedError)
	return ok
}

// VerifSkipNonces moves the fresh-nonce counter ahead by n.
func VerifSkipNonces(n int64) {
	if verifNonce == 0 {
		verifNonce = verifapi.Now().UnixNano()
	}
	verifNonce += n
}

// VerifIsLowBalance reports whether err is the balance manager's cut-off error.
func VerifIsLowBalance(err error) bool {
	_, ok := err.(balance.LowBalanceError)
	return ok
}
