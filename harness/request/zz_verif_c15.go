package request

import (
	"github.com/vipnode/vipnode/v2/internal/verifapi"
)

// VerifC15Verify: signature verification never panics, whatever the
// signature string decodes to (bytes of any length, or a decode error). The
// codecs and crypto primitives return arbitrary values of their types (havoc);
// the claimed identities are well-formed so that the native replay gets past
// the identity parsing too.
func VerifC15Verify() {
	sig := verifapi.StrAtom("sig")
	method := "vipnode_connect"
	nonce := verifapi.Int64("nonce")
	var err error
	switch verifapi.Choose("entry", 3) {
	case 0:
		err = NodeRequest{Method: method, NodeID: verifapi.NodeID(0), Nonce: nonce, ExtraArgs: []interface{}{"x"}}.Verify(sig)
	case 1:
		err = AddressRequest{Method: method, Address: verifapi.Wallet(0), Nonce: nonce, ExtraArgs: []interface{}{"x"}}.Verify(sig)
	default:
		id := []string{verifapi.NodeID(0), verifapi.Wallet(0), "", "short"}[verifapi.Choose("identity", 4)]
		err = Verify(sig, method, id, nonce, "x")
	}
	verifapi.Reach("c15.verify-returned")
	_ = err
}
