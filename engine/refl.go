package main

func (m *Machine) reflTypeMethod(r *ReflType, method string, args []Value) Value {
	panic(abortf("reflect.Type.%s is not modelled", method))
}
