//go:build !verifreplay

package main

import (
	"context"
	"net/http"

	"github.com/vipnode/vipnode/v2/internal/verifapi"
	"github.com/vipnode/vipnode/v2/jsonrpc2"
)

// verifServedHandler returns the handler the code under test passed to http.ListenAndServe
// (the engine's net/http model records it and lets ListenAndServe return).
func verifServedHandler() http.Handler

// verifStartPool runs the pool command up to the point where it listens and
// returns a function that sends one message to the server it built.
func verifStartPool(opts Options) func(*jsonrpc2.Message) *jsonrpc2.Message {
	runPool(opts)
	srv, ok := verifServedHandler().(*server)
	if !ok {
		verifapi.Unreachable("c16.binary-starts-listening")
		return func(*jsonrpc2.Message) *jsonrpc2.Message { return nil }
	}
	return func(m *jsonrpc2.Message) *jsonrpc2.Message { return srv.Handle(context.Background(), m) }
}
