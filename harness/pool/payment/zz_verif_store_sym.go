package payment

import (
	"github.com/vipnode/vipnode/v2/internal/verifapi"
	"github.com/vipnode/vipnode/v2/pool/store"
	"github.com/vipnode/vipnode/v2/pool/store/badger"
	"github.com/vipnode/vipnode/v2/pool/store/memory"
)

func newVerifStore() store.Store {
	if verifapi.Param("driver", 0) == 1 {
		return badger.VerifOpen()
	}
	return memory.New()
}
