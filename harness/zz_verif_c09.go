package main

import (
	"errors"
	"io"
	"net/http"
	"net/url"

	"github.com/vipnode/vipnode/v2/ethnode"
	"github.com/vipnode/vipnode/v2/internal/verifapi"
	"github.com/vipnode/vipnode/v2/internal/verifmodels/sigs"
	"github.com/vipnode/vipnode/v2/jsonrpc2"
	"github.com/vipnode/vipnode/v2/pool"
	"github.com/vipnode/vipnode/v2/pool/store"
	"github.com/vipnode/vipnode/v2/pool/store/memory"
)

// verifWSCodec is the upgraded websocket connection: it delivers a script of
// messages; once the script is exhausted the peer has closed the connection.
type verifWSCodec struct {
	script  []*jsonrpc2.Message
	next    int
	replies []*jsonrpc2.Message
	hold    chan struct{} // when set, the connection stays open after the script until hold is closed
	closed  bool
	endErr  error // how the session ends: nil = io.EOF, else e.g. a websocket close frame the codec does not map to EOF
}

func (c *verifWSCodec) ReadMessage() (*jsonrpc2.Message, error) {
	if c.next < len(c.script) {
		m := c.script[c.next]
		c.next++
		return m, nil
	}
	if c.hold != nil {
		<-c.hold
	}
	if c.endErr != nil {
		return nil, c.endErr
	}
	return nil, io.EOF
}
func (c *verifWSCodec) WriteMessage(m *jsonrpc2.Message) error {
	if c.closed {
		return errors.New("write on closed connection")
	}
	c.replies = append(c.replies, m)
	return nil
}
func (c *verifWSCodec) Close() error       { c.closed = true; return nil }
func (c *verifWSCodec) RemoteAddr() string { return "192.0.2.7:4000" }

type verifUpgrader struct{ codec jsonrpc2.Codec }

func (u *verifUpgrader) Upgrade(r *http.Request, w http.ResponseWriter, h http.Header) (jsonrpc2.Codec, error) {
	return u.codec, nil
}

type verifRespWriter struct {
	hdr  http.Header
	code int
}

func (w *verifRespWriter) Header() http.Header         { return w.hdr }
func (w *verifRespWriter) Write(p []byte) (int, error) { return len(p), nil }
func (w *verifRespWriter) WriteHeader(c int)           { w.code = c }

// VerifC09Server: the pool command's own HTTP handler (server.ServeHTTP) runs
// a websocket session on which a full node registers as a host; when the
// connection ends the pool must not keep the host registered on it. Covers
// the chain server.ServeHTTP -> Remote.Serve -> handleRequest (goroutine) ->
// Server.Handle -> VipnodePool.Connect and, at the end of the session,
// onDisconnect = VipnodePool.CloseRemote, over all delay-bounded schedules of
// the handler goroutine against the end of the session.
func VerifC09Server() {
	db := memory.New()
	p := pool.New(db, nil)
	handler := &server{header: http.Header{}, onDisconnect: p.CloseRemote}
	if err := handler.Register("vipnode_", p, "connect", "disconnect", "ping", "update", "peer", "client", "host"); err != nil {
		verifapi.Unreachable("c09.server-register")
	}
	t0 := verifapi.Time("t0")
	verifapi.SetNow(t0)
	id := verifapi.NodeID(1)
	req := pool.ConnectRequest{VipnodeVersion: "v", NodeInfo: ethnode.UserAgent{Kind: ethnode.Geth, IsFullNode: true}}
	nonce := pool.VerifFreshNonce()
	msg, err := (&jsonrpc2.Client{}).Request("vipnode_connect", sigs.SignFor(id, "vipnode_connect", nonce, req), id, nonce, req)
	if err != nil {
		verifapi.Unreachable("c09.server-request")
	}
	codec := &verifWSCodec{script: []*jsonrpc2.Message{msg}}
	if verifapi.Bool("stray-reply") {
		// the host also sends a reply nobody is waiting for (a late answer to a whitelist call that
		// timed out, or an unknown id): the session must still end, and be cleaned up, when it closes
		codec.script = append(codec.script, &jsonrpc2.Message{ID: []byte("4242"), Version: jsonrpc2.Version, Response: &jsonrpc2.Response{Result: []byte("null")}})
	}
	if verifapi.Bool("ends-with-error") {
		codec.endErr = errors.New("websocket: close 1000 (normal)")
	}
	open := verifapi.Param("stayopen", 0) == 1
	if open {
		codec.hold = make(chan struct{})
	}
	handler.ws = &verifUpgrader{codec: codec}
	r := &http.Request{Method: http.MethodGet, URL: &url.URL{Path: "/"}, RemoteAddr: codec.RemoteAddr()}
	done := make(chan struct{})
	go func() {
		handler.ServeHTTP(&verifRespWriter{hdr: http.Header{}}, r)
		close(done)
	}()
	if open {
		// the connection is still up: the host gets registered on it
		verifapi.Quiesce()
		verifapi.Assert(p.NumRemotes() == 1, "c09.server.live-connection-registered")
		_, err := db.GetNode(store.NodeID(id))
		verifapi.Assert(err == nil, "c09.server.host-stored")
		close(codec.hold)
	}
	<-done
	verifapi.Quiesce()
	verifapi.Reach("c09.server")
	verifapi.Assert(codec.closed, "c09.server.connection-closed")
	verifapi.Assert(p.NumRemotes() == 0, "c09.server.closed-connection-not-registered")
}
