//go:build verifreplay

package badger

import (
	"github.com/dgraph-io/badger/v2"
	"github.com/vipnode/vipnode/v2/pool/store"
)

func verifDB() *badger.DB {
	db, err := badger.Open(badger.DefaultOptions("").WithInMemory(true).WithLogger(nil))
	if err != nil {
		panic(err)
	}
	return db
}

func verifOpen() *badgerStore {
	return &badgerStore{db: verifDB(), nonceExpire: store.ExpireNonce}
}

func VerifOpen() store.Store { return verifOpen() }
