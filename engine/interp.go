package main

import (
	"go/constant"
	"go/token"
	"go/types"
	"math/big"

	"golang.org/x/tools/go/ssa"
)

func (m *Machine) constVal(c *ssa.Const) Value {
	t := c.Type()
	if c.Value == nil {
		return m.zero(t)
	}
	switch c.Value.Kind() {
	case constant.Bool:
		return mkBool(constant.BoolVal(c.Value))
	case constant.String:
		return StrVal{s: constant.StringVal(c.Value)}
	case constant.Int:
		if isFloatType(t) {
			return OpaqueVal{typ: t, tag: "float:" + c.Value.ExactString()}
		}
		v, ok := new(big.Int).SetString(c.Value.ExactString(), 10)
		if !ok {
			panic(abortf("bad int const %s", c.Value.ExactString()))
		}
		return mkIntBig(v)
	case constant.Float, constant.Complex:
		if isIntType(t) {
			if i := constant.ToInt(c.Value); i.Kind() == constant.Int {
				v, _ := new(big.Int).SetString(i.ExactString(), 10)
				return mkIntBig(v)
			}
		}
		return OpaqueVal{typ: t, tag: "float:" + c.Value.ExactString()}
	}
	panic(abortf("unsupported constant %v", c))
}

func (m *Machine) get(fr *Frame, v ssa.Value) Value {
	switch x := v.(type) {
	case *ssa.Const:
		return m.constVal(x)
	case *ssa.Global:
		return PtrVal{obj: m.global(x)}
	case *ssa.Function:
		return FuncVal{fn: x}
	case *ssa.Builtin:
		return FuncVal{native: &NativeFn{name: "builtin:" + x.Name()}}
	}
	r, ok := fr.locals[v]
	if !ok {
		panic(abortf("use of undefined SSA value %s in %s", v.Name(), fr.fn.String()))
	}
	return r
}

func (m *Machine) global(g *ssa.Global) *Obj {
	if o, ok := m.globals[g]; ok {
		return o
	}
	elem := g.Type().(*types.Pointer).Elem()
	var v Value
	if g.Pkg != nil && !m.ld.isRepoPkg(g.Pkg.Pkg.Path()) {
		v = m.externGlobal(g, elem)
	} else {
		v = m.zero(elem)
	}
	o := m.newObj(v, elem, g.String())
	if g.Pkg != nil && !m.ld.isRepoPkg(g.Pkg.Pkg.Path()) && !types.Identical(elem, types.Universe.Lookup("error").Type()) && !externZeroOK[g.String()] {
		o.externUninit = true
	}
	m.globals[g] = o
	return o
}

// externZeroOK lists globals of packages whose init is not executed that may
// be read as zero values (their content is irrelevant to the models that
// receive them). Every other read of such a global is a hard error: the
// package's tables were never initialised, so interpreted library code would
// silently compute nonsense.
var externZeroOK = map[string]bool{
	"github.com/dgraph-io/badger/v2.DefaultIteratorOptions": true,
	"encoding/base64.StdEncoding":                           true,
	"encoding/base64.URLEncoding":                           true,
	"github.com/gorilla/websocket.DefaultDialer":            true,
	"os.Interrupt":                                          true, // only handed to the (no-op) os/signal.Notify
}

// externGlobal materialises globals of packages whose init is not run.
func (m *Machine) externGlobal(g *ssa.Global, elem types.Type) Value {
	if types.Identical(elem, types.Universe.Lookup("error").Type()) {
		// distinct sentinel error object per global
		return m.newErrorValue(g.Pkg.Pkg.Name() + "." + g.Name())
	}
	return m.zero(elem)
}

// jump transfers control to block b, evaluating its phis simultaneously.
func (m *Machine) jump(fr *Frame, b *ssa.BasicBlock) {
	prev := fr.block
	var idx = -1
	for i, p := range b.Preds {
		if p == prev {
			idx = i
			break
		}
	}
	n := 0
	var vals []Value
	for _, in := range b.Instrs {
		phi, ok := in.(*ssa.Phi)
		if !ok {
			break
		}
		vals = append(vals, m.get(fr, phi.Edges[idx]))
		n++
	}
	for i := 0; i < n; i++ {
		fr.locals[b.Instrs[i].(*ssa.Phi)] = vals[i]
	}
	fr.prev = prev
	fr.block = b
	fr.pc = n
}

type stepStatus int

const (
	stNext    stepStatus = iota // advance pc
	stStay                      // pc already adjusted / frame changed
	stBlocked                   // retry later
)

// step executes one instruction of goroutine g.
func (m *Machine) step(g *Goroutine) {
	fr := g.top()
	if fr.pc >= len(fr.block.Instrs) {
		panic(abortf("fell off block in %s", fr.fn.String()))
	}
	in := fr.block.Instrs[fr.pc]
	m.nInstr++
	if m.nInstr > maxInstrPerPath {
		m.truncated = true
		panic(pathEnd{"instruction-budget"})
	}
	st := m.exec(g, fr, in)
	switch st {
	case stNext:
		fr.pc++
		g.atSched = false
	case stStay:
		g.atSched = false
	case stBlocked:
	}
}

func (m *Machine) exec(g *Goroutine, fr *Frame, in ssa.Instruction) stepStatus {
	switch x := in.(type) {
	case *ssa.DebugRef:
		return stNext
	case *ssa.Alloc:
		elem := x.Type().(*types.Pointer).Elem()
		o := m.newObj(m.zero(elem), elem, x.Comment)
		fr.locals[x] = PtrVal{obj: o}
		return stNext
	case *ssa.BinOp:
		fr.locals[x] = m.binop(x.Op, m.get(fr, x.X), m.get(fr, x.Y), x.X.Type(), x.Type())
		return stNext
	case *ssa.UnOp:
		return m.unop(g, fr, x)
	case *ssa.Call:
		return m.callCommon(g, fr, &x.Call, x, "call")
	case *ssa.Go:
		return m.callCommon(g, fr, &x.Call, x, "go")
	case *ssa.Defer:
		return m.callCommon(g, fr, &x.Call, x, "defer")
	case *ssa.ChangeInterface:
		fr.locals[x] = m.get(fr, x.X)
		return stNext
	case *ssa.ChangeType:
		fr.locals[x] = m.get(fr, x.X)
		return stNext
	case *ssa.Convert:
		fr.locals[x] = m.convert(m.get(fr, x.X), x.X.Type(), x.Type())
		return stNext
	case *ssa.MakeInterface:
		fr.locals[x] = IfaceVal{typ: x.X.Type(), v: m.get(fr, x.X)}
		return stNext
	case *ssa.MakeClosure:
		fn := x.Fn.(*ssa.Function)
		b := make([]Value, len(x.Bindings))
		for i, bv := range x.Bindings {
			b[i] = m.get(fr, bv)
		}
		fr.locals[x] = FuncVal{fn: fn, bind: b}
		return stNext
	case *ssa.MakeMap:
		m.nextID++
		fr.locals[x] = MapVal{m: &MapObj{id: m.nextID, typ: x.Type().Underlying().(*types.Map)}}
		return stNext
	case *ssa.MakeChan:
		sz := m.concretize(m.get(fr, x.Size).(*Term), "chan size")
		fr.locals[x] = ChanVal{c: m.newChan(int(sz))}
		return stNext
	case *ssa.MakeSlice:
		ln := m.concretize(m.get(fr, x.Len).(*Term), "make len")
		cp := m.concretize(m.get(fr, x.Cap).(*Term), "make cap")
		if ln < 0 {
			panic(goPanic{msg: "makeslice: len out of range"})
		}
		if cp < ln {
			panic(goPanic{msg: "makeslice: cap out of range"})
		}
		if cp > 1<<40 {
			// beyond any address space: the runtime panics
			panic(goPanic{msg: "makeslice: cap out of range"})
		}
		if cp > 1<<16 {
			panic(abortf("makeslice: cap %d too large for the model (resource exhaustion is outside the claim)", cp))
		}
		elem := x.Type().Underlying().(*types.Slice).Elem()
		e := make([]Value, cp)
		for i := range e {
			e[i] = m.zero(elem)
		}
		o := m.newObj(ArrayVal{e}, types.NewArray(elem, cp), "makeslice")
		fr.locals[x] = SliceVal{arr: o, len: int(ln), cap: int(cp)}
		return stNext
	case *ssa.Extract:
		fr.locals[x] = m.get(fr, x.Tuple).(TupleVal)[x.Index]
		return stNext
	case *ssa.Field:
		fr.locals[x] = m.get(fr, x.X).(StructVal).f[x.Field]
		return stNext
	case *ssa.FieldAddr:
		p := m.get(fr, x.X).(PtrVal)
		if p.obj == nil {
			panic(goPanic{msg: "nil pointer dereference (field " + x.String() + ")"})
		}
		fr.locals[x] = PtrVal{obj: p.obj, path: extPath(p.path, x.Field)}
		return stNext
	case *ssa.Index:
		fr.locals[x] = m.index(m.get(fr, x.X), m.get(fr, x.Index).(*Term))
		return stNext
	case *ssa.IndexAddr:
		fr.locals[x] = m.indexAddr(m.get(fr, x.X), m.get(fr, x.Index).(*Term))
		return stNext
	case *ssa.Lookup:
		fr.locals[x] = m.lookup(m.get(fr, x.X), m.get(fr, x.Index), x)
		return stNext
	case *ssa.MapUpdate:
		mv := m.get(fr, x.Map).(MapVal)
		if mv.m == nil {
			panic(goPanic{msg: "assignment to entry in nil map"})
		}
		m.mapSet(mv.m, m.get(fr, x.Key), m.get(fr, x.Value))
		return stNext
	case *ssa.Range:
		fr.locals[x] = m.newIter(m.get(fr, x.X))
		return stNext
	case *ssa.Next:
		fr.locals[x] = m.iterNext(m.get(fr, x.Iter).(*IterObj), x)
		return stNext
	case *ssa.Phi:
		panic(abortf("stray phi in %s", fr.fn.String()))
	case *ssa.If:
		c := m.get(fr, x.Cond).(*Term)
		if m.branch(c) {
			m.jump(fr, fr.block.Succs[0])
		} else {
			m.jump(fr, fr.block.Succs[1])
		}
		return stStay
	case *ssa.Jump:
		m.jump(fr, fr.block.Succs[0])
		return stStay
	case *ssa.Return:
		var rv Value
		switch len(x.Results) {
		case 0:
		case 1:
			rv = m.get(fr, x.Results[0])
		default:
			t := make(TupleVal, len(x.Results))
			for i, r := range x.Results {
				t[i] = m.get(fr, r)
			}
			rv = t
		}
		m.doReturn(g, rv)
		return stStay
	case *ssa.RunDefers:
		if len(fr.defers) > 0 {
			d := fr.defers[len(fr.defers)-1]
			fr.defers = fr.defers[:len(fr.defers)-1]
			// run the deferred call; when it returns we come back to RunDefers
			return m.invokeValue(g, fr, d.fn, d.args, nil, func(Value) {}, true)
		}
		return stNext
	case *ssa.Panic:
		v := m.get(fr, x.X)
		panic(goPanic{msg: "panic: " + describe(v), val: v})
	case *ssa.Send:
		return m.chanSend(g, fr, m.get(fr, x.Chan).(ChanVal), m.get(fr, x.X))
	case *ssa.Select:
		return m.selectOp(g, fr, x)
	case *ssa.Slice:
		fr.locals[x] = m.sliceOp(fr, x)
		return stNext
	case *ssa.Store:
		m.store(m.get(fr, x.Addr).(PtrVal), m.get(fr, x.Val))
		return stNext
	case *ssa.TypeAssert:
		fr.locals[x] = m.typeAssert(m.get(fr, x.X), x)
		return stNext
	case *ssa.SliceToArrayPointer:
		s := m.get(fr, x.X).(SliceVal)
		if s.arr == nil {
			fr.locals[x] = PtrVal{}
		} else {
			panic(abortf("SliceToArrayPointer on non-nil slice unsupported"))
		}
		return stNext
	}
	panic(abortf("unsupported instruction %T in %s", in, fr.fn.String()))
}

// doReturn pops the top frame delivering rv.
func (m *Machine) doReturn(g *Goroutine, rv Value) {
	fr := g.top()
	g.frames = g.frames[:len(g.frames)-1]
	if fr.onReturn != nil {
		fr.onReturn(rv)
		return
	}
	if len(g.frames) == 0 {
		g.done = true
		return
	}
	caller := g.top()
	if fr.callInst != nil {
		if v, ok := fr.callInst.(ssa.Value); ok {
			caller.locals[v] = rv
		}
		caller.pc++
		g.atSched = false
	}
}

func (m *Machine) binop(op token.Token, a, b Value, xt types.Type, rt types.Type) Value {
	switch x := a.(type) {
	case *Term:
		y, ok := b.(*Term)
		if !ok {
			panic(abortf("binop %s: %T vs %T", op, a, b))
		}
		if x.sort == SBool {
			switch op {
			case token.EQL:
				return tEq(x, y)
			case token.NEQ:
				return tNot(tEq(x, y))
			case token.AND, token.LAND:
				return tAnd(x, y)
			case token.OR, token.LOR:
				return tOr(x, y)
			}
			panic(abortf("bool binop %s", op))
		}
		bits, signed := typeBits(xt)
		switch op {
		case token.ADD:
			return tWrap(tAdd(x, y), bits, signed)
		case token.SUB:
			return tWrap(tSub(x, y), bits, signed)
		case token.MUL:
			if !x.isConst() && !y.isConst() {
				m.nia++
			}
			return tWrap(tMul(x, y), bits, signed)
		case token.QUO:
			if m.branch(tEq(y, mkInt(0))) {
				panic(goPanic{msg: "integer divide by zero"})
			}
			return tWrap(tTDiv(x, y), bits, signed)
		case token.REM:
			if m.branch(tEq(y, mkInt(0))) {
				panic(goPanic{msg: "integer divide by zero"})
			}
			return tTRem(x, y)
		case token.EQL:
			return tEq(x, y)
		case token.NEQ:
			return tNot(tEq(x, y))
		case token.LSS:
			return tLt(x, y)
		case token.LEQ:
			return tLe(x, y)
		case token.GTR:
			return tGt(x, y)
		case token.GEQ:
			return tGe(x, y)
		case token.SHL, token.SHR, token.AND, token.OR, token.XOR, token.AND_NOT:
			return m.bitop(op, x, y, bits, signed)
		}
		panic(abortf("int binop %s", op))
	case StrVal:
		y := b.(StrVal)
		switch op {
		case token.ADD:
			return m.strConcat(x, y)
		case token.EQL:
			return m.strEq(x, y)
		case token.NEQ:
			return tNot(m.strEq(x, y))
		case token.LSS, token.LEQ, token.GTR, token.GEQ:
			if !x.concrete() || !y.concrete() {
				panic(abortf("ordering comparison on symbolic strings"))
			}
			switch op {
			case token.LSS:
				return mkBool(x.s < y.s)
			case token.LEQ:
				return mkBool(x.s <= y.s)
			case token.GTR:
				return mkBool(x.s > y.s)
			default:
				return mkBool(x.s >= y.s)
			}
		}
		panic(abortf("string binop %s", op))
	case OpaqueVal:
		// floats etc: result opaque; comparisons unsupported
		if isFloatType(xt) {
			switch op {
			case token.ADD, token.SUB, token.MUL, token.QUO:
				return OpaqueVal{typ: rt, tag: "float"}
			}
		}
		if op == token.EQL || op == token.NEQ {
			r := m.valueEq(a, b)
			if op == token.NEQ {
				r = tNot(r)
			}
			return r
		}
		panic(abortf("binop %s on opaque %s", op, x.tag))
	}
	if x, ok := a.(FloatVal); ok {
		if y, ok := b.(FloatVal); ok {
			// floating-point arithmetic on CONCRETE operands is done as the machine does it; symbolic
			// floats are outside the encoder
			if fx, ok1 := x.concrete(); ok1 {
				if fy, ok2 := y.concrete(); ok2 {
					switch op {
					case token.ADD:
						return FloatVal{conc: true, f: fx + fy}
					case token.SUB:
						return FloatVal{conc: true, f: fx - fy}
					case token.MUL:
						return FloatVal{conc: true, f: fx * fy}
					case token.QUO:
						return FloatVal{conc: true, f: fx / fy}
					case token.LSS:
						return mkBool(fx < fy)
					case token.LEQ:
						return mkBool(fx <= fy)
					case token.GTR:
						return mkBool(fx > fy)
					case token.GEQ:
						return mkBool(fx >= fy)
					case token.EQL:
						return mkBool(fx == fy)
					case token.NEQ:
						return mkBool(fx != fy)
					}
				}
			}
			panic(abortf("binop %s on symbolic float64 values (floating-point arithmetic is outside the encoder)", op))
		}
	}
	switch op {
	case token.EQL:
		return m.valueEq(m.normNil(a, b), m.normNil(b, a))
	case token.NEQ:
		return tNot(m.valueEq(m.normNil(a, b), m.normNil(b, a)))
	}
	panic(abortf("binop %s on %T", op, a))
}

// normNil turns an untyped nil into the zero form of the other operand's kind.
func (m *Machine) normNil(a, other Value) Value {
	if a != nil {
		return a
	}
	switch other.(type) {
	case PtrVal:
		return PtrVal{}
	case IfaceVal:
		return IfaceVal{}
	case SliceVal:
		return SliceVal{}
	case MapVal:
		return MapVal{}
	case FuncVal:
		return FuncVal{}
	case ChanVal:
		return ChanVal{}
	}
	return a
}

func (m *Machine) bitop(op token.Token, x, y *Term, bits int, signed bool) Value {
	if x.isConst() && y.isConst() {
		r := new(big.Int)
		switch op {
		case token.SHL:
			r.Lsh(x.iv, uint(y.iv.Uint64()))
		case token.SHR:
			r.Rsh(x.iv, uint(y.iv.Uint64()))
		case token.AND:
			r.And(x.iv, y.iv)
		case token.OR:
			r.Or(x.iv, y.iv)
		case token.XOR:
			r.Xor(x.iv, y.iv)
		case token.AND_NOT:
			r.AndNot(x.iv, y.iv)
		}
		return tWrap(mkIntBig(r), bits, signed)
	}
	if y.isConst() && y.iv.IsInt64() {
		k := y.iv.Int64()
		switch op {
		case token.SHL:
			if k >= 0 && k < 63 {
				return tWrap(tMul(x, mkIntBig(pow2(int(k)))), bits, signed)
			}
		case token.SHR:
			if k >= 0 && k < 63 {
				return tEDiv(x, mkIntBig(pow2(int(k)))) // floor division = arithmetic shift
			}
		case token.AND:
			// x & (2^k - 1) for unsigned or non-negative
			kk := new(big.Int).Add(y.iv, big.NewInt(1))
			if kk.Sign() > 0 && new(big.Int).And(kk, y.iv).Sign() == 0 {
				return tEMod(x, mkIntBig(kk))
			}
		}
	}
	panic(abortf("unsupported symbolic bit operation %s", op))
}

func (m *Machine) unop(g *Goroutine, fr *Frame, x *ssa.UnOp) stepStatus {
	switch x.Op {
	case token.MUL:
		p := m.get(fr, x.X).(PtrVal)
		m.noteRead(p.obj)
		fr.locals[x] = m.copySyncState(m.load(p))
		return stNext
	case token.NOT:
		fr.locals[x] = tNot(m.get(fr, x.X).(*Term))
		return stNext
	case token.SUB:
		v := m.get(fr, x.X)
		t, ok := v.(*Term)
		if !ok {
			fr.locals[x] = OpaqueVal{typ: x.Type(), tag: "float"}
			return stNext
		}
		bits, signed := typeBits(x.Type())
		fr.locals[x] = tWrap(tNeg(t), bits, signed)
		return stNext
	case token.XOR:
		t := m.get(fr, x.X).(*Term)
		bits, signed := typeBits(x.Type())
		// ^x = -x-1
		fr.locals[x] = tWrap(tSub(tNeg(t), mkInt(1)), bits, signed)
		return stNext
	case token.ARROW:
		return m.chanRecv(g, fr, x, m.get(fr, x.X).(ChanVal), x.CommaOk)
	}
	panic(abortf("unsupported unop %s", x.Op))
}

func (m *Machine) convert(v Value, from, to types.Type) Value {
	switch x := v.(type) {
	case *Term:
		if isIntType(to) {
			bits, signed := typeBits(to)
			return tWrap(x, bits, signed)
		}
		if isStringType(to) {
			// string(rune)
			if c, ok := x.constInt(); ok {
				return StrVal{s: string(rune(c))}
			}
			panic(abortf("string(symbolic int)"))
		}
		if isFloatType(to) {
			if b, ok := to.Underlying().(*types.Basic); ok && b.Kind() == types.Float64 && x.sort == SInt {
				return FloatVal{t: m.float64Of(x)}
			}
			return OpaqueVal{typ: to, tag: "float"}
		}
		if isBoolType(to) {
			return x
		}
	case FloatVal:
		if isFloatType(to) {
			return x
		}
		if isIntType(to) {
			bits, signed := typeBits(to)
			if x.conc {
				bi, _ := new(big.Float).SetFloat64(x.f).Int(nil) // truncation toward zero, as Go's conversion
				return tWrap(mkIntBig(bi), bits, signed)
			}
			return tWrap(x.t, bits, signed) // integer-valued: truncation is the identity
		}
	case StrVal:
		if isStringType(to) {
			return x
		}
		if sl, ok := to.Underlying().(*types.Slice); ok {
			if b, ok := sl.Elem().Underlying().(*types.Basic); ok && b.Kind() == types.Uint8 {
				bs := strBytes(x)
				if x.atom != nil {
					// opaque bytes with symbolic length: keep as blob
					return m.blobSlice(&Blob{kind: "atombytes", str: x})
				}
				e := make([]Value, len(bs))
				for i := range bs {
					e[i] = bs[i]
				}
				o := m.newObj(ArrayVal{e}, types.NewArray(sl.Elem(), int64(len(e))), "[]byte(string)")
				return SliceVal{arr: o, len: len(e), cap: len(e)}
			}
			if b, ok := sl.Elem().Underlying().(*types.Basic); ok && b.Kind() == types.Int32 && x.concrete() {
				rs := []rune(x.s)
				e := make([]Value, len(rs))
				for i := range rs {
					e[i] = mkInt(int64(rs[i]))
				}
				o := m.newObj(ArrayVal{e}, types.NewArray(sl.Elem(), int64(len(e))), "[]rune(string)")
				return SliceVal{arr: o, len: len(e), cap: len(e)}
			}
		}
	case SliceVal:
		if isStringType(to) {
			if x.arr == nil {
				return StrVal{}
			}
			if bl, ok := x.arr.v.(*Blob); ok {
				return m.blobString(bl)
			}
			arr := x.arr.v.(ArrayVal)
			allConst := true
			bs := make([]*Term, x.len)
			for i := 0; i < x.len; i++ {
				bs[i] = arr.e[x.off+i].(*Term)
				if !bs[i].isConst() {
					allConst = false
				}
			}
			if allConst {
				b := make([]byte, x.len)
				for i := range bs {
					b[i] = byte(bs[i].iv.Int64())
				}
				return StrVal{s: string(b)}
			}
			return StrVal{sym: bs}
		}
		return x
	case OpaqueVal:
		return OpaqueVal{typ: to, tag: x.tag}
	case PtrVal:
		return x // unsafe.Pointer conversions
	}
	panic(abortf("unsupported conversion %s -> %s (%T)", from, to, v))
}

func (m *Machine) strConcat(x, y StrVal) Value {
	if x.concrete() && y.concrete() {
		return StrVal{s: x.s + y.s}
	}
	if x.atom != nil || y.atom != nil {
		// opaque result: a fresh atom whose length is the sum
		return m.freshAtom("concat", tAdd(m.strLen(x), m.strLen(y)))
	}
	bs := append(append([]*Term{}, strBytes(x)...), strBytes(y)...)
	return StrVal{sym: bs}
}

func (m *Machine) strLen(x StrVal) *Term {
	if x.atom != nil {
		return x.alen
	}
	if x.sym != nil {
		return mkInt(int64(len(x.sym)))
	}
	return mkInt(int64(len(x.s)))
}

func (m *Machine) freshAtom(tag string, ln *Term) StrVal {
	m.nextID++
	name := sanitize(tag) + "!" + itoa(m.nextID)
	t := mkVar(name, SAtom, nil, nil)
	m.declare(t)
	if ln == nil {
		l := mkVar(name+"!len", SInt, big.NewInt(0), big.NewInt(1<<20))
		m.declare(l)
		ln = l
	}
	return StrVal{atom: t, alen: ln}
}

func itoa(i int) string {
	return big.NewInt(int64(i)).String()
}

func (m *Machine) index(c Value, idx *Term) Value {
	switch x := c.(type) {
	case ArrayVal:
		i := m.boundedIndex(idx, len(x.e))
		return x.e[i]
	case StrVal:
		bs := strBytes(x)
		if x.atom != nil {
			panic(abortf("index into atom string"))
		}
		i := m.boundedIndex(idx, len(bs))
		return bs[i]
	}
	panic(abortf("index on %T", c))
}

// boundedIndex concretises idx within [0,n) with the out-of-range case as a panic path.
func (m *Machine) boundedIndex(idx *Term, n int) int {
	if v, ok := idx.constInt(); ok {
		if v < 0 || v >= int64(n) {
			panic(goPanic{msg: "index out of range [" + idx.String() + "] with length " + itoa(n)})
		}
		return int(v)
	}
	inRange := tAnd(tLe(mkInt(0), idx), tLt(idx, mkInt(int64(n))))
	if !m.branch(inRange) {
		panic(goPanic{msg: "index out of range (symbolic) with length " + itoa(n)})
	}
	return int(m.concretize(idx, "index"))
}

func (m *Machine) indexAddr(c Value, idx *Term) Value {
	switch x := c.(type) {
	case SliceVal:
		if x.arr != nil {
			if bl, ok := x.arr.v.(*Blob); ok {
				if bl.kind == "sig" {
					// R || S are opaque; the recovery byte (index 64) is a real, mutable byte of this copy
					if v, ok := idx.constInt(); ok && v == 64 && bl.cell != nil {
						return PtrVal{obj: bl.cell}
					}
					return PtrVal{obj: m.newObj(mkInt(0), nil, "sigbyte")}
				}
				if bl.kind != "atombytes" {
					panic(abortf("IndexAddr into opaque %s blob", bl.kind))
				}
				// bytes of symbolic length: bounds check against the length, content is a fresh byte
				ln := m.strLen(bl.str)
				if !m.branch(tAnd(tLe(mkInt(0), idx), tLt(idx, ln))) {
					panic(goPanic{msg: "index out of range [" + idx.String() + "] with length " + ln.String()})
				}
				b := m.symInt("blobbyte", 8, false)
				return PtrVal{obj: m.newObj(b, nil, "blobbyte")}
			}
		}
		i := m.boundedIndex(idx, x.len)
		return PtrVal{obj: x.arr, path: []int{x.off + i}}
	case PtrVal:
		if x.obj == nil {
			panic(goPanic{msg: "nil pointer dereference (array index)"})
		}
		arr := getPath(x.obj.v, x.path).(ArrayVal)
		i := m.boundedIndex(idx, len(arr.e))
		return PtrVal{obj: x.obj, path: extPath(x.path, i)}
	}
	panic(abortf("indexAddr on %T", c))
}

func (m *Machine) sliceOp(fr *Frame, x *ssa.Slice) Value {
	base := m.get(fr, x.X)
	var lo, hi, mx *Term
	if x.Low != nil {
		lo = m.get(fr, x.Low).(*Term)
	}
	if x.High != nil {
		hi = m.get(fr, x.High).(*Term)
	}
	if x.Max != nil {
		mx = m.get(fr, x.Max).(*Term)
	}
	switch b := base.(type) {
	case StrVal:
		if b.atom != nil {
			// bounds check against symbolic length; result is a fresh atom
			ln := b.alen
			l := mkInt(0)
			if lo != nil {
				l = lo
			}
			h := ln
			if hi != nil {
				h = hi
			}
			ok := tAnd(tLe(mkInt(0), l), tLe(l, h), tLe(h, ln))
			if !m.branch(ok) {
				panic(goPanic{msg: "slice bounds out of range (string)"})
			}
			if lo == nil && hi == nil {
				return b
			}
			return m.freshAtom("substr", tSub(h, l))
		}
		bs := strBytes(b)
		n := len(bs)
		l, h := m.sliceBounds(lo, hi, nil, n, n)
		if b.concrete() {
			return StrVal{s: b.s[l:h]}
		}
		return StrVal{sym: bs[l:h]}
	case SliceVal:
		if b.arr != nil {
			if bl, ok := b.arr.v.(*Blob); ok {
				return m.blobSliceOp(b, bl, lo, hi)
			}
		}
		l, h := m.sliceBounds(lo, hi, mx, b.len, b.cap)
		ncap := b.cap - l
		if mx != nil {
			mv, _ := mx.constInt()
			ncap = int(mv) - l
		}
		if b.arr == nil {
			return SliceVal{}
		}
		return SliceVal{arr: b.arr, off: b.off + l, len: h - l, cap: ncap}
	case PtrVal:
		// slicing *array
		if b.obj == nil {
			panic(goPanic{msg: "nil pointer dereference (slice of array)"})
		}
		arr := getPath(b.obj.v, b.path).(ArrayVal)
		n := len(arr.e)
		l, h := m.sliceBounds(lo, hi, mx, n, n)
		if len(b.path) != 0 {
			panic(abortf("slice of nested array unsupported"))
		}
		return SliceVal{arr: b.obj, off: l, len: h - l, cap: n - l}
	}
	panic(abortf("slice of %T", base))
}

// sliceBounds resolves [lo:hi:max] against len n and capacity c; out of range is a panic path.
func (m *Machine) sliceBounds(lo, hi, mx *Term, n, c int) (int, int) {
	l := mkInt(0)
	if lo != nil {
		l = lo
	}
	h := mkInt(int64(n))
	limit := int64(c)
	if hi != nil {
		h = hi
	}
	ok := tAnd(tLe(mkInt(0), l), tLe(l, h), tLe(h, mkInt(limit)))
	if mx != nil {
		ok = tAnd(ok, tLe(h, mx), tLe(mx, mkInt(limit)))
	}
	if !m.branch(ok) {
		panic(goPanic{msg: "slice bounds out of range [" + l.String() + ":" + h.String() + "] with capacity " + itoa(c)})
	}
	lv := m.concretize(l, "slice low")
	hv := m.concretize(h, "slice high")
	if mx != nil {
		m.concretize(mx, "slice max")
	}
	return int(lv), int(hv)
}

func (m *Machine) typeAssert(v Value, x *ssa.TypeAssert) Value {
	iv, ok := v.(IfaceVal)
	if !ok {
		panic(abortf("type assert on %T", v))
	}
	okv := false
	var res Value
	if iv.typ != nil {
		if types.IsInterface(x.AssertedType) {
			it := x.AssertedType.Underlying().(*types.Interface)
			if nat, isNat := iv.v.(NativeIface); isNat {
				okv = nat.implements(it)
			} else {
				okv = types.Implements(iv.typ, it)
			}
			res = iv
		} else {
			okv = types.Identical(iv.typ, x.AssertedType)
			res = iv.v
		}
	}
	if !okv {
		if x.CommaOk {
			return TupleVal{m.zero(x.AssertedType), tFalse}
		}
		panic(goPanic{msg: "interface conversion: failed type assertion to " + x.AssertedType.String()})
	}
	if x.CommaOk {
		return TupleVal{res, tTrue}
	}
	return res
}

// copySyncState: loading a whole struct (or array) value that carries a sync.Mutex / RWMutex / Once copies the
// STATE of that primitive, as Go does: the copy is an independent mutex that starts out exactly as locked as the
// original was at that moment (a value receiver on a type with a mutex, a struct assignment). Values without
// such fields are returned unchanged.
func (m *Machine) copySyncState(v Value) Value {
	nv, _ := m.copySync(v)
	return nv
}

func (m *Machine) copySync(v Value) (Value, bool) {
	switch x := v.(type) {
	case StructVal:
		var out []Value
		for i, f := range x.f {
			nf, ch := m.copySync(f)
			if ch && out == nil {
				out = append([]Value{}, x.f...)
			}
			if out != nil {
				out[i] = nf
			}
		}
		if out != nil {
			return StructVal{f: out}, true
		}
	case ArrayVal:
		var out []Value
		for i, f := range x.e {
			nf, ch := m.copySync(f)
			if ch && out == nil {
				out = append([]Value{}, x.e...)
			}
			if out != nil {
				out[i] = nf
			}
		}
		if out != nil {
			return ArrayVal{e: out}, true
		}
	case *MutexObj:
		m.nextID++
		return &MutexObj{id: m.nextID, holder: x.holder, readers: x.readers, name: x.name, vc: vcCopy(x.vc), rvc: vcCopy(x.rvc)}, true
	case *OnceObj:
		return &OnceObj{done: x.done, running: x.running, vc: vcCopy(x.vc)}, true
	}
	return v, false
}
