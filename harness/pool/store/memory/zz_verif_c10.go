package memory

import (
	"math/big"

	"github.com/vipnode/vipnode/v2/internal/verifapi"
	"github.com/vipnode/vipnode/v2/pool/store"
)

// VerifC10Guarded: every method of the memory store touches its maps only
// while holding the store mutex and holds no lock when it returns.
func VerifC10Guarded() {
	s := New()
	now := verifapi.Time("now")
	verifapi.SetNow(now)
	a, b := store.NodeID(verifapi.NodeID(0)), store.NodeID(verifapi.NodeID(1))
	w := store.Account(verifapi.Wallet(0))
	s.SetNode(store.Node{ID: a, LastSeen: now})
	s.SetNode(store.Node{ID: b, IsHost: true, Kind: "geth", LastSeen: now})
	s.AddAccountNode(w, a)
	s.UpdateNodePeers(a, []string{string(b)}, 1)
	for _, n := range s.nodes {
		verifapi.GuardedBy(n.peers, &s.mu)
	}
	verifapi.GuardedBy(s.balances, &s.mu)
	verifapi.GuardedBy(s.nodes, &s.mu)
	verifapi.GuardedBy(s.accounts, &s.mu)
	verifapi.GuardedBy(s.trials, &s.mu)
	verifapi.GuardedBy(s.nonces, &s.mu)
	id := []store.NodeID{a, b, "x"}[verifapi.Choose("id", 3)]
	switch verifapi.Choose("method", 15) {
	case 0:
		s.CheckAndSaveNonce(string(id), verifapi.Int64("nonce"))
	case 1:
		s.GetNodeBalance(id)
	case 2:
		s.AddNodeBalance(id, big.NewInt(5))
	case 3:
		s.GetAccountBalance(w)
	case 4:
		s.AddAccountBalance(w, big.NewInt(5))
	case 5:
		s.AddAccountNode(w, id)
	case 6:
		s.IsAccountNode(w, id)
	case 7:
		s.GetAccountNodes(w)
	case 8:
		s.GetNode(id)
	case 9:
		s.SetNode(store.Node{ID: id, LastSeen: now})
	case 10:
		s.RemoveNode(id)
	case 11:
		s.ActiveHosts("", verifapi.Choose("limit", 3))
	case 12:
		s.NodePeers(id)
	case 13:
		s.UpdateNodePeers(id, []string{string(a), string(b)}, 2)
	case 14:
		s.Stats()
	}
	verifapi.Reach("c10.guarded.memory")
	verifapi.Assert(verifapi.LocksHeld() == 0, "c10.no-lock-held-at-return")
	verifapi.Unguard()
}

// VerifC10Snapshots (real math/big code, concrete amounts): a balance or node
// record handed out by the store is not altered by later operations.
func VerifC10Snapshots() {
	s := New()
	a := store.NodeID(verifapi.NodeID(0))
	w := store.Account(verifapi.Wallet(0))
	s.SetNode(store.Node{ID: a, Kind: "geth"})
	linked := verifapi.Bool("linked")
	if linked {
		s.AddAccountNode(w, a)
	}
	first := []int64{5, 1 << 40, -7}[verifapi.Choose("first", 3)]
	later := []int64{3, -2, 1 << 41}[verifapi.Choose("later", 3)]
	s.AddNodeBalance(a, big.NewInt(first))
	s.AddNodeBalance(a, big.NewInt(first))
	snap, err := s.GetNodeBalance(a)
	if err != nil {
		verifapi.Unreachable("c10.snapshots-setup")
		return
	}
	acct, _ := s.GetAccountBalance(w)
	want := 2 * first
	verifapi.Assert(snap.Credit.Int64() == want, "c10.snapshot-initial-value")
	acctWant := acct.Credit.Int64()
	// later operations on the same balance
	switch verifapi.Choose("op", 3) {
	case 0:
		s.AddNodeBalance(a, big.NewInt(later))
	case 1:
		s.AddAccountBalance(w, big.NewInt(later))
	case 2:
		s.SetNode(store.Node{ID: store.NodeID(verifapi.NodeID(1))})
		s.AddNodeBalance(store.NodeID(verifapi.NodeID(1)), big.NewInt(later))
		s.AddAccountNode(w, store.NodeID(verifapi.NodeID(1)))
	}
	verifapi.Reach("c10.snapshots")
	verifapi.Class("memory-store-mutates-shared-bigint-digits", true)
	verifapi.Assert(snap.Credit.Int64() == want, "c10.balance-snapshot-immutable")
	verifapi.Assert(acct.Credit.Int64() == acctWant, "c10.account-balance-snapshot-immutable")
	// node records are copies
	n1, _ := s.GetNode(a)
	n1.Kind = "changed"
	n2, _ := s.GetNode(a)
	verifapi.Assert(n2.Kind == "geth", "c10.node-record-is-a-copy")
}
