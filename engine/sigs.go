package main

import (
	"encoding/base64"
	"fmt"
	"strings"
)

const sigsPkg = repoMod + "/internal/verifmodels/sigs"

type sigRec struct {
	id, method StrVal
	nonce      *Term
	args       *SnapVal
}

func init() {
	regV(sigsPkg+".SignFor", func(m *Machine, g *Goroutine, a []Value) Value {
		rec := sigRec{id: a[0].(StrVal), method: a[1].(StrVal), nonce: a[2].(*Term)}
		rec.args = m.snapshot(TupleVal(sliceElems(a[3]))).(*SnapVal)
		m.sigs = append(m.sigs, rec)
		return StrVal{s: fmt.Sprintf("sig#%d", len(m.sigs)-1)}
	})
	// Dolev-Yao signing oracle in place of request.Verify (crypto cannot be encoded).
	regV(repoMod+"/request.Verify", func(m *Machine, g *Goroutine, a []Value) Value {
		m.verifyCalls++
		bad := func() Value {
			gv := m.ld.ssaPkgs[repoMod+"/request"].Var("ErrBadSignature")
			return m.load(PtrVal{obj: m.global(gv)})
		}
		sig, ok := a[0].(StrVal)
		if !ok || !sig.concrete() || !strings.HasPrefix(sig.s, "sig#") {
			// not a signature the oracle issued. The real code distinguishes what does not even
			// decode (an error of the decoder or of the length check - NOT ErrBadSignature) from a
			// well-formed signature that does not verify (ErrBadSignature):
			if ok && sig.concrete() {
				id, _ := a[2].(StrVal)
				wallet := id.concrete() && len(id.s) <= 42
				if wallet {
					// hex, 65 bytes, recoverable: garbage fails one of the three with its own error
					return m.freshError("verif: signature does not decode (hex / length / recovery)")
				}
				if raw, err := base64.StdEncoding.DecodeString(sig.s); err != nil {
					return m.freshError("illegal base64 data")
				} else if len(raw) < 64 {
					return bad()
				}
			}
			return bad()
		}
		var k int
		fmt.Sscanf(sig.s, "sig#%d", &k)
		if k < 0 || k >= len(m.sigs) {
			return bad()
		}
		rec := m.sigs[k]
		args := m.snapshot(TupleVal(sliceElems(a[4]))).(*SnapVal)
		cond := tAnd(m.strEq(rec.method, a[1].(StrVal)), m.strEq(rec.id, a[2].(StrVal)), tEq(rec.nonce, a[3].(*Term)), m.snapSame(rec.args, args).(*Term))
		if m.branch(cond) {
			m.verifyOK++
			return IfaceVal{}
		}
		return bad()
	})
}
