package main

// Idealised crypto for the C04 "hash half" (DESIGN section 4): Keccak256 and
// json.Marshal are injective (a hash is a blob carrying its input, equal iff
// the inputs are structurally equal), a signature is a blob carrying (key,
// hashed input), VerifySignature / SigToPub succeed exactly for the key and
// input that produced it, base64 / hex are total inverses of their encoders
// on encoder output (and arbitrary bytes or an error otherwise). Enabled per
// harness with the parameter crypto_model=1; otherwise the havoc versions of
// havoc.go apply. secp256k1 and Keccak themselves are outside the technique.

import (
	"encoding/base64"
	"fmt"
	"strings"
)

type cryptoKey struct {
	identity string // node id or wallet address this key belongs to
}

func (m *Machine) cryptoOn() bool { return m.cfg.Params["crypto_model"] == 1 }

func (m *Machine) encToken(b *Blob, prefix string) StrVal {
	m.encBlobs = append(m.encBlobs, b)
	return StrVal{s: fmt.Sprintf("%s#%d#", prefix, len(m.encBlobs)-1)}
}

func (m *Machine) decToken(s StrVal, prefix string) *Blob {
	if !s.concrete() || !strings.HasPrefix(s.s, prefix+"#") {
		return nil
	}
	var k int
	if _, err := fmt.Sscanf(s.s[len(prefix)+1:], "%d#", &k); err != nil || k < 0 || k >= len(m.encBlobs) {
		return nil
	}
	return m.encBlobs[k]
}

// sigCopy: encoding or decoding a signature yields a fresh copy of its bytes (own recovery byte).
func (m *Machine) sigCopy(b *Blob) *Blob {
	if b.kind != "sig" || b.cell == nil {
		return b
	}
	nb := *b
	nb.cell = m.newObj(m.load(PtrVal{obj: b.cell}), nil, "sig.v")
	return &nb
}

func wrapCrypto(name string, f func(m *Machine, g *Goroutine, c *callCtx) (Value, stepStatus)) {
	prev := icTable[name]
	reg(name, func(m *Machine, g *Goroutine, c *callCtx) (Value, stepStatus) {
		if m.cryptoOn() {
			return f(m, g, c)
		}
		if prev == nil {
			panic(abortf("%s needs crypto_model=1", name))
		}
		return prev(m, g, c)
	})
}

func init() {
	const cr = "github.com/ethereum/go-ethereum/crypto."
	// harness entry: the private key of an identity
	regV(repoMod+"/request.verifKey", func(m *Machine, g *Goroutine, a []Value) Value {
		return m.nativePtr(&cryptoKey{identity: cstr(a[0], "verifKey")}, "privkey")
	})
	wrapCrypto(cr+"Keccak256", func(m *Machine, g *Goroutine, c *callCtx) (Value, stepStatus) {
		in := m.snapshot(TupleVal(sliceElems(c.args[0]))).(*SnapVal)
		return m.blobSlice(&Blob{kind: "hash", v: in}), stNext
	})
	wrapCrypto(cr+"Sign", func(m *Machine, g *Goroutine, c *callCtx) (Value, stepStatus) {
		h := blobOf(c.args[0])
		k, ok := m.nativeOf(c.args[1], "crypto.Sign").(*cryptoKey)
		if h == nil || h.kind != "hash" || !ok {
			panic(abortf("crypto.Sign on a non-model hash or key"))
		}
		// the recovery id: 0 or 1, fixed by key and message - arbitrary here unless the harness asked for one
		ov := m.nextRecID
		m.nextRecID = nil
		if ov == nil {
			ov = m.symInt("recid", 8, false)
			m.assume(tLe(ov, mkInt(1)))
		}
		return TupleVal{m.blobSlice(&Blob{kind: "sig", v: TupleVal{h.v, StrVal{s: k.identity}, ov}, cell: m.newObj(ov, nil, "sig.v")}), IfaceVal{}}, stNext
	})
	regV(repoMod+"/request.verifNextRecID", func(m *Machine, g *Goroutine, a []Value) Value {
		m.nextRecID = a[0].(*Term)
		return nil
	})
	wrapCrypto("(*encoding/base64.Encoding).EncodeToString", func(m *Machine, g *Goroutine, c *callCtx) (Value, stepStatus) {
		b := blobOf(c.args[1])
		if b == nil {
			panic(abortf("base64 encode of non-blob"))
		}
		return m.encToken(b, "b64"), stNext
	})
	hvB64 := icTable["(*encoding/base64.Encoding).DecodeString"]
	reg("(*encoding/base64.Encoding).DecodeString", func(m *Machine, g *Goroutine, c *callCtx) (Value, stepStatus) {
		if m.cryptoOn() {
			if b := m.decToken(c.args[1].(StrVal), "b64"); b != nil {
				return TupleVal{m.blobSlice(b), IfaceVal{}}, stNext
			}
			if s := c.args[1].(StrVal); s.concrete() {
				// an ordinary concrete string: decoded exactly (standard alphabet, as the repo uses)
				raw, err := base64.StdEncoding.DecodeString(s.s)
				if err != nil {
					return TupleVal{SliceVal{}, m.freshError("illegal base64 data")}, stNext
				}
				return TupleVal{m.bytesSlice(raw), IfaceVal{}}, stNext
			}
		}
		return hvB64(m, g, c)
	})
	prevHexEnc := icTable["encoding/hex.EncodeToString"]
	reg("encoding/hex.EncodeToString", func(m *Machine, g *Goroutine, c *callCtx) (Value, stepStatus) {
		if m.cryptoOn() {
			if b := blobOf(c.args[0]); b != nil {
				return m.encToken(m.sigCopy(b), "hex"), stNext
			}
		}
		return prevHexEnc(m, g, c)
	})
	prevHexDec := icTable["encoding/hex.DecodeString"]
	reg("encoding/hex.DecodeString", func(m *Machine, g *Goroutine, c *callCtx) (Value, stepStatus) {
		if m.cryptoOn() {
			if b := m.decToken(c.args[0].(StrVal), "hex"); b != nil {
				return TupleVal{m.blobSlice(m.sigCopy(b)), IfaceVal{}}, stNext
			}
		}
		return prevHexDec(m, g, c)
	})
	// identities -> public keys
	wrapCrypto("github.com/ethereum/go-ethereum/p2p/discv5.HexID", func(m *Machine, g *Goroutine, c *callCtx) (Value, stepStatus) {
		id := c.args[0].(StrVal)
		// as the real HexID: an optional 0x prefix and either case of the hex digits name the same key
		canon := strings.ToLower(strings.TrimPrefix(id.s, "0x"))
		if !id.concrete() || len(canon) != 128 {
			return TupleVal{m.zero(c.fn.Signature.Results().At(0).Type()), m.freshError("wrong length, want 128 hex chars")}, stNext
		}
		m.lastHexID = canon
		return TupleVal{m.zero(c.fn.Signature.Results().At(0).Type()), IfaceVal{}}, stNext
	})
	prevIDString := icTable["(github.com/ethereum/go-ethereum/p2p/discv5.NodeID).String"]
	reg("(github.com/ethereum/go-ethereum/p2p/discv5.NodeID).String", func(m *Machine, g *Goroutine, c *callCtx) (Value, stepStatus) {
		if m.cryptoOn() && m.lastHexID != "" {
			return StrVal{s: m.lastHexID}, stNext // the canonical spelling of the id parsed last
		}
		return prevIDString(m, g, c)
	})
	wrapCrypto("(github.com/ethereum/go-ethereum/p2p/discv5.NodeID).Pubkey", func(m *Machine, g *Goroutine, c *callCtx) (Value, stepStatus) {
		return TupleVal{m.nativePtr(&cryptoKey{identity: m.lastHexID}, "pubkey"), IfaceVal{}}, stNext
	})
	wrapCrypto(cr+"FromECDSAPub", func(m *Machine, g *Goroutine, c *callCtx) (Value, stepStatus) {
		k := m.nativeOf(c.args[0], "FromECDSAPub").(*cryptoKey)
		return m.blobSlice(&Blob{kind: "pub", v: StrVal{s: k.identity}}), stNext
	})
	wrapCrypto(cr+"VerifySignature", func(m *Machine, g *Goroutine, c *callCtx) (Value, stepStatus) {
		pub, h, sig := blobOf(c.args[0]), blobOf(c.args[1]), blobOf(c.args[2])
		if pub == nil || h == nil || sig == nil || sig.kind != "sig" || h.kind != "hash" {
			dbg("VerifySignature: pub=%v hash=%v sig=%v (%s | %s | %s)", pub != nil, h != nil, sig != nil, describe(c.args[0]), describe(c.args[1]), describe(c.args[2]))
			return tFalse, stNext
		}
		sv := sig.v.(TupleVal)
		same := m.snapSame(sv[0], h.v).(*Term)
		keyOK := mkBool(sv[1].(StrVal).s == pub.v.(StrVal).s)
		return tAnd(same, keyOK), stNext
	})
	wrapCrypto(cr+"SigToPub", func(m *Machine, g *Goroutine, c *callCtx) (Value, stepStatus) {
		h, sig := blobOf(c.args[0]), blobOf(c.args[1])
		if h == nil || sig == nil || sig.kind != "sig" {
			return TupleVal{PtrVal{}, m.freshError("invalid signature")}, stNext
		}
		sv := sig.v.(TupleVal)
		if sig.cell != nil && len(sv) > 2 {
			// the recovery byte as it is now: anything but 0/1 is refused, the other id recovers another key
			v := m.load(PtrVal{obj: sig.cell}).(*Term)
			if !m.branch(tLe(v, mkInt(1))) {
				return TupleVal{PtrVal{}, m.freshError("invalid signature recovery id")}, stNext
			}
			if !m.branch(tEq(v, sv[2].(*Term))) {
				return TupleVal{m.nativePtr(&cryptoKey{identity: "0x000000000000000000000000000000000000dEaD"}, "pubkey"), IfaceVal{}}, stNext
			}
		}
		if m.branch(m.snapSame(sv[0], h.v).(*Term)) {
			return TupleVal{m.nativePtr(&cryptoKey{identity: sv[1].(StrVal).s}, "pubkey"), IfaceVal{}}, stNext
		}
		// a signature over something else recovers some unrelated key
		return TupleVal{m.nativePtr(&cryptoKey{identity: "0x000000000000000000000000000000000000dEaD"}, "pubkey"), IfaceVal{}}, stNext
	})
	wrapCrypto(cr+"PubkeyToAddress", func(m *Machine, g *Goroutine, c *callCtx) (Value, stepStatus) {
		// the argument is the dereferenced key (a struct copy): models pass the pointer's object
		return c.args[0], stNext
	})
	wrapCrypto("(github.com/ethereum/go-ethereum/common.Address).String", func(m *Machine, g *Goroutine, c *callCtx) (Value, stepStatus) {
		if k, ok := c.args[0].(*cryptoKey); ok {
			return StrVal{s: k.identity}, stNext
		}
		panic(abortf("Address.String on %s", describe(c.args[0])))
	})
}
