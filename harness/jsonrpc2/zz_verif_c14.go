package jsonrpc2

import (
	"time"
	"context"
	"encoding/json"
	"errors"
	"fmt"
	"io"

	"github.com/vipnode/vipnode/v2/internal/verifapi"
)

// verifChanCodec is an in-process FIFO transport: one message per channel slot.
type verifChanCodec struct {
	in, out chan *Message
	addr    string
	written int
	broken  bool // the outgoing direction is gone: every write fails (a reset socket)
}

func (c *verifChanCodec) ReadMessage() (*Message, error) {
	m, ok := <-c.in
	if !ok {
		return nil, errors.New("closed")
	}
	return m, nil
}
func (c *verifChanCodec) WriteMessage(m *Message) error {
	if c.broken {
		return errors.New("write: broken pipe")
	}
	c.written++
	c.out <- m
	return nil
}
func (c *verifChanCodec) Close() error                  { return nil }
func (c *verifChanCodec) RemoteAddr() string            { return c.addr }

// verifDuplex is one end of a connection made of two pipes.
type verifDuplex struct {
	io.Reader
	io.Writer
	io.Closer
}

// verifEcho is a Handler: "echo" returns its argument; "callback" calls
// "echo" on the connection the request arrived on and returns that result.
type verifEcho struct {
	name    string
	handled map[string]int
	ctxOK   bool
	self    *Remote
}

func (h *verifEcho) Register(prefix string, receiver interface{}, onlyMethods ...string) error {
	return nil
}
func (h *verifEcho) RegisterMethod(rpcName string, receiver interface{}, methodName string) error {
	return nil
}

func (h *verifEcho) Handle(ctx context.Context, req *Message) *Message {
	r := &Message{Response: &Response{}, ID: req.ID, Version: Version}
	h.handled[string(req.ID)]++
	var args []int64 // exact: a detour through interface{} would round tokens above 2^53 like float64
	if err := json.Unmarshal(req.Request.Params, &args); err != nil || len(args) != 1 {
		r.Error = &ErrResponse{Code: ErrCodeInvalidParams, Message: "bad params"}
		return r
	}
	svc, err := CtxService(ctx)
	if err != nil || svc != Service(h.self) {
		h.ctxOK = false
	}
	switch req.Request.Method {
	case "echo":
		r.Result, _ = json.Marshal(args[0])
	case "callback":
		var back int64
		if err := svc.Call(context.Background(), &back, "echo", args[0]); err != nil {
			r.Error = &ErrResponse{Code: ErrCodeInternal, Message: err.Error()}
			return r
		}
		r.Result, _ = json.Marshal(back)
	}
	return r
}

func verifPair() (*Remote, *Remote, *verifEcho, *verifEcho) {
	// capacity of the transport in each direction: 8 messages, or (chancap=1) a transport on which a
	// write only returns once the peer has read it (net.Pipe, a full socket buffer)
	capacity := 8
	if verifapi.Param("chancap", 0) == 1 {
		capacity = 0
	}
	ab := make(chan *Message, capacity)
	ba := make(chan *Message, capacity)
	ha := &verifEcho{name: "A", handled: map[string]int{}, ctxOK: true}
	hb := &verifEcho{name: "B", handled: map[string]int{}, ctxOK: true}
	a := &Remote{Codec: &verifChanCodec{in: ba, out: ab, addr: "a"}, Client: &Client{}, Server: ha}
	if l := verifapi.Param("pendinglimit", 0); l > 0 {
		// as the pool's server configures its connections (there: 50 / 10)
		a.PendingLimit, a.PendingDiscard = l, 1
	}
	if verifapi.Param("nilclient", 0) == 1 {
		a.Client = nil // as the client binary builds its connection to the pool
	}
	b := &Remote{Codec: &verifChanCodec{in: ab, out: ba, addr: "b"}, Client: &Client{}, Server: hb}
	if verifapi.Param("iocodec", 0) == 1 {
		// the library's own stream codec (IOCodec) on both ends, over two in-process pipes
		pab, pba := verifapi.NewPipe(), verifapi.NewPipe()
		a.Codec = IOCodec(verifDuplex{pba, pab, pab})
		b.Codec = IOCodec(verifDuplex{pab, pba, pba})
	}
	ha.self, hb.self = a, b
	go a.Serve()
	go b.Serve()
	return a, b, ha, hb
}

// VerifC14Closed: two connected Remotes, concurrent callers on one side, one
// of them triggering a nested call-back over the same connection: every call
// returns its own token, no deadlock, no pending entries left.
func VerifC14Closed() {
	a, b, ha, hb := verifPair()
	n := verifapi.Param("callers", 2)
	type res struct {
		i   int
		got int64
		err error
	}
	done := make(chan res, 2*n)
	toks := make([]int64, n)
	for i := 0; i < n; i++ {
		toks[i] = verifapi.Int64(fmt.Sprint("token", i))
		method := "echo"
		if i == 0 && verifapi.Param("nested", 1) == 1 {
			method = "callback"
		}
		go func(i int, method string) {
			var got int64
			err := a.Call(context.Background(), &got, method, toks[i])
			done <- res{i, got, err}
		}(i, method)
	}
	// callers on the other end as well (both sides use the connection at once)
	nb := 0
	if verifapi.Param("bothsides", 0) == 1 {
		nb = n
	}
	btoks := make([]int64, nb)
	for i := 0; i < nb; i++ {
		btoks[i] = verifapi.Int64(fmt.Sprint("btoken", i))
		go func(i int) {
			var got int64
			err := b.Call(context.Background(), &got, "echo", btoks[i])
			done <- res{-1 - i, got, err}
		}(i)
	}
	// unsolicited replies (ids nobody waits for) arriving while the calls are in flight
	junk := verifapi.Param("junk", 0)
	for j := 0; j < junk; j++ {
		id, _ := json.Marshal(1000 + j)
		a.Codec.(*verifChanCodec).in <- &Message{ID: id, Version: Version, Response: &Response{Result: json.RawMessage("0")}}
		if nb > 0 {
			// ... and to the other end
			b.Codec.(*verifChanCodec).in <- &Message{ID: id, Version: Version, Response: &Response{Result: json.RawMessage("0")}}
		}
	}
	// a request without an id (a notification) whose handler calls back over the connection, sent to B
	// while the calls are in flight: its handler must be able to get its call-back answered
	notify := verifapi.Param("notify", 0) == 1
	if notify {
		params, _ := json.Marshal([]int64{verifapi.Int64("notify-token")})
		a.Codec.(*verifChanCodec).out <- &Message{Version: Version, Request: &Request{Method: "callback", Params: params}}
	}
	for k := 0; k < n+nb; k++ {
		r := <-done
		verifapi.Assert(r.err == nil, "c14.call-succeeds")
		if r.i < 0 {
			verifapi.Assert(r.got == btoks[-1-r.i], "c14.call-returns-own-reply")
		} else {
			verifapi.Assert(r.got == toks[r.i], "c14.call-returns-own-reply")
		}
	}
	verifapi.Quiesce()
	verifapi.Reach("c14.closed")
	verifapi.Assert(ha.ctxOK && hb.ctxOK, "c14.handler-context-is-arrival-connection")
	for _, cnt := range hb.handled {
		verifapi.Assert(cnt == 1, "c14.request-handled-exactly-once")
	}
	for _, cnt := range ha.handled {
		verifapi.Assert(cnt == 1, "c14.request-handled-exactly-once")
	}
	if notify {
		verifapi.Assert(hb.handled[""] == 1, "c14.request-handled-exactly-once")
		verifapi.Assert(len(hb.handled) == n+1 && len(ha.handled) >= 1, "c14.every-request-handled")
	} else {
		verifapi.Assert(len(hb.handled) == n, "c14.every-request-handled")
	}
	verifapi.Assert(nb == 0 || len(ha.handled) >= nb, "c14.every-request-handled")
	a.mu.Lock()
	verifapi.Assert(len(a.pending) <= junk, "c14.no-pending-left")
	a.mu.Unlock()
	b.mu.Lock()
	verifapi.Assert(len(b.pending) == 0 || (nb > 0 && len(b.pending) <= junk), "c14.no-pending-left")
	b.mu.Unlock()
}

// VerifC14Cancel: a call whose context ends after the request was sent
// returns the context's error; the late reply is not delivered to another call.
func VerifC14Cancel() {
	a, _, _, _ := verifPair()
	ctx, cancel := context.WithCancel(context.Background())
	deadline := verifapi.Param("deadline", 0) == 1
	if deadline {
		// the context ends by its deadline instead of an explicit cancel
		cancel()
		ctx, cancel = context.WithTimeout(context.Background(), time.Second)
	}
	defer cancel()
	t1 := verifapi.Int64("token1")
	t2 := verifapi.Int64("token2")
	first := make(chan error, 1)
	go func() {
		var got int64
		err := a.Call(ctx, &got, "echo", t1)
		if err == nil {
			verifapi.Assert(got == t1, "c14.cancel-race-own-reply")
		}
		first <- err
	}()
	if deadline {
		go func() { verifapi.FireTimers(1) }()
	} else {
		go func() { cancel() }()
	}
	err1 := <-first
	verifapi.Assert(err1 == nil || err1 == ctx.Err(), "c14.cancelled-call-returns-ctx-error")
	// a later call on the same connection still gets its own reply
	var got2 int64
	err2 := a.Call(context.Background(), &got2, "echo", t2)
	verifapi.Reach("c14.cancel")
	verifapi.Assert(err2 == nil && got2 == t2, "c14.late-reply-never-delivered-to-another-call")
}

// verifOneShotCodec yields a scripted sequence of messages, then blocks.
type verifOneShotCodec struct {
	msgs    []*Message
	pos     int
	block   chan struct{}
	written []*Message
}

func (c *verifOneShotCodec) ReadMessage() (*Message, error) {
	if c.pos < len(c.msgs) {
		c.pos++
		return c.msgs[c.pos-1], nil
	}
	<-c.block
	return nil, errors.New("closed")
}
func (c *verifOneShotCodec) WriteMessage(m *Message) error {
	c.written = append(c.written, m)
	return nil
}
func (c *verifOneShotCodec) Close() error       { return nil }
func (c *verifOneShotCodec) RemoteAddr() string { return "x" }

// VerifC14Routing: from an arbitrary pending table, one incoming reply is
// routed to the channel of its own id only; receive(k) returns only a message
// that arrived under k and forgets the entry; with the context done it
// returns the context's error and a late reply stays under its own id.
func VerifC14Routing() {
	ids := []string{"1", "2", "3"}
	codec := &verifOneShotCodec{block: make(chan struct{})}
	r := &Remote{Codec: codec, Client: &Client{}, Server: &verifEcho{handled: map[string]int{}, ctxOK: true}}
	r.pending = map[string]pendingMsg{}
	verifapi.SetNow(verifapi.Time("now"))
	held := map[string]int64{}
	has := map[string]bool{}
	for _, id := range ids {
		if verifapi.Bool("entry" + id) {
			ch := r.getPendingChan(id)
			if verifapi.Bool("full" + id) {
				tok := verifapi.Int64("held" + id)
				res, _ := json.Marshal(tok)
				ch <- Message{ID: json.RawMessage(id), Response: &Response{Result: res}, Version: Version}
				held[id] = tok
				has[id] = true
			}
		}
	}
	// the incoming message
	in := ids[verifapi.Choose("incoming", 3)]
	if has[in] {
		verifapi.Assume(false) // a second reply for an id whose first reply is still unread would block this connection only (duplicate replies: outside the claim)
	}
	tok := verifapi.Int64("token")
	res, _ := json.Marshal(tok)
	codec.msgs = []*Message{{ID: json.RawMessage(in), Response: &Response{Result: res}, Version: Version}}
	go r.Serve()
	verifapi.Quiesce()
	held[in] = tok
	has[in] = true
	// now some call waits for id k
	k := ids[verifapi.Choose("waiter", 3)]
	ctx, cancel := context.WithCancel(context.Background())
	cancelled := verifapi.Bool("cancelled")
	if cancelled {
		cancel()
	}
	if !cancelled && !has[k] {
		verifapi.Assume(false) // nothing arrived and nobody cancels: the call legitimately keeps waiting
	}
	msg, err := r.receive(ctx, json.RawMessage(k))
	verifapi.Reach("c14.routing")
	if err == nil {
		verifapi.Assert(has[k], "c14.receive-only-returns-a-message-that-arrived")
		var got int64
		if uerr := msg.UnmarshalResult(&got); uerr == nil {
			verifapi.Assert(got == held[k], "c14.receive-returns-message-of-own-id")
		} else {
			verifapi.Unreachable("c14.routing-unmarshal")
		}
		verifapi.Assert(string(msg.ID) == k, "c14.reply-id-matches")
		r.mu.Lock()
		_, still := r.pending[k]
		r.mu.Unlock()
		verifapi.Assert(!still, "c14.entry-forgotten-after-receive")
	} else {
		verifapi.Assert(cancelled, "c14.receive-errors-only-when-context-done")
		verifapi.Assert(err == context.Canceled, "c14.receive-returns-context-error")
	}
	if !cancelled {
		verifapi.Assert(err == nil || !has[k], "c14.waiting-reply-is-delivered")
	}
	// messages of other ids are still under their own ids
	for _, o := range ids {
		if o == k || !has[o] {
			continue
		}
		c2, cancel2 := context.WithCancel(context.Background())
		cancel2()
		m2, err2 := r.receive(c2, json.RawMessage(o))
		if err2 == nil {
			var got int64
			m2.UnmarshalResult(&got)
			verifapi.Assert(got == held[o], "c14.other-ids-keep-their-own-message")
		}
	}
	cancel()
}

// VerifC14IDs: request ids of concurrent calls on one connection are pairwise distinct.
func VerifC14IDs() {
	c := &Client{}
	n := verifapi.Param("callers", 3)
	out := make(chan string, n)
	for i := 0; i < n; i++ {
		go func() {
			m, err := c.Request("m", 1)
			if err != nil {
				verifapi.Unreachable("c14.request-error")
			}
			out <- string(m.ID)
		}()
	}
	// meanwhile a request whose parameters cannot be encoded (a channel) fails to be built
	bad := verifapi.Param("badparams", 0)
	failed := make(chan error, bad+1)
	for i := 0; i < bad; i++ {
		go func() {
			_, err := c.Request("m", make(chan int))
			failed <- err
		}()
	}
	seen := map[string]bool{}
	for i := 0; i < n; i++ {
		id := <-out
		verifapi.Assert(!seen[id], "c14.request-ids-distinct")
		seen[id] = true
	}
	for i := 0; i < bad; i++ {
		verifapi.Assert(<-failed != nil, "c14.unencodable-request-refused")
	}
	// ids handed out later are new as well
	m, err := c.Request("m", 1)
	verifapi.Assert(err == nil && !seen[string(m.ID)], "c14.request-ids-distinct")
	verifapi.Reach("c14.ids")
}

// VerifLocalSvc is registered on a Local's real Server.
type VerifLocalSvc struct {
	self  Service
	ctxOK bool
	seen  []int64
}

func (s *VerifLocalSvc) Echo(ctx context.Context, x int64) (int64, error) {
	if svc, err := CtxService(ctx); err != nil || svc != s.self {
		s.ctxOK = false
	}
	s.seen = append(s.seen, x)
	return x, nil
}

func (s *VerifLocalSvc) Fail(ctx context.Context, x int64) (int64, error) {
	return 0, errors.New("refused")
}

// VerifC14Local: the in-process Service (jsonrpc2.Local: real Client.Request,
// real Server.Handle over the reflect model, Response.UnmarshalResult): every
// call returns the reply to its own request, a handler error comes back as
// the call's error, the service in the handler's context is the Local itself,
// and concurrent callers never see each other's replies.
func VerifC14Local() {
	svc := &VerifLocalSvc{ctxOK: true}
	loc := &Local{}
	svc.self = loc
	if err := loc.Server.Register("", svc); err != nil {
		verifapi.Unreachable("c14.local-register")
	}
	n := verifapi.Param("callers", 2)
	type res struct {
		i    int
		got  int64
		err  error
		fail bool
	}
	done := make(chan res, n)
	toks := make([]int64, n)
	for i := 0; i < n; i++ {
		toks[i] = verifapi.Int64(fmt.Sprint("token", i))
		fail := verifapi.Bool(fmt.Sprint("fail", i))
		go func(i int, fail bool) {
			var got int64
			method := "echo"
			if fail {
				method = "fail"
			}
			err := loc.Call(context.Background(), &got, method, toks[i])
			done <- res{i, got, err, fail}
		}(i, fail)
	}
	handled := 0
	for k := 0; k < n; k++ {
		r := <-done
		if r.fail {
			verifapi.Assert(r.err != nil, "c14.local-handler-error-is-returned")
			continue
		}
		handled++
		verifapi.Assert(r.err == nil, "c14.call-succeeds")
		verifapi.Assert(r.got == toks[r.i], "c14.call-returns-own-reply")
	}
	verifapi.Reach("c14.local")
	verifapi.Assert(svc.ctxOK, "c14.handler-context-is-arrival-connection")
	verifapi.Assert(len(svc.seen) == handled, "c14.request-handled-exactly-once")
}

// VerifC14WriteFault: the outgoing direction of a connection breaks for a
// while (writes fail), then works again: a call made meanwhile fails with the
// write error and leaves nothing behind - the calls made before and after it
// get their own replies, requests of the other side are still handled, and
// nothing on the connection hangs.
func VerifC14WriteFault() {
	a, b, _, hb := verifPair()
	codec := a.Codec.(*verifChanCodec)
	t0, t1, t2 := verifapi.Int64("token0"), verifapi.Int64("token1"), verifapi.Int64("token2")
	var got int64
	if verifapi.Bool("call-before") {
		err := a.Call(context.Background(), &got, "echo", t0)
		verifapi.Assert(err == nil && got == t0, "c14.call-returns-own-reply")
	}
	codec.broken = true
	failed := verifapi.Param("failedcalls", 1)
	for i := 0; i < failed; i++ {
		err := a.Call(context.Background(), &got, "echo", t1)
		verifapi.Assert(err != nil, "c14.fault.unsent-call-fails")
	}
	a.mu.Lock()
	verifapi.Assert(len(a.pending) == 0, "c14.no-pending-left")
	a.mu.Unlock()
	codec.broken = false
	// the other side calls in, and this side calls out again
	done := make(chan error, 1)
	go func() {
		var back int64
		err := b.Call(context.Background(), &back, "echo", t2)
		if err == nil {
			verifapi.Assert(back == t2, "c14.call-returns-own-reply")
		}
		done <- err
	}()
	err := a.Call(context.Background(), &got, "echo", t1)
	verifapi.Assert(err == nil && got == t1, "c14.fault.later-call-gets-own-reply")
	verifapi.Assert(<-done == nil, "c14.fault.other-side-still-served")
	verifapi.Quiesce()
	verifapi.Reach("c14.fault")
	for _, cnt := range hb.handled {
		verifapi.Assert(cnt == 1, "c14.request-handled-exactly-once")
	}
}
