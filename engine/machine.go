package main

// Machine: one symbolic execution of a harness along one path, driven by a
// decision prefix (stateless DFS, DESIGN Appendix A.1).

import (
	"fmt"
	"go/types"
	"math/big"
	"os"
	"sort"
	"strings"

	"golang.org/x/tools/go/ssa"
)

type abortErr struct{ msg string } // unsupported construct: run is inconclusive
type pathEnd struct{ reason string }
type goPanic struct {
	msg string
	val Value
}

func abortf(f string, a ...interface{}) abortErr { return abortErr{fmt.Sprintf(f, a...)} }

type Decision struct {
	Alt  int    `json:"a"`
	N    int    `json:"n"`
	Kind string `json:"k,omitempty"`
	Aux  string `json:"x,omitempty"`
}

type deferred struct {
	fn   Value
	args []Value
	call *ssa.CallCommon
}

type Frame struct {
	fn        *ssa.Function
	block     *ssa.BasicBlock
	prev      *ssa.BasicBlock
	pc        int
	locals    map[ssa.Value]Value
	defers    []deferred
	callInst  ssa.Instruction // call instruction in the caller awaiting the result
	onReturn  func(ret Value) // native continuation (instead of callInst)
	retVal    Value
	running   bool // RunDefers in progress at return
	panicking bool
	exempt    bool // race detection: accesses made in this frame are the harness's
}

type Goroutine struct {
	id            int
	frames        []*Frame
	done          bool
	wait          *WaitOp // blocked on a channel operation
	waitMu        *MutexObj
	waitFn        func() bool // generic wait condition
	atSched       bool        // scheduling choice already taken for the current instruction
	panicV        *goPanic
	name          string
	locks         []*MutexObj
	yieldN        int
	waitRead      bool
	unwindDepth   int
	commitPending bool
	vc            VC
}

type AssertStat struct {
	ID                                     string
	Checked, Unsat, Sat, Unknown, Concrete int
}

type Violation struct {
	Harness  string            `json:"harness"`
	AssertID string            `json:"assert"`
	Kind     string            `json:"kind"` // assert | panic | deadlock
	Msg      string            `json:"msg,omitempty"`
	Model    map[string]string `json:"model"`
	Trace    []Decision        `json:"trace"`
	Classes  []string          `json:"classes,omitempty"` // known-finding classes that hold in the model
	Known    bool              `json:"known"`
	Observed map[string]string `json:"observed,omitempty"`
}

type Machine struct {
	prog    *ssa.Program
	ld      *Loaded
	cfg     *HarnessCfg
	solver  *Solver
	solver2 *Solver

	pcs      []*Term
	vars     map[string]*Term
	varOrder []*Term
	atoms    map[string]*Term

	prefix     []Decision
	trace      []Decision
	newChoices []int

	gs          []*Goroutine
	cur         *Goroutine
	preemptions int
	globals     map[*ssa.Global]*Obj
	initDone    map[*ssa.Package]bool
	nextID      int

	clock      *Term
	mapOrdAll  bool
	inInit     bool
	ghost      map[string]Value
	classes    map[string]*Term
	classOrder []string
	observed   map[string]string

	// results of this run
	asserts    map[string]*AssertStat
	reached    map[string]int
	violations []Violation
	unknowns   int
	nInstr     int
	nStates    int
	funcs      map[*ssa.Function]int
	intercepts map[string]int
	endReason  string
	finished   bool
	truncated  bool
	nFeasQ     int
	nAssertQ   int
	nia        int
	sample     map[string]string // a solved witness for Reach
	kv         *kvDB
	monitors   *Monitors
	timers     []*timerEv
	liveCheck  bool

	nameCount      map[string]int
	chosen         map[string]int64
	errCache       map[string]Value
	builders       map[*Obj]string
	wantSample     bool
	nEvents        int
	disagreements  []string
	ctxs           []*CtxObj
	background     *CtxObj
	race           raceState
	lastIOLimit    *Term
	stormUsed      int
	stormBudget    int
	lastIOWraps    []*readerWrap
	tickIntervals  []*Term
	guards         map[*MapObj]*MutexObj
	guardViol      int
	lastSnapDiff   string
	panicMsg       string
	kvConflicts    int
	floatCache     map[string]*Term
	encBlobs       []*Blob
	lastHexID      string
	bigFloats      map[*Obj]*big.Float      // concrete big.Float values by object (zzbigfloat.go)
	syncMaps       map[string]*syncMapState // sync.Map contents by map object (zzsync.go)
	syncPools      map[string]*syncPoolState // sync.Pool contents by pool object (zzsync.go)
	servedHandler  Value                    // handler given to http.ListenAndServe (zzhttp.go)
	nextRecID      *Term                    // recovery id the next modelled crypto.Sign produces (harness request.verifNextRecID)
	reflCalls      int
	wsConns        []*wsConn
	urlReg         map[*Term]*urlParts
	urlOut         []urlOutRec
	knownConds     map[string]bool
	rescued        int
	pendingCommits []pendingCommit
	crashFn        *FuncVal
	crashed        bool
	bufBlobs       map[*Obj]*Blob
	sigs           []sigRec
	verifyCalls    int
	verifyOK       int
}

const maxInstrPerPath = 400000

var traceBranches = os.Getenv("GOSYM_TRACE") != ""

func (m *Machine) declare(t *Term) {
	if _, ok := m.vars[t.name]; ok {
		return
	}
	m.vars[t.name] = t
	m.varOrder = append(m.varOrder, t)
	m.solver.send(fmt.Sprintf("(declare-const %s %s)", t.String(), sortName(t.sort)))
	if t.sort == SInt && t.lo != nil && t.hi != nil {
		c := tAnd(&Term{op: "<=", sort: SBool, args: []*Term{mkIntBig(t.lo), t}}, &Term{op: "<=", sort: SBool, args: []*Term{t, mkIntBig(t.hi)}})
		m.assertPC(c)
	}
}

func (m *Machine) atomConst(s string) *Term {
	if t, ok := m.atoms[s]; ok {
		return t
	}
	name := fmt.Sprintf("atom!%d!%s", len(m.atoms), sanitize(s))
	t := &Term{op: "c", sort: SAtom, name: name}
	m.solver.send(fmt.Sprintf("(declare-const %s Atom)", t.String()))
	// distinct from every earlier constant atom
	for _, o := range m.atoms {
		m.solver.send(fmt.Sprintf("(assert (not (= %s %s)))", t.String(), o.String()))
	}
	m.atoms[s] = t
	return t
}

func sanitize(s string) string {
	var sb strings.Builder
	for _, c := range s {
		if c == '|' || c == '\\' || c < 32 || c > 126 {
			sb.WriteByte('_')
		} else {
			sb.WriteRune(c)
		}
	}
	r := sb.String()
	if len(r) > 40 {
		r = r[:40]
	}
	return r
}

func (m *Machine) assertPC(c *Term) {
	if c.isTrue() {
		return
	}
	if m.knownConds == nil {
		m.knownConds = map[string]bool{}
	}
	m.knownConds[c.String()] = true
	if c.op == "not" {
		m.knownConds[c.args[0].String()] = false
	} else if c.op == "and" {
		for _, a := range c.args {
			m.knownConds[a.String()] = true
		}
	}
	m.pcs = append(m.pcs, c)
	m.solver.send("(assert " + c.String() + ")")
}

// feasible asks whether pc ∧ c is satisfiable.
func (m *Machine) feasible(c *Term) string {
	if c.isTrue() {
		return "sat"
	}
	if c.isFalse() {
		return "unsat"
	}
	m.nFeasQ++
	m.solver.send("(push 1)")
	m.solver.send("(assert " + c.String() + ")")
	r := m.solver.checkSat()
	m.solver.send("(pop 1)")
	if strings.HasPrefix(r, "unknown") {
		// second opinion before giving up (never turns unknown into success silently:
		// the answer of the other solver is used as is)
		if m.solver2 != nil {
			if r2 := m.crossCheck(c); r2 == "sat" || r2 == "unsat" {
				m.rescued++
				return r2
			}
		}
		m.unknowns++
		return "unknown"
	}
	return r
}

func (m *Machine) inPrefix() bool { return len(m.trace) < len(m.prefix) }

// choose is an explicit n-way choice point.
func (m *Machine) choose(n int, kind string) int {
	if n <= 1 {
		return 0
	}
	i := len(m.trace)
	alt := 0
	if i < len(m.prefix) {
		alt = m.prefix[i].Alt
		if alt >= n {
			panic(abortf("replay divergence at decision %d (%s): alt %d of %d", i, kind, alt, n))
		}
	} else {
		m.newChoices = append(m.newChoices, i)
	}
	m.nStates++
	m.trace = append(m.trace, Decision{Alt: alt, N: n, Kind: kind})
	return alt
}

// branch decides a symbolic condition, forking when both sides are feasible.
func (m *Machine) branch(c *Term) bool {
	if c.isConst() {
		return c.bv
	}
	if v, ok := m.knownConds[c.String()]; ok {
		return v
	}
	i := len(m.trace)
	if i < len(m.prefix) {
		d := m.prefix[i]
		m.trace = append(m.trace, d)
		out := d.Alt == 0
		if d.N == 1 {
			m.knownConds[c.String()] = out
		}
		if d.N == 2 {
			if out {
				m.assertPC(c)
			} else {
				m.assertPC(tNot(c))
			}
		}
		return out
	}
	rt := m.feasible(c)
	if traceBranches {
		dbg("branch %s -> true:%s%s", c.String(), rt, m.where())
	}
	if rt == "unsat" {
		m.trace = append(m.trace, Decision{Alt: 1, N: 1, Kind: "br"})
		m.knownConds[c.String()] = false
		return false
	}
	rf := m.feasible(tNot(c))
	if rf == "unsat" {
		m.trace = append(m.trace, Decision{Alt: 0, N: 1, Kind: "br"})
		m.knownConds[c.String()] = true
		return true
	}
	m.nStates++
	m.newChoices = append(m.newChoices, i)
	m.trace = append(m.trace, Decision{Alt: 0, N: 2, Kind: "br"})
	m.assertPC(c)
	return true
}

// concretize picks concrete values for an Int term, forking over all feasible ones.
func (m *Machine) concretize(t *Term, what string) int64 {
	if v, ok := t.constInt(); ok {
		return v
	}
	for iter := 0; iter < 64; iter++ {
		i := len(m.trace)
		var v int64
		if i < len(m.prefix) {
			fmt.Sscanf(m.prefix[i].Aux, "%d", &v)
		} else {
			// ask the solver for a value
			m.nFeasQ++
			r := m.solver.checkSat()
			if r != "sat" {
				panic(abortf("concretize(%s): solver says %s", what, r))
			}
			m.declareTmp()
			vals := m.solver.getValuesOfTerm(t)
			if _, err := fmt.Sscanf(vals, "%d", &v); err != nil {
				panic(abortf("concretize(%s): cannot parse %q", what, vals))
			}
		}
		eq := tEq(t, mkInt(v))
		// decide eq with Aux recorded
		if i < len(m.prefix) {
			d := m.prefix[i]
			m.trace = append(m.trace, d)
			if d.Alt == 0 {
				if d.N == 2 {
					m.assertPC(eq)
				}
				return v
			}
			m.assertPC(tNot(eq))
			continue
		}
		rf := m.feasible(tNot(eq))
		if rf == "unsat" {
			m.trace = append(m.trace, Decision{Alt: 0, N: 1, Kind: "conc", Aux: fmt.Sprint(v)})
			return v
		}
		m.nStates++
		m.newChoices = append(m.newChoices, i)
		m.trace = append(m.trace, Decision{Alt: 0, N: 2, Kind: "conc", Aux: fmt.Sprint(v)})
		m.assertPC(eq)
		return v
	}
	panic(abortf("concretize(%s): more than 64 values", what))
}

func (m *Machine) declareTmp() {}

func (s *Solver) getValuesOfTerm(t *Term) string {
	s.send("(get-value (" + t.String() + "))")
	txt, err := s.readSexp()
	if err != nil {
		return ""
	}
	e := parseSexp(txt)
	if e == nil || len(e.list) != 1 || len(e.list[0].list) != 2 {
		return ""
	}
	return e.list[0].list[1].flat()
}

func (m *Machine) assume(c *Term) {
	if c.isTrue() {
		return
	}
	if c.isFalse() {
		panic(pathEnd{"assume-false"})
	}
	if !m.inPrefix() {
		if m.feasible(c) == "unsat" {
			panic(pathEnd{"assume-infeasible"})
		}
	}
	m.assertPC(c)
}

func (m *Machine) model() map[string]string {
	vals := m.solver.getValues(m.varOrder)
	// an equality-only string that the model makes equal to a concrete string of the run gets that
	// string in the replay (name!str); otherwise the replay invents one of the model's length
	var atomVars, consts []*Term
	byName := map[string]string{}
	for _, v := range m.varOrder {
		if v.sort == SAtom {
			atomVars = append(atomVars, v)
		}
	}
	if len(atomVars) > 0 && len(m.atoms) > 0 {
		for str, c := range m.atoms {
			consts = append(consts, c)
			byName[strings.Trim(c.String(), "|")] = str
		}
		cv := m.solver.getValues(consts)
		byVal := map[string]string{}
		for name, val := range cv {
			byVal[val] = byName[name]
		}
		for _, v := range atomVars {
			name := strings.Trim(v.String(), "|")
			if str, ok := byVal[vals[name]]; ok {
				vals[name+"!str"] = str
			}
		}
	}
	return vals
}

func (m *Machine) stat(id string) *AssertStat {
	s := m.asserts[id]
	if s == nil {
		s = &AssertStat{ID: id}
		m.asserts[id] = s
	}
	return s
}

func (m *Machine) knownClassesFor(id string) []string {
	var r []string
	for _, k := range m.cfg.Known {
		if k.Assert == id && k.Status == "known" {
			r = append(r, k.Class)
		}
	}
	return r
}

// checkAssert decides pc ⇒ c.
func (m *Machine) checkAssert(c *Term, id string, kind string, msg string) {
	st := m.stat(id)
	st.Checked++
	if c.isTrue() {
		st.Concrete++
		return
	}
	neg := tNot(c)
	m.nAssertQ++
	m.solver.send("(push 1)")
	m.solver.send("(assert " + neg.String() + ")")
	r := m.solver.checkSat()
	if r == "unsat" {
		m.solver.send("(pop 1)")
		st.Unsat++
		if m.solver2 != nil {
			if r2 := m.crossCheck(neg); r2 != "unsat" {
				st.Unknown++
				m.unknowns++
				m.disagree(id, r, r2, neg)
			}
		}
		return
	}
	if r != "sat" {
		m.solver.send("(pop 1)")
		st.Unknown++
		m.unknowns++
		return
	}
	st.Sat++
	// which known classes are defined on this path for this assertion?
	known := m.knownClassesFor(id)
	var defined []string
	for _, k := range known {
		if _, ok := m.classes[k]; ok {
			defined = append(defined, k)
		}
	}
	v := Violation{Harness: m.cfg.Name, AssertID: id, Kind: kind, Msg: msg}
	if len(defined) > 0 {
		// try to find a violation outside all listed classes first
		m.solver.send("(push 1)")
		for _, k := range defined {
			m.solver.send("(assert " + tNot(m.classes[k]).String() + ")")
		}
		m.nAssertQ++
		r2 := m.solver.checkSat()
		if r2 == "sat" {
			v.Model = m.model()
			m.solver.send("(pop 1)")
		} else {
			m.solver.send("(pop 1)")
			if r2 != "unsat" {
				m.unknowns++
			}
			// all violations here fall inside known classes: name them
			v.Known = true
			for _, k := range defined {
				m.solver.send("(push 1)")
				m.solver.send("(assert " + m.classes[k].String() + ")")
				m.nAssertQ++
				if m.solver.checkSat() == "sat" {
					v.Classes = append(v.Classes, k)
					if v.Model == nil {
						v.Model = m.model()
					}
				}
				m.solver.send("(pop 1)")
			}
		}
	} else {
		v.Model = m.model()
	}
	m.solver.send("(pop 1)")
	v.Trace = append([]Decision(nil), m.trace...)
	v.Observed = copyMap(m.observed)
	m.violations = append(m.violations, v)
	// continue the path under the assertion when possible
	if c.isFalse() {
		panic(pathEnd{"assert-false"})
	}
	if m.feasible(c) == "unsat" {
		panic(pathEnd{"assert-always-false"})
	}
	m.assertPC(c)
}

func copyMap(a map[string]string) map[string]string {
	r := map[string]string{}
	for k, v := range a {
		r[k] = v
	}
	return r
}

var pcsExtraDummy []*Term

func (m *Machine) script(extra *Term) string {
	var sb strings.Builder
	sb.WriteString(smtPrelude)
	var atomNames []string
	for _, a := range m.atoms {
		atomNames = append(atomNames, a.String())
	}
	sort.Strings(atomNames)
	for _, a := range atomNames {
		fmt.Fprintf(&sb, "(declare-const %s Atom)\n", a)
	}
	if len(atomNames) > 1 {
		fmt.Fprintf(&sb, "(assert (distinct %s))\n", strings.Join(atomNames, " "))
	}
	for _, v := range m.varOrder {
		fmt.Fprintf(&sb, "(declare-const %s %s)\n", v.String(), sortName(v.sort))
	}
	for _, c := range m.pcs {
		fmt.Fprintf(&sb, "(assert %s)\n", c.String())
	}
	if extra != nil {
		fmt.Fprintf(&sb, "(assert %s)\n", extra.String())
	}
	return sb.String()
}

func (m *Machine) crossCheck(neg *Term) string {
	s := m.solver2
	s.send("(reset)")
	if s.name != "cvc5" {
		s.send(fmt.Sprintf("(set-option :timeout %d)", solverTimeoutMs))
	} else {
		s.send("(set-logic ALL)")
	}
	s.send(m.script(neg))
	r := s.checkSat()
	if strings.HasPrefix(r, "unknown") && s.name != "cvc5" {
		// once more with four times the time (a loaded machine must not turn a decidable query into
		// an inconclusive check); still unknown stays unknown
		s.send("(reset)")
		s.send(fmt.Sprintf("(set-option :timeout %d)", 4*solverTimeoutMs))
		s.send(m.script(neg))
		r = s.checkSat()
	}
	if strings.HasPrefix(r, "unknown") {
		dbg("cross-check %s: %s\n%s", s.name, r, m.script(neg))
		return "unknown"
	}
	return r
}

func (m *Machine) disagree(id, r1, r2 string, neg *Term) {
	m.disagreements = append(m.disagreements, fmt.Sprintf("%s: %s=%s %s=%s", id, m.solver.name, r1, m.solver2.name, r2))
}

// ---- goroutines / frames ----

func (g *Goroutine) top() *Frame { return g.frames[len(g.frames)-1] }

func (m *Machine) newGoroutine(name string) *Goroutine {
	g := &Goroutine{id: len(m.gs), name: name}
	m.gs = append(m.gs, g)
	return g
}

func (m *Machine) pushFrame(g *Goroutine, fn *ssa.Function, args []Value, bind []Value, callInst ssa.Instruction, onRet func(Value)) {
	if fn.Blocks == nil {
		panic(abortf("call of function without body: %s", fn.String()))
	}
	if len(g.frames) > 200 {
		panic(abortf("call depth > 200 at %s", fn.String()))
	}
	fr := &Frame{fn: fn, block: fn.Blocks[0], locals: make(map[ssa.Value]Value, 16), callInst: callInst, onReturn: onRet}
	fr.exempt = m.frameExempt(g, fn)
	if len(args) != len(fn.Params) {
		panic(abortf("arity mismatch calling %s: %d args, %d params", fn.String(), len(args), len(fn.Params)))
	}
	for i, p := range fn.Params {
		fr.locals[p] = args[i]
	}
	for i, fv := range fn.FreeVars {
		fr.locals[fv] = bind[i]
	}
	if _, ok := m.funcs[fn]; !ok {
		n := 0
		for _, b := range fn.Blocks {
			n += len(b.Instrs)
		}
		m.funcs[fn] = n
	}
	g.frames = append(g.frames, fr)
}

func typeBits(t types.Type) (int, bool) {
	b, ok := t.Underlying().(*types.Basic)
	if !ok {
		return 64, true
	}
	switch b.Kind() {
	case types.Int, types.Int64, types.UntypedInt, types.UntypedRune:
		return 64, true
	case types.Int32:
		return 32, true
	case types.Int16:
		return 16, true
	case types.Int8:
		return 8, true
	case types.Uint, types.Uint64, types.Uintptr:
		return 64, false
	case types.Uint32:
		return 32, false
	case types.Uint16:
		return 16, false
	case types.Uint8:
		return 8, false
	}
	return 64, true
}

func isIntType(t types.Type) bool {
	b, ok := t.Underlying().(*types.Basic)
	return ok && b.Info()&types.IsInteger != 0
}
func isStringType(t types.Type) bool {
	b, ok := t.Underlying().(*types.Basic)
	return ok && b.Info()&types.IsString != 0
}
func isBoolType(t types.Type) bool {
	b, ok := t.Underlying().(*types.Basic)
	return ok && b.Info()&types.IsBoolean != 0
}
func isFloatType(t types.Type) bool {
	b, ok := t.Underlying().(*types.Basic)
	return ok && b.Info()&(types.IsFloat|types.IsComplex) != 0
}
