package balance

import (
	"fmt"
	"math/big"
	"time"

	"github.com/vipnode/vipnode/v2/internal/verifapi"
	"github.com/vipnode/vipnode/v2/pool/store"
	"github.com/vipnode/vipnode/v2/pool/store/memory"
)

// VerifC02Credit: intervalCredit == floor(elapsed*price/interval) for every
// elapsed time, price (any non-zero big.Int) and positive interval.
func VerifC02Credit() {
	price := verifapi.BigInt("price")
	interval := verifapi.Dur("interval")
	verifapi.Assume(interval > 0)
	verifapi.Assume(price.Sign() != 0)
	b := &payPerInterval{Interval: interval, CreditPerInterval: *price, now: verifapi.Now}
	now := verifapi.Time("now")
	last := verifapi.Time("last")
	verifapi.Assume(!now.Before(last)) // clock contract: non-decreasing
	verifapi.SetNow(now)
	got := b.intervalCredit(last)
	verifapi.Reach("c02.credit")
	// floor characterisation, independent of Div/Quo: got*I <= d*p < got*I + I
	d := big.NewInt(now.UnixNano() - last.UnixNano())
	prod := new(big.Int).Mul(d, price)
	lo := new(big.Int).Mul(got, big.NewInt(int64(interval)))
	hi := new(big.Int).Add(lo, big.NewInt(int64(interval)))
	verifapi.Assert(lo.Cmp(prod) <= 0, "c02.credit-floor-lower")
	verifapi.Assert(prod.Cmp(hi) < 0, "c02.credit-floor-upper")
	// the receiver's configuration is not modified
	verifapi.Assert(b.CreditPerInterval.Cmp(price) == 0, "c02.price-unchanged")
}

func c02cell(linked int, id store.NodeID) string {
	if linked > 0 {
		return "w:" + verifapi.Wallet(linked-1)
	}
	return "t:" + string(id)
}

// VerifC02OnUpdate: one OnUpdate of a client with k peers from an arbitrary
// ledger: every peer's cell gains the credit once per peer entry, the
// client's cell loses the total, hosts / zero credit / no peers move nothing.
func VerifC02OnUpdate() {
	db := memory.New()
	npeers := verifapi.Param("peers", 2)
	price := verifapi.BigInt("price")
	interval := verifapi.Dur("interval")
	verifapi.Assume(interval > 0)
	verifapi.Assume(price.Sign() != 0)
	// production settings are fixed by Param when the NIA term must stay linear
	if verifapi.Param("concrete_price", 0) == 1 {
		verifapi.Assume(price.Cmp(big.NewInt(100000000000)) == 0)
		verifapi.Assume(interval == 60000000000)
	}
	b := &payPerInterval{Store: db, Interval: interval, CreditPerInterval: *price, now: verifapi.Now}
	now := verifapi.Time("now")
	last := verifapi.Time("last")
	verifapi.Assume(!now.Before(last))
	verifapi.SetNow(now)

	// population: node 0 = updating node, 1..k = reported active peers
	cells := map[string]*big.Int{}
	count := map[string]int{}
	ids := make([]store.NodeID, npeers+1)
	cellOf := make([]string, npeers+1)
	isHost := verifapi.Bool("node.ishost")
	peerIsHost := make([]bool, npeers+1)
	for i := 0; i <= npeers; i++ {
		ids[i] = store.NodeID(verifapi.NodeID(i))
		n := store.Node{ID: ids[i], LastSeen: last}
		if i == 0 {
			n.IsHost = isHost
		} else {
			peerIsHost[i] = verifapi.Bool(fmt.Sprint("peer.ishost", i))
			n.IsHost = peerIsHost[i]
		}
		if err := db.SetNode(n); err != nil {
			verifapi.Unreachable("c02.setup")
		}
		linked := verifapi.Choose(fmt.Sprint("wallet", i), 3) // 0 none, 1 w0, 2 w1
		if linked > 0 {
			db.AddAccountNode(store.Account(verifapi.Wallet(linked-1)), ids[i])
		}
		cellOf[i] = c02cell(linked, ids[i])
		if _, ok := cells[cellOf[i]]; !ok {
			c := verifapi.BigInt("credit." + cellOf[i][:4] + fmt.Sprint(i))
			db.AddNodeBalance(ids[i], c)
			cells[cellOf[i]] = c
		}
	}
	peers := []store.Node{}
	for i := 1; i <= npeers; i++ {
		// active peers are billed whether they are hosts or not (a client's peer may itself be a client)
		peers = append(peers, store.Node{ID: ids[i], IsHost: peerIsHost[i], LastSeen: last})
		count[cellOf[i]]++
	}
	billed := npeers
	if verifapi.Bool("lists-itself") {
		// a node may list its own id among its peers (the stores then track it as its own active peer):
		// it is debited and credited for that entry like for any other
		peers = append(peers, store.Node{ID: ids[0], IsHost: isHost, LastSeen: last})
		count[cellOf[0]]++
		billed++
	}
	node := store.Node{ID: ids[0], IsHost: isHost, LastSeen: last}
	credit := b.intervalCredit(last)
	bal, err := b.OnUpdate(node, peers)
	verifapi.Reach("c02.onupdate")
	if err != nil {
		verifapi.Unreachable("c02.onupdate-no-error-without-minimum")
		return
	}
	total := new(big.Int).Mul(credit, big.NewInt(int64(billed)))
	moved := !isHost && credit.Sign() != 0 && billed > 0
	seen := map[string]bool{}
	for i := 0; i <= npeers; i++ {
		c := cellOf[i]
		if seen[c] {
			continue
		}
		seen[c] = true
		after, gerr := db.GetNodeBalance(ids[i])
		if gerr != nil {
			verifapi.Unreachable("c02.readback")
		}
		want := new(big.Int).Set(cells[c])
		if moved {
			want.Add(want, new(big.Int).Mul(credit, big.NewInt(int64(count[c]))))
			if c == cellOf[0] {
				want.Sub(want, total)
			}
		}
		verifapi.Assert(after.Credit.Cmp(want) == 0, "c02.cell-delta")
	}
	// the balance in the reply is the stored balance of the updating node
	stored, _ := db.GetNodeBalance(ids[0])
	verifapi.Assert(bal.Credit.Cmp(&stored.Credit) == 0, "c02.reply-balance-is-stored")
}

// VerifC02Slicing: billing the same span in k slices never charges more than
// billing it at once, and at most k-1 smallest units less (per peer).
func VerifC02Slicing() {
	k := verifapi.Param("k", 3)
	price := verifapi.BigInt("price")
	interval := verifapi.Dur("interval")
	verifapi.Assume(interval > 0)
	verifapi.Assume(price.Sign() > 0)
	b := &payPerInterval{Interval: interval, CreditPerInterval: *price, now: verifapi.Now}
	now := verifapi.Time("now")
	verifapi.SetNow(now)
	sum := new(big.Int)
	var span int64
	for j := 0; j < k; j++ {
		d := verifapi.Dur(fmt.Sprint("d", j))
		verifapi.Assume(d >= 0)
		verifapi.Assume(d <= 1000000000000000000) // each slice <= ~31 years
		span += int64(d)
		sum.Add(sum, b.intervalCredit(now.Add(-d)))
	}
	whole := b.intervalCredit(now.Add(-timeDur(span)))
	verifapi.Reach("c02.slicing")
	verifapi.Assert(sum.Cmp(whole) <= 0, "c02.slices-never-charge-more")
	upper := new(big.Int).Add(sum, big.NewInt(int64(k-1)))
	verifapi.Assert(whole.Cmp(upper) <= 0, "c02.slices-lose-at-most-k-1-units")
}

func timeDur(n int64) time.Duration { return time.Duration(n) }

// VerifC02Concrete: the per-peer credit on concrete instants, prices and
// intervals that a symbolic integer proof cannot reach if the code ever leaves
// integer arithmetic (floating point is outside the encoder and is executed
// concretely here): non-dyadic ratios of elapsed time to interval, products
// that land exactly on a whole unit, wei-sized and beyond-64-bit prices. The
// credit is exactly floor(elapsed x price / interval), for one and for two
// peers the client is debited exactly the sum.
func VerifC02Concrete() {
	type tc struct {
		elapsed, interval time.Duration
		price             string
	}
	cases := []tc{
		{18 * time.Second, time.Minute, "1000"},
		{42 * time.Second, time.Minute, "1000"},
		{7 * time.Second, time.Minute, "1000000000000000000"},
		{45 * time.Second, time.Minute, "10"},
		{time.Minute + 1, time.Minute, "1000000000000000"},
		{100 * time.Millisecond, time.Minute, "1267650600228229401496703217721"},
		{59*time.Second + 999999999, time.Minute, "3"},
		{90 * time.Second, 7 * time.Second, "13"},
	}
	c := cases[verifapi.Choose("case", len(cases))]
	price, _ := new(big.Int).SetString(c.price, 10)
	db := memory.New()
	t0 := time.Unix(1600000000, 0)
	verifapi.SetNow(t0)
	client := store.NodeID(verifapi.NodeID(0))
	np := 1 + verifapi.Choose("peers", 2)
	db.SetNode(store.Node{ID: client, LastSeen: t0})
	var peers []store.Node
	for i := 0; i < np; i++ {
		id := store.NodeID(verifapi.NodeID(1 + i))
		db.SetNode(store.Node{ID: id, IsHost: true, LastSeen: t0})
		peers = append(peers, store.Node{ID: id, IsHost: true})
	}
	mgr := PayPerInterval(db, c.interval, price)
	verifapi.SetNow(t0.Add(c.elapsed))
	_, err := mgr.OnUpdate(store.Node{ID: client, LastSeen: t0}, peers)
	verifapi.Reach("c02.concrete")
	verifapi.Assert(err == nil, "c02.concrete.update-succeeds")
	want := new(big.Int).Div(new(big.Int).Mul(big.NewInt(int64(c.elapsed)), price), big.NewInt(int64(c.interval)))
	for _, p := range peers {
		b, _ := db.GetNodeBalance(p.ID)
		verifapi.Assert(b.Credit.Cmp(want) == 0, "c02.concrete.peer-credited-floor-of-exact-product")
	}
	cb, _ := db.GetNodeBalance(client)
	verifapi.Assert(new(big.Int).Neg(&cb.Credit).Cmp(new(big.Int).Mul(want, big.NewInt(int64(np)))) == 0, "c02.concrete.client-debited-exactly-the-sum")
}
