package main

import (
	"fmt"
	"go/types"
	"path/filepath"
	"strings"

	"golang.org/x/tools/go/ssa"
)

// Happens-before data-race detection (on in every harness; parameter race=0 switches it off).
//
// Every goroutine carries a vector clock; the synchronisation operations the
// executor models natively carry the edges of the Go memory model: go
// statement, channel send -> receive (per message), receive -> completion of
// the send that needed its slot (capacity edge; rendezvous for unbuffered
// channels), close -> receive that observes it, Unlock -> later Lock,
// completion of a Once -> every Do that returns, atomic read-modify-write.
// Timer, ticker and deadline events come from the environment and carry no edge.
//
// Every load and store of a memory location (Obj + access path; maps as one
// location each) by code of /repo or of a library interpreted on its behalf
// is checked against the previous accesses of the location: two accesses by
// different goroutines, at least one a write, that are not ordered by
// happens-before are reported as the implicit assertion "no-data-race".
// The verdict does not depend on the interleaving of the explored schedule
// actually exhibiting a bad value: it is enough that both accesses occur on
// the path. Accesses made by harness code (files zz_verif_*, verifapi, models)
// are exempt: the harness observes state after verifapi.Quiesce.

type VC []int

func (v VC) get(i int) int {
	if i < len(v) {
		return v[i]
	}
	return 0
}

func vcCopy(v VC) VC {
	r := make(VC, len(v))
	copy(r, v)
	return r
}

func vcJoin(a, b VC) VC {
	n := len(a)
	if len(b) > n {
		n = len(b)
	}
	r := make(VC, n)
	for i := range r {
		x, y := a.get(i), b.get(i)
		if y > x {
			x = y
		}
		r[i] = x
	}
	return r
}

type raceEpoch struct {
	g, c int
	fn   *ssa.Function
	in   ssa.Instruction
}

type raceRec struct {
	path  []int
	w     raceEpoch
	reads []raceEpoch
}

type raceState struct {
	on      bool
	actor   *Goroutine
	off     int // > 0: accesses are synchronisation internals, not data accesses
	objs    map[*Obj][]*raceRec
	maps    map[*MapObj]*raceRec
	atomics map[string]VC
	kind    map[*ssa.Function]int8 // 1 real, 2 harness, 3 inherit
	found   map[string]bool
}

func (m *Machine) raceInit() {
	// on by default; a harness switches it off with the parameter race=0
	m.race.on = true
	if v, ok := m.cfg.Params["race"]; ok && v == 0 {
		m.race.on = false
	}
	m.race.objs = map[*Obj][]*raceRec{}
	m.race.maps = map[*MapObj]*raceRec{}
	m.race.atomics = map[string]VC{}
	m.race.kind = map[*ssa.Function]int8{}
	m.race.found = map[string]bool{}
}

func (m *Machine) fnKind(fn *ssa.Function) int8 {
	if k, ok := m.race.kind[fn]; ok {
		return k
	}
	k := int8(3)
	f := fn
	for f.Parent() != nil {
		f = f.Parent()
	}
	if f.Pkg != nil && f.Synthetic == "" && fn.Pos().IsValid() {
		path := f.Pkg.Pkg.Path()
		switch {
		case !strings.HasPrefix(path, repoMod):
		case strings.Contains(path, "/internal/verif"):
			k = 2
		case strings.HasPrefix(filepath.Base(m.prog.Fset.Position(fn.Pos()).Filename), "zz_verif"):
			k = 2
		default:
			k = 1
		}
	}
	m.race.kind[fn] = k
	return k
}

// frameExempt decides, when a frame is pushed, whether memory accesses made in it count as
// accesses of the code under test.
func (m *Machine) frameExempt(g *Goroutine, fn *ssa.Function) bool {
	if !m.race.on {
		return false
	}
	switch m.fnKind(fn) {
	case 1:
		return false
	case 2:
		return true
	}
	if len(g.frames) == 0 {
		return true
	}
	return g.top().exempt
}

func (m *Machine) vcOf(g *Goroutine) VC {
	if g == nil {
		return nil
	}
	if g.vc == nil {
		g.vc = make(VC, g.id+1)
		g.vc[g.id] = 1
	}
	return g.vc
}

// release: the goroutine's later events are distinguishable from what it has published.
func (m *Machine) vcTick(g *Goroutine) {
	if g == nil {
		return
	}
	v := vcCopy(m.vcOf(g))
	for len(v) <= g.id {
		v = append(v, 0)
	}
	v[g.id]++
	g.vc = v
}

func (m *Machine) vcAcquire(g *Goroutine, from VC) {
	if g == nil || from == nil {
		return
	}
	g.vc = vcJoin(m.vcOf(g), from)
}

func (m *Machine) raceSpawn(parent, child *Goroutine) {
	if !m.race.on {
		return
	}
	child.vc = vcCopy(m.vcOf(parent))
	for len(child.vc) <= child.id {
		child.vc = append(child.vc, 0)
	}
	child.vc[child.id] = 1
	m.vcTick(parent)
}

func related(a, b []int) bool {
	n := len(a)
	if len(b) < n {
		n = len(b)
	}
	for i := 0; i < n; i++ {
		if a[i] != b[i] {
			return false
		}
	}
	return true
}

func samePath(a, b []int) bool { return len(a) == len(b) && related(a, b) }

func (m *Machine) raceCur() (g *Goroutine, ep raceEpoch, ok bool) {
	r := &m.race
	if !r.on || r.off > 0 || r.actor == nil || len(m.gs) < 2 || m.inInit {
		return nil, ep, false
	}
	g = r.actor
	if len(g.frames) == 0 {
		return nil, ep, false
	}
	fr := g.top()
	if fr.exempt {
		return nil, ep, false
	}
	vc := m.vcOf(g)
	ep = raceEpoch{g: g.id, c: vc.get(g.id), fn: fr.fn}
	if fr.block != nil && fr.pc < len(fr.block.Instrs) {
		ep.in = fr.block.Instrs[fr.pc]
	}
	return g, ep, true
}

func (m *Machine) raceCheckRec(g *Goroutine, rec *raceRec, ep raceEpoch, write bool, what string) {
	vc := m.vcOf(g)
	if rec.w.c > 0 && rec.w.g != g.id && rec.w.c > vc.get(rec.w.g) {
		m.raceReport(what, rec.w, true, ep, write)
	}
	if write {
		for _, rd := range rec.reads {
			if rd.g != g.id && rd.c > vc.get(rd.g) {
				m.raceReport(what, rd, false, ep, write)
			}
		}
	}
}

func (rec *raceRec) note(ep raceEpoch, write bool) {
	if write {
		rec.w = ep
		rec.reads = nil
		return
	}
	for i := range rec.reads {
		if rec.reads[i].g == ep.g {
			rec.reads[i] = ep
			return
		}
	}
	rec.reads = append(rec.reads, ep)
}

func (m *Machine) raceObj(o *Obj, path []int, write bool) {
	g, ep, ok := m.raceCur()
	if !ok {
		return
	}
	var exact *raceRec
	for _, rec := range m.race.objs[o] {
		if !related(rec.path, path) {
			continue
		}
		m.raceCheckRec(g, rec, ep, write, locDesc(o, path))
		if samePath(rec.path, path) {
			exact = rec
		}
	}
	if exact == nil {
		exact = &raceRec{path: append([]int(nil), path...)}
		m.race.objs[o] = append(m.race.objs[o], exact)
	}
	exact.note(ep, write)
}

func (m *Machine) raceMap(mo *MapObj, write bool) {
	g, ep, ok := m.raceCur()
	if !ok {
		return
	}
	rec := m.race.maps[mo]
	if rec == nil {
		rec = &raceRec{}
		m.race.maps[mo] = rec
	}
	m.raceCheckRec(g, rec, ep, write, "map")
	rec.note(ep, write)
}

func (m *Machine) posOf(ep raceEpoch) string {
	s := "?"
	if ep.fn != nil {
		s = ep.fn.String()
	}
	if ep.in != nil && ep.in.Pos().IsValid() {
		p := m.prog.Fset.Position(ep.in.Pos())
		s += fmt.Sprintf(" (%s:%d)", filepath.Base(p.Filename), p.Line)
	}
	return s
}

func (m *Machine) raceReport(what string, prev raceEpoch, prevWrite bool, cur raceEpoch, curWrite bool) {
	kind := func(w bool) string {
		if w {
			return "write"
		}
		return "read"
	}
	a, b := m.posOf(prev), m.posOf(cur)
	key := a + "|" + b
	if m.race.found[key] {
		return
	}
	m.race.found[key] = true
	msg := fmt.Sprintf("unsynchronised %s of %s by goroutine %d in %s and %s by goroutine %d in %s", kind(prevWrite), what, prev.g, a, kind(curWrite), cur.g, b)
	m.race.off++
	m.checkAssert(tFalse, "no-data-race", "race", msg)
	m.race.off--
}

// atomicSync: an atomic operation on a location both acquires and releases it.
func (m *Machine) atomicSync(g *Goroutine, p PtrVal, release bool) {
	if !m.race.on || p.obj == nil {
		return
	}
	key := fmt.Sprint(p.obj.id, p.path)
	m.vcAcquire(g, m.race.atomics[key])
	if release {
		m.race.atomics[key] = vcCopy(m.vcOf(g))
		m.vcTick(g)
	}
}

// locDesc names a memory location: the object's type and the fields / indices of the access path.
func locDesc(o *Obj, path []int) string {
	if o.typ == nil {
		return o.name
	}
	t := o.typ
	s := types.TypeString(t, func(p *types.Package) string { return p.Name() })
	for _, i := range path {
		switch u := t.Underlying().(type) {
		case *types.Struct:
			if i < u.NumFields() {
				s += "." + u.Field(i).Name()
				t = u.Field(i).Type()
				continue
			}
		case *types.Array:
			s += fmt.Sprintf("[%d]", i)
			t = u.Elem()
			continue
		}
		s += fmt.Sprintf(".#%d", i)
		break
	}
	return s
}
