package agent

import (
	"context"
	"errors"
	"fmt"

	"github.com/ethereum/go-ethereum/accounts/abi/bind"
	"github.com/ethereum/go-ethereum/rpc"
	"github.com/vipnode/vipnode/v2/ethnode"
	"github.com/vipnode/vipnode/v2/internal/verifapi"
	"github.com/vipnode/vipnode/v2/pool"
	"github.com/vipnode/vipnode/v2/pool/store"
)

// verifNode is a recording ethnode.EthNode.
type verifNode struct {
	ua        ethnode.UserAgent
	peers     []ethnode.PeerInfo
	untrusted []string
	dropped   []string
	connected []string
	trusted   []string
	mutations int
	failPeers bool
}

func (n *verifNode) NodeRPC() *rpc.Client                  { return nil }
func (n *verifNode) ContractBackend() bind.ContractBackend { return nil }
func (n *verifNode) Kind() ethnode.NodeKind                { return n.ua.Kind }
func (n *verifNode) UserAgent() ethnode.UserAgent          { return n.ua }
func (n *verifNode) Enode(ctx context.Context) (string, error) {
	return "enode://" + verifapi.NodeID(0) + "@127.0.0.1:30303", nil
}
func (n *verifNode) AddTrustedPeer(ctx context.Context, id string) error {
	n.mutations++
	n.trusted = append(n.trusted, id)
	return nil
}
func (n *verifNode) RemoveTrustedPeer(ctx context.Context, id string) error {
	n.mutations++
	n.untrusted = append(n.untrusted, id)
	return nil
}
func (n *verifNode) ConnectPeer(ctx context.Context, uri string) error {
	n.mutations++
	n.connected = append(n.connected, uri)
	return nil
}
func (n *verifNode) DisconnectPeer(ctx context.Context, id string) error {
	n.mutations++
	n.dropped = append(n.dropped, id)
	return nil
}
func (n *verifNode) Peers(ctx context.Context) ([]ethnode.PeerInfo, error) {
	if n.failPeers {
		return nil, errors.New("node rpc failed")
	}
	return n.peers, nil
}
func (n *verifNode) BlockNumber(ctx context.Context) (uint64, error) { return 42, nil }

// verifPoolScript is a scripted pool.Pool.
type verifPoolScript struct {
	update       *pool.UpdateResponse
	updateErr    error
	peerResp     *pool.PeerResponse
	peerErr      error
	connectErr   error
	updates      int
	peerReqs     []pool.PeerRequest
	connects     int
	failUpdateAt int // fail the k-th update (1-based); 0 = never
	gate         chan struct{} // when set, an update waits here for the pool's answer
	nullLists    bool          // empty lists are handed out as nil slices
}

func (p *verifPoolScript) Host(ctx context.Context, req pool.HostRequest) (*pool.HostResponse, error) {
	return &pool.HostResponse{}, nil
}
func (p *verifPoolScript) Client(ctx context.Context, req pool.ClientRequest) (*pool.ClientResponse, error) {
	return &pool.ClientResponse{}, nil
}
func (p *verifPoolScript) Connect(ctx context.Context, req pool.ConnectRequest) (*pool.ConnectResponse, error) {
	p.connects++
	if p.connectErr != nil {
		return nil, p.connectErr
	}
	return &pool.ConnectResponse{PoolVersion: "test"}, nil
}
func (p *verifPoolScript) Update(ctx context.Context, req pool.UpdateRequest) (*pool.UpdateResponse, error) {
	p.updates++
	if p.gate != nil {
		<-p.gate
	}
	if p.updateErr != nil || (p.failUpdateAt > 0 && p.updates == p.failUpdateAt) {
		if p.updateErr == nil {
			return nil, errors.New("pool update failed")
		}
		return nil, p.updateErr
	}
	if p.update == nil {
		return &pool.UpdateResponse{}, nil
	}
	// hand out a fresh copy each time (as decoding a reply would)
	r := *p.update
	r.InvalidPeers = append([]string{}, p.update.InvalidPeers...)
	r.ActivePeers = append([]string{}, p.update.ActivePeers...)
	if len(r.ActivePeers) == 0 && p.nullLists {
		// an empty list may arrive as JSON null (or not at all): decoded, that is a nil slice
		r.ActivePeers = nil
	}
	if len(r.InvalidPeers) == 0 && p.nullLists {
		r.InvalidPeers = nil
	}
	return &r, nil
}
func (p *verifPoolScript) Peer(ctx context.Context, req pool.PeerRequest) (*pool.PeerResponse, error) {
	p.peerReqs = append(p.peerReqs, req)
	if p.peerErr != nil {
		return nil, p.peerErr
	}
	return p.peerResp, nil
}
func (p *verifPoolScript) Withdraw(ctx context.Context) error { return nil }

// URI alphabet with ground truth (id, routable host; "" = no routable address).
type verifURI struct {
	uri  string
	id   string
	host string
}

func verifURIs() []verifURI {
	a, b := verifapi.NodeID(1), verifapi.NodeID(2)
	return []verifURI{
		{a, a, ""},
		{"enode://" + a + "@192.0.2.1:30303", a, "192.0.2.1"},
		{"enode://" + a + "@192.0.2.2:30303", a, "192.0.2.2"},
		{"enode://" + a + "@192.0.2.1:40404", a, "192.0.2.1"},
		{"enode://" + b + "@192.0.2.1:30303", b, "192.0.2.1"},
		{"enode://" + b + "@127.0.0.1:30303", b, ""},
		{"enode://" + b + "@[::]:30303", b, ""},
		{"enode://" + b + "@[2001:db8::1]:30303", b, "2001:db8::1"},
		{"enode://" + a + "@192.0.2.1", a, "192.0.2.1"}, // an address without a port (ports are not compared)
	}
}

func verifCountStr(xs []string, x string) int {
	n := 0
	for _, y := range xs {
		if y == x {
			n++
		}
	}
	return n
}

// VerifC18Update: one keep-alive round of the agent against a scripted pool.
func VerifC18Update() {
	uris := verifURIs()
	nLocal := verifapi.Param("local", 2)
	nReply := verifapi.Param("reply", 2)
	nInvalid := verifapi.Param("invalid", nReply)
	topup := verifapi.Param("topup", 1) == 1 // explore the top-up dimensions (target, pool reply size, kind)
	node := &verifNode{}
	node.ua = ethnode.UserAgent{Kind: ethnode.Geth, IsFullNode: false}
	if topup {
		node.ua = ethnode.UserAgent{Kind: []ethnode.NodeKind{ethnode.Geth, ethnode.Parity}[verifapi.Choose("kind", 2)], IsFullNode: verifapi.Bool("full")}
	}
	type local struct{ id, host string }
	var locals []local
	for i := 0; i < nLocal; i++ {
		k := verifapi.Choose(fmt.Sprint("local", i), 7) // 0 = absent
		if k == 0 {
			continue
		}
		// local peers as the node reports them: id + remote address; newer nodes report a hash as id
		// and the node id (public key) inside a separate enode field
		// (the address inside that field is what the peer advertises about itself, which need not be the address
		// it is connected from: the connection's address is the one that counts)
		shape := []struct{ id, addr, host, hash, adv string }{
			{verifapi.NodeID(1), "192.0.2.1:30303", "192.0.2.1", "", ""},
			{verifapi.NodeID(1), "192.0.2.2:51000", "192.0.2.2", "", ""},
			{verifapi.NodeID(2), "192.0.2.1:30303", "192.0.2.1", "", ""},
			{verifapi.NodeID(3), "[2001:db8::1]:30303", "2001:db8::1", "", ""},
			{verifapi.NodeID(2), "192.0.2.1:30303", "192.0.2.1", "6f8a1c2e5d9b3a7f4e0c1d2b3a4f5e6d7c8b9a0f1e2d3c4b5a69788796a5b4c3", ""},
			{verifapi.NodeID(1), "192.0.2.1:30303", "192.0.2.1", "7a8a1c2e5d9b3a7f4e0c1d2b3a4f5e6d7c8b9a0f1e2d3c4b5a69788796a5b4c3", "192.0.2.2:30303"},
		}[k-1]
		pi := ethnode.PeerInfo{ID: shape.id}
		if shape.hash != "" {
			pi.ID, pi.Enode = shape.hash, "enode://"+shape.id+"@"+shape.addr
			if shape.adv != "" {
				pi.Enode = "enode://" + shape.id + "@" + shape.adv
			}
		}
		pi.Network.RemoteAddress = shape.addr
		node.peers = append(node.peers, pi)
		locals = append(locals, local{shape.id, shape.host})
	}
	script := &verifPoolScript{update: &pool.UpdateResponse{}, nullLists: verifapi.Bool("empty-lists-arrive-as-null")}
	type act struct{ id, host string }
	var actives []act
	for i := 0; i < nReply; i++ {
		k := verifapi.Choose(fmt.Sprint("active", i), len(uris)+2) // 0 absent, last = unparsable
		switch {
		case k == 0:
		case k == len(uris)+1:
			script.update.ActivePeers = append(script.update.ActivePeers, "enode://%zz")
		default:
			u := uris[k-1]
			script.update.ActivePeers = append(script.update.ActivePeers, u.uri)
			actives = append(actives, act{u.id, u.host})
		}
	}
	var poolInvalid []string // ids the pool declared invalid
	for i := 0; i < nInvalid; i++ {
		k := verifapi.Choose(fmt.Sprint("invalid", i), 5)
		switch k {
		case 4: // an enode URI without an address
			script.update.InvalidPeers = append(script.update.InvalidPeers, "enode://"+verifapi.NodeID(1))
			poolInvalid = append(poolInvalid, verifapi.NodeID(1))
		case 1:
			script.update.InvalidPeers = append(script.update.InvalidPeers, verifapi.NodeID(1))
			poolInvalid = append(poolInvalid, verifapi.NodeID(1))
		case 2:
			script.update.InvalidPeers = append(script.update.InvalidPeers, "enode://"+verifapi.NodeID(3)+"@192.0.2.3:30303")
			poolInvalid = append(poolInvalid, verifapi.NodeID(3))
		case 3:
			script.update.InvalidPeers = append(script.update.InvalidPeers, verifapi.NodeID(4))
			poolInvalid = append(poolInvalid, verifapi.NodeID(4))
		}
	}
	updateFails := verifapi.Bool("updatefails")
	if updateFails {
		script.updateErr = errors.New("pool refused the update")
	}
	nPeerHosts := 0
	if topup {
		nPeerHosts = verifapi.Choose("peerhosts", 3)
	}
	script.peerResp = &pool.PeerResponse{}
	for i := 0; i < nPeerHosts; i++ {
		script.peerResp.Peers = append(script.peerResp.Peers, store.Node{ID: store.NodeID(verifapi.NodeID(4)), URI: fmt.Sprintf("enode://%s@192.0.2.%d:30303", verifapi.NodeID(4), 10+i)})
	}
	a := &Agent{EthNode: node, StrictPeers: verifapi.Bool("strict"), NumHosts: 0}
	if topup {
		a.NumHosts = verifapi.Choose("numhosts", 4)
	}
	a.nodeInfo = node.ua
	err := a.UpdatePeers(context.Background(), script)
	verifapi.Reach("c18.round")
	if updateFails {
		verifapi.Assert(err != nil, "c18.failed-update-reported")
		verifapi.Assert(node.mutations == 0, "c18.failed-update-changes-nothing-on-the-node")
		verifapi.Assert(len(script.peerReqs) == 0, "c18.failed-update-requests-no-peers")
		return
	}
	// expected removals
	expect := map[string]bool{}
	for _, id := range poolInvalid {
		expect[id] = true
	}
	if a.StrictPeers {
		for _, l := range locals {
			listed := false
			for _, ac := range actives {
				if ac.id == l.id && ac.host == l.host {
					listed = true
				}
			}
			if !listed {
				expect[l.id] = true
			}
		}
	}
	verifapi.Class("strict-drops-pool-declared-invalid", a.StrictPeers)
	for _, id := range []string{verifapi.NodeID(1), verifapi.NodeID(2), verifapi.NodeID(3), verifapi.NodeID(4)} {
		nu, nd := verifCountStr(node.untrusted, id), verifCountStr(node.dropped, id)
		if expect[id] {
			verifapi.Assert(nu >= 1, "c18.invalid-peer-untrusted")
			verifapi.Assert(nd >= 1, "c18.invalid-peer-disconnected")
		} else {
			verifapi.Assert(nu == 0 && nd == 0, "c18.no-other-peer-removed")
		}
	}
	verifapi.Assert(len(node.untrusted) == len(node.dropped), "c18.untrust-and-disconnect-go-together")
	// top-up
	need := a.NumHosts - len(script.update.ActivePeers)
	if need > 0 {
		verifapi.Assert(len(script.peerReqs) == 1, "c18.shortfall-requested-once")
		if len(script.peerReqs) == 1 {
			verifapi.Assert(script.peerReqs[0].Num == need, "c18.requests-exactly-the-shortfall")
			wantKind := ""
			if !node.ua.IsFullNode {
				wantKind = node.ua.Kind.String()
			}
			verifapi.Assert(script.peerReqs[0].Kind == wantKind, "c18.kind-is-own-kind-iff-light")
		}
		verifapi.Assert(len(node.connected) == nPeerHosts, "c18.connects-to-every-returned-host")
		for i, h := range script.peerResp.Peers {
			if i < len(node.connected) {
				verifapi.Assert(node.connected[i] == h.URI, "c18.connects-to-returned-uri")
			}
		}
	} else {
		verifapi.Assert(len(script.peerReqs) == 0, "c18.no-request-without-shortfall")
		verifapi.Assert(len(node.connected) == 0, "c18.no-connect-without-request")
	}
	verifapi.Assert(len(node.trusted) == 0, "c18.update-round-trusts-nobody")
}

// VerifFakeNode exposes the recording node to harnesses of other packages.
func VerifFakeNode() ethnode.EthNode { return &verifNode{ua: ethnode.UserAgent{Kind: ethnode.Geth}} }

// VerifC18Started: the keep-alive rounds as the running agent performs them:
// the one Start itself sends right after registering, then one per tick. In
// every round - the first included - a shortfall is requested exactly once,
// with exactly the missing number and the agent's own node kind iff it is a
// light client, and the node connects to every returned host.
func VerifC18Started() {
	node := &verifNode{}
	node.ua = ethnode.UserAgent{Kind: []ethnode.NodeKind{ethnode.Geth, ethnode.Parity}[verifapi.Choose("kind", 2)], IsFullNode: verifapi.Bool("full")}
	script := &verifPoolScript{update: &pool.UpdateResponse{}, peerResp: &pool.PeerResponse{}}
	nActive := verifapi.Choose("active", 3)
	for i := 0; i < nActive; i++ {
		script.update.ActivePeers = append(script.update.ActivePeers, fmt.Sprintf("enode://%s@192.0.2.%d:30303", verifapi.NodeID(1+i), 1+i))
	}
	nPeerHosts := verifapi.Choose("peerhosts", 3)
	for i := 0; i < nPeerHosts; i++ {
		script.peerResp.Peers = append(script.peerResp.Peers, store.Node{ID: store.NodeID(verifapi.NodeID(4)), URI: fmt.Sprintf("enode://%s@192.0.2.%d:30303", verifapi.NodeID(4), 10+i)})
	}
	a := &Agent{EthNode: node, NumHosts: verifapi.Choose("numhosts", 4)}
	wantKind := ""
	if !node.ua.IsFullNode {
		wantKind = node.ua.Kind.String()
	}
	need := a.NumHosts - nActive
	reqs, conns := 0, 0
	check := func() {
		if need > 0 {
			verifapi.Assert(len(script.peerReqs) == reqs+1, "c18.shortfall-requested-once")
			if len(script.peerReqs) == reqs+1 {
				verifapi.Assert(script.peerReqs[reqs].Num == need, "c18.requests-exactly-the-shortfall")
				verifapi.Assert(script.peerReqs[reqs].Kind == wantKind, "c18.kind-is-own-kind-iff-light")
			}
			verifapi.Assert(len(node.connected) == conns+nPeerHosts, "c18.connects-to-every-returned-host")
		} else {
			verifapi.Assert(len(script.peerReqs) == reqs, "c18.no-request-without-shortfall")
			verifapi.Assert(len(node.connected) == conns, "c18.no-connect-without-request")
		}
		reqs, conns = len(script.peerReqs), len(node.connected)
	}
	err := a.Start(script)
	verifapi.Quiesce()
	verifapi.Assert(err == nil, "c20.start-succeeds")
	verifapi.Assert(script.connects == 1 && script.updates == 1, "c20.start-registers-and-sends-first-keepalive")
	check()
	for t := 0; t < verifapi.Param("ticks", 1); t++ {
		before := script.updates
		ok := verifapi.FireTicker(verifapi.Tickers() - 1)
		verifapi.Quiesce()
		verifapi.Assert(ok && script.updates == before+1, "c20.one-keepalive-per-tick")
		check()
	}
	verifapi.Reach("c18.started")
	a.Stop()
	verifapi.Quiesce()
}

// VerifC18Rounds: several keep-alive rounds of ONE agent in which the same
// peer has to go more than once: the pool declares it invalid (or strict
// peering stops listing it), it is removed, it comes back onto the node - the
// pool has the agent whitelist it again, or it simply dials in again - and a
// later round has to remove it again. After EACH round every peer that round
// condemned has been un-trusted and disconnected in that round, and no other.
func VerifC18Rounds() {
	node := &verifNode{ua: ethnode.UserAgent{Kind: ethnode.Geth, IsFullNode: true}}
	bad, good := verifapi.NodeID(1), verifapi.NodeID(2)
	peer := func(id, addr string) ethnode.PeerInfo {
		pi := ethnode.PeerInfo{ID: id}
		pi.Network.RemoteAddress = addr
		return pi
	}
	script := &verifPoolScript{update: &pool.UpdateResponse{}}
	a := &Agent{EthNode: node, StrictPeers: verifapi.Bool("strict")}
	a.nodeInfo = node.ua
	rounds := verifapi.Param("rounds", 3)
	for r := 0; r < rounds; r++ {
		// what is on the node now: the good peer, and possibly the bad one (again)
		badPresent := verifapi.Bool(fmt.Sprint("bad-peer-present", r))
		node.peers = []ethnode.PeerInfo{peer(good, "192.0.2.2:30303")}
		if badPresent {
			node.peers = append(node.peers, peer(bad, "192.0.2.1:30303"))
			if verifapi.Bool(fmt.Sprint("whitelisted-again", r)) {
				// the pool asked this agent (a host) to let the peer in again since the last round
				a.Whitelist(context.Background(), bad)
			}
		}
		// the pool's verdict of this round
		condemn := verifapi.Bool(fmt.Sprint("declared-invalid", r))
		script.update = &pool.UpdateResponse{ActivePeers: []string{"enode://" + good + "@192.0.2.2:30303"}}
		if condemn {
			script.update.InvalidPeers = []string{bad}
		} else if !a.StrictPeers || !badPresent {
			script.update.ActivePeers = append(script.update.ActivePeers, "enode://"+bad+"@192.0.2.1:30303")
		}
		nu, nd := verifCountStr(node.untrusted, bad), verifCountStr(node.dropped, bad)
		gu, gd := verifCountStr(node.untrusted, good), verifCountStr(node.dropped, good)
		err := a.UpdatePeers(context.Background(), script)
		verifapi.Assert(err == nil, "c18.rounds.update-succeeds")
		// strict peering condemns the bad peer too when it is present and not listed
		listed := false
		for _, u := range script.update.ActivePeers {
			listed = listed || u == "enode://"+bad+"@192.0.2.1:30303"
		}
		mustGo := condemn || (a.StrictPeers && badPresent && !listed)
		if mustGo {
			// (at least once: a peer that is both declared invalid and unlisted under strict peering is told twice)
			verifapi.Assert(verifCountStr(node.untrusted, bad) >= nu+1 && verifCountStr(node.dropped, bad) >= nd+1, "c18.invalid-peer-untrusted-and-disconnected-in-every-round")
		} else {
			verifapi.Assert(verifCountStr(node.untrusted, bad) == nu && verifCountStr(node.dropped, bad) == nd, "c18.no-other-peer-removed")
		}
		verifapi.Assert(verifCountStr(node.untrusted, good) == gu && verifCountStr(node.dropped, good) == gd, "c18.no-other-peer-removed")
	}
	verifapi.Reach("c18.rounds")
}
