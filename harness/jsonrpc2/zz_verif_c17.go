package jsonrpc2

import (
	"encoding/json"
	"fmt"

	"github.com/vipnode/vipnode/v2/internal/verifapi"
)

// VerifC17Stream: m messages written to a stream codec are read back exactly
// once, intact and in order, however the byte stream is cut into reads.
func VerifC17Stream() {
	rwc := verifapi.NewStream()
	w := IOCodec(rwc)
	r := IOCodec(rwc)
	n := verifapi.Param("msgs", 2)
	ids := make([]int, n)
	for i := 0; i < n; i++ {
		ids[i] = 10 + i
		id, _ := json.Marshal(ids[i])
		params, _ := json.Marshal([]interface{}{verifapi.Int64(fmt.Sprint("token", i))})
		msg := &Message{ID: id, Version: Version, Request: &Request{Method: fmt.Sprint("m", i), Params: params}}
		if err := w.WriteMessage(msg); err != nil {
			verifapi.Unreachable("c17.write-error")
		}
	}
	verifapi.Class("new-decoder-per-read-loses-read-ahead", true)
	var held []*Message
	defer func() {
		// messages handed out earlier are still what they were after the later reads
		for i, m := range held {
			want, _ := json.Marshal(ids[i])
			verifapi.Assert(string(m.ID) == string(want) && m.Request != nil && m.Request.Method == fmt.Sprint("m", i), "c17.message-intact-after-later-reads")
		}
	}()
	for i := 0; i < n; i++ {
		got, err := r.ReadMessage()
		verifapi.Assert(err == nil, "c17.every-written-message-is-read")
		if err != nil {
			return
		}
		held = append(held, got)
		want, _ := json.Marshal(ids[i])
		verifapi.Assert(string(got.ID) == string(want), "c17.messages-arrive-in-order")
		verifapi.Assert(got.Request != nil && got.Request.Method == fmt.Sprint("m", i), "c17.message-intact")
	}
	_, err := r.ReadMessage()
	verifapi.Reach("c17.stream")
	verifapi.Assert(err != nil, "c17.no-message-read-twice")
}

// VerifC17LongLived: a stream connection that has been up for a while: a
// message is written and read, an arbitrary amount of further traffic flows,
// then another ordinary message (at most 4 KiB) is written: it is read intact
// like the first one. Whatever per-message limits the codec applies must not
// add up over the life of the connection.
func VerifC17LongLived() {
	rwc := verifapi.NewStream()
	w := IOCodec(rwc)
	r := IOCodec(rwc)
	write := func(i int) {
		id, _ := json.Marshal(10 + i)
		params, _ := json.Marshal([]interface{}{verifapi.Int64(fmt.Sprint("token", i))})
		if err := w.WriteMessage(&Message{ID: id, Version: Version, Request: &Request{Method: fmt.Sprint("m", i), Params: params}}); err != nil {
			verifapi.Unreachable("c17.write-error")
		}
	}
	read := func(i int) {
		got, err := r.ReadMessage()
		verifapi.Assert(err == nil, "c17.every-written-message-is-read")
		if err == nil {
			want, _ := json.Marshal(10 + i)
			verifapi.Assert(string(got.ID) == string(want) && got.Request != nil && got.Request.Method == fmt.Sprint("m", i), "c17.message-intact")
		}
	}
	write(0)
	read(0)
	verifapi.StreamHistory(rwc)
	write(1)
	read(1)
	verifapi.Reach("c17.longlived")
}
