//go:build !verifreplay

package gorilla

import "github.com/gorilla/websocket"

// verifConn returns a modelled websocket connection (frame transport); verifOverlap
// reports whether two WriteJSON or two ReadJSON calls ever overlapped on it.
func verifConn() *websocket.Conn
func verifOverlap(c *websocket.Conn) bool

// verifPeerWrites: the other side of the connection sends v as one JSON data
// frame, text or binary (RFC 6455 leaves the choice to the sender; the repo's
// own gobwas codec sends binary frames).
func verifPeerWrites(c *websocket.Conn, v interface{}, binary bool)
