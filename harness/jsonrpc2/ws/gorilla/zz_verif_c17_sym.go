//go:build !verifreplay

package gorilla

import "github.com/gorilla/websocket"

// verifConn returns a modelled websocket connection (frame transport); verifOverlap
// reports whether two WriteJSON or two ReadJSON calls ever overlapped on it.
func verifConn() *websocket.Conn
func verifOverlap(c *websocket.Conn) bool
