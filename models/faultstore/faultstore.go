// Package faultstore wraps a store.Store so that one chosen call fails with a
// storage fault (a full disk, a lost connection to the database, an exhausted
// retry budget): the failing call has no effect and returns ErrFault with
// zero results, every other call goes through. Harnesses pick the failing
// call symbolically, so "a fault at any one store call" is explored.
package faultstore

import (
	"errors"
	"math/big"

	"github.com/vipnode/vipnode/v2/pool/store"
)

// ErrFault is the error of the failing call.
var ErrFault = errors.New("verif: storage fault")

// Store is a store.Store whose FailAt-th counted call (0-based) fails.
type Store struct {
	store.Store
	FailAt int    // index of the counted call that fails; negative: none
	Only   string // if set, only calls of this method are counted
	Calls  int    // counted calls so far
	Failed string // the method whose call failed ("" while none did)
}

// New wraps s; no call fails until Arm is called.
func New(s store.Store) *Store { return &Store{Store: s, FailAt: -1} }

// Arm restarts counting: the at-th counted call from now on fails (negative: none).
func (s *Store) Arm(at int, only string) {
	s.FailAt, s.Only, s.Calls, s.Failed = at, only, 0, ""
}

// Disarm lets every later call through.
func (s *Store) Disarm() { s.FailAt = -1 }

func (s *Store) hit(name string) bool {
	if s.FailAt < 0 || (s.Only != "" && s.Only != name) {
		return false
	}
	i := s.Calls
	s.Calls++
	if i == s.FailAt {
		s.Failed = name
		return true
	}
	return false
}

func (s *Store) CheckAndSaveNonce(ID string, nonce int64) error {
	if s.hit("CheckAndSaveNonce") {
		return ErrFault
	}
	return s.Store.CheckAndSaveNonce(ID, nonce)
}

func (s *Store) GetNode(id store.NodeID) (*store.Node, error) {
	if s.hit("GetNode") {
		return nil, ErrFault
	}
	return s.Store.GetNode(id)
}

func (s *Store) SetNode(n store.Node) error {
	if s.hit("SetNode") {
		return ErrFault
	}
	return s.Store.SetNode(n)
}

func (s *Store) ActiveHosts(kind string, limit int) ([]store.Node, error) {
	if s.hit("ActiveHosts") {
		return nil, ErrFault
	}
	return s.Store.ActiveHosts(kind, limit)
}

func (s *Store) NodePeers(id store.NodeID) ([]store.Node, error) {
	if s.hit("NodePeers") {
		return nil, ErrFault
	}
	return s.Store.NodePeers(id)
}

func (s *Store) UpdateNodePeers(id store.NodeID, peers []string, blockNumber uint64) ([]store.NodeID, error) {
	if s.hit("UpdateNodePeers") {
		return nil, ErrFault
	}
	return s.Store.UpdateNodePeers(id, peers, blockNumber)
}

func (s *Store) AddAccountNode(a store.Account, id store.NodeID) error {
	if s.hit("AddAccountNode") {
		return ErrFault
	}
	return s.Store.AddAccountNode(a, id)
}

func (s *Store) IsAccountNode(a store.Account, id store.NodeID) error {
	if s.hit("IsAccountNode") {
		return ErrFault
	}
	return s.Store.IsAccountNode(a, id)
}

func (s *Store) GetAccountNodes(a store.Account) ([]store.NodeID, error) {
	if s.hit("GetAccountNodes") {
		return nil, ErrFault
	}
	return s.Store.GetAccountNodes(a)
}

func (s *Store) GetNodeBalance(id store.NodeID) (store.Balance, error) {
	if s.hit("GetNodeBalance") {
		return store.Balance{}, ErrFault
	}
	return s.Store.GetNodeBalance(id)
}

func (s *Store) AddNodeBalance(id store.NodeID, credit *big.Int) error {
	if s.hit("AddNodeBalance") {
		return ErrFault
	}
	return s.Store.AddNodeBalance(id, credit)
}

func (s *Store) GetAccountBalance(a store.Account) (store.Balance, error) {
	if s.hit("GetAccountBalance") {
		return store.Balance{}, ErrFault
	}
	return s.Store.GetAccountBalance(a)
}

func (s *Store) AddAccountBalance(a store.Account, credit *big.Int) error {
	if s.hit("AddAccountBalance") {
		return ErrFault
	}
	return s.Store.AddAccountBalance(a, credit)
}

func (s *Store) Stats() (*store.Stats, error) {
	if s.hit("Stats") {
		return nil, ErrFault
	}
	return s.Store.Stats()
}
