package agent

import (
	"context"
	"errors"
	"fmt"
	"time"

	"github.com/vipnode/vipnode/v2/ethnode"
	"github.com/vipnode/vipnode/v2/internal/verifapi"
	"github.com/vipnode/vipnode/v2/pool/store"
)

// VerifC20Script: event scripts over Start / Stop / Wait / ticks with a
// scripted pool that may fail at connect or at a keep-alive.
func VerifC20Script() {
	node := &verifNode{ua: ethnode.UserAgent{Kind: ethnode.Geth}}
	// the node already has peers (one of them unknown to the pool): whatever happens to the loop, a
	// failed keep-alive must not touch them (C18)
	node.peers = []ethnode.PeerInfo{{ID: verifapi.NodeID(1)}, {ID: verifapi.NodeID(2)}}
	script := &verifPoolScript{}
	a := &Agent{EthNode: node}
	custom := verifapi.Bool("custominterval")
	iv := verifapi.Dur("interval")
	verifapi.Assume(iv > 0)
	if custom {
		a.UpdateInterval = iv
	}
	running := false // the harness's ghost: is a loop supposed to be running?
	nev := verifapi.Param("events", 4)
	for e := 0; e < nev; e++ {
		k := verifapi.Choose(fmt.Sprint("ev", e), 5)
		switch k {
		case 0: // Start (the pool may refuse the connect)
			// the pool may refuse the connect, or fail the first keep-alive that Start itself sends
			mode := verifapi.Choose(fmt.Sprint("startfailure", e), 3)
			fails := mode != 0 && !running
			script.connectErr = nil
			if mode == 1 {
				script.connectErr = errors.New("pool down")
			}
			if mode == 2 && !running {
				script.failUpdateAt = script.updates + 1
			}
			tickers := verifapi.Tickers()
			err := a.Start(script)
			verifapi.Quiesce()
			if running {
				verifapi.Class("started-flag-never-set", true)
				verifapi.Assert(err == ErrAlreadyStarted, "c20.second-start-refused")
				verifapi.Assert(verifapi.LiveGoroutines() == 1, "c20.exactly-one-loop")
			} else if fails {
				verifapi.Assert(err != nil, "c20.failed-start-reported")
				verifapi.Assert(verifapi.LiveGoroutines() == 0, "c20.failed-start-leaves-nothing-running")
				script.failUpdateAt = 0
			} else {
				verifapi.Assert(err == nil, "c20.start-succeeds")
				verifapi.Assert(verifapi.LiveGoroutines() == 1, "c20.exactly-one-loop")
				verifapi.Assert(verifapi.Tickers() == tickers+1, "c20.one-ticker-per-loop")
				want := time.Duration(store.KeepaliveInterval)
				if custom {
					want = iv
				}
				verifapi.Assert(verifapi.TickInterval(tickers) == want, "c20.tick-interval-is-configured")
				running = true
			}
		case 1: // Stop (only meaningful while running; Stop on an idle agent blocks - outside the statement)
			if !running {
				verifapi.Assume(false)
			}
			a.Stop()
			verifapi.Quiesce()
			running = false
			verifapi.Assert(verifapi.LiveGoroutines() == 0, "c20.stop-ends-the-loop")
			verifapi.Assert(a.Wait() == nil, "c20.wait-returns-after-stop")
		case 2: // a tick
			if !running {
				verifapi.Assume(false)
			}
			before := script.updates
			touched := node.mutations
			fails := verifapi.Bool(fmt.Sprint("updatefails", e))
			if fails {
				script.failUpdateAt = script.updates + 1
			}
			// one tick of the running loop's ticker (tickers of earlier loops are never read again)
			ok := verifapi.FireTicker(verifapi.Tickers() - 1)
			verifapi.Quiesce()
			verifapi.Assert(ok, "c20.ticker-armed-while-running")
			verifapi.Assert(script.updates == before+1, "c20.one-keepalive-per-tick")
			if fails {
				verifapi.Assert(node.mutations == touched, "c18.failed-keepalive-changes-nothing-on-the-node")
				// a failed keep-alive ends the loop; waiting reports the error
				verifapi.Assert(verifapi.LiveGoroutines() == 0, "c20.failed-keepalive-ends-loop")
				verifapi.Assert(a.Wait() != nil, "c20.wait-reports-keepalive-error")
				running = false
				script.failUpdateAt = 0
				verifapi.Class("loop-death-leaves-started", true)
			}
		default: // nothing
		}
	}
	verifapi.Reach("c20.script")
}

// VerifC20Race: two concurrent Starts.
func VerifC20Race() {
	node := &verifNode{ua: ethnode.UserAgent{Kind: ethnode.Geth}}
	script := &verifPoolScript{}
	a := &Agent{EthNode: node}
	res := make(chan error, 2)
	for i := 0; i < 2; i++ {
		go func() { res <- a.Start(script) }()
	}
	oks, refused := 0, 0
	for i := 0; i < 2; i++ {
		err := <-res
		if err == nil {
			oks++
		} else if err == ErrAlreadyStarted {
			refused++
		}
	}
	verifapi.Quiesce()
	verifapi.Reach("c20.race")
	verifapi.Class("started-flag-never-set", true)
	verifapi.Assert(oks == 1 && refused == 1, "c20.concurrent-starts-one-wins")
	verifapi.Assert(verifapi.LiveGoroutines() == 1, "c20.race-exactly-one-loop")
}

// VerifC20EarlyWait: somebody starts waiting for the agent before, or while,
// it is being started (at any point of Start, delays permitting): the loop
// ending - by Stop or by a failed keep-alive - still makes that wait return,
// with the loop's result.
func VerifC20EarlyWait() {
	node := &verifNode{ua: ethnode.UserAgent{Kind: ethnode.Geth}}
	script := &verifPoolScript{}
	a := &Agent{EthNode: node}
	returned, failed := false, false
	go func() {
		err := a.Wait()
		returned, failed = true, err != nil
	}()
	if verifapi.Bool("waiter-first") {
		verifapi.Quiesce() // the waiter is blocked before Start begins
	}
	err := a.Start(script)
	verifapi.Quiesce()
	verifapi.Assert(err == nil, "c20.start-succeeds")
	verifapi.Assert(!returned, "c20.wait-blocks-while-running")
	byFailure := verifapi.Bool("keepalive-fails")
	if byFailure {
		script.failUpdateAt = script.updates + 1
		verifapi.FireTicker(verifapi.Tickers() - 1)
	} else {
		a.Stop()
	}
	verifapi.Quiesce()
	verifapi.Reach("c20.earlywait")
	verifapi.Assert(returned, "c20.wait-returns-after-loop-ends")
	verifapi.Assert(failed == byFailure, "c20.wait-reports-the-loops-result")
	verifapi.Assert(verifapi.LiveGoroutines() == 0, "c20.stop-ends-the-loop")
}

// VerifC20ForcedUpdate: while the agent runs, somebody forces a keep-alive
// round (Agent.UpdatePeers is exported for that) and the pool is slow to
// answer it. Meanwhile the agent can still be told to start (refused, at
// once) or to stop (the loop ends and waiting returns); the forced round
// finishes when the pool answers.
func VerifC20ForcedUpdate() {
	node := &verifNode{ua: ethnode.UserAgent{Kind: ethnode.Geth}}
	script := &verifPoolScript{}
	a := &Agent{EthNode: node}
	err := a.Start(script)
	verifapi.Quiesce()
	verifapi.Assert(err == nil && verifapi.LiveGoroutines() == 1, "c20.start-succeeds")
	script.gate = make(chan struct{})
	forced := make(chan error, 1)
	go func() { forced <- a.UpdatePeers(context.Background(), script) }()
	verifapi.Quiesce() // the forced round is now waiting for the pool
	stopped := false
	switch verifapi.Choose("meanwhile", 3) {
	case 0:
		verifapi.Assert(a.Start(script) == ErrAlreadyStarted, "c20.second-start-refused")
	case 1:
		a.Stop()
		verifapi.Quiesce()
		stopped = true
		verifapi.Assert(verifapi.LiveGoroutines() == 1, "c20.stop-ends-the-loop") // only the forced round is left
		verifapi.Assert(a.Wait() == nil, "c20.wait-returns-after-stop")
	}
	close(script.gate)
	verifapi.Quiesce()
	verifapi.Reach("c20.forced")
	verifapi.Assert(<-forced == nil, "c20.forced-round-completes")
	want := 1
	if stopped {
		want = 0
	}
	verifapi.Assert(verifapi.LiveGoroutines() == want, "c20.exactly-one-loop")
}

// VerifC20Uncollected: start / stop cycles in which nobody (or only
// sometimes somebody) calls Wait for the stopped run: every Stop ends the
// loop - no keep-alive answers a later tick - and the agent can be started
// again each time, however many results were never collected.
func VerifC20Uncollected() {
	node := &verifNode{ua: ethnode.UserAgent{Kind: ethnode.Geth}}
	script := &verifPoolScript{}
	a := &Agent{EthNode: node}
	runs := verifapi.Param("runs", 3)
	for r := 0; r < runs; r++ {
		err := a.Start(script)
		verifapi.Quiesce()
		verifapi.Assert(err == nil, "c20.restart-after-stop")
		if err != nil {
			return
		}
		if verifapi.Bool(fmt.Sprint("tick", r)) {
			before := script.updates
			ok := verifapi.FireTicker(verifapi.Tickers() - 1)
			verifapi.Quiesce()
			verifapi.Assert(ok && script.updates == before+1, "c20.one-keepalive-per-tick")
		}
		a.Stop()
		verifapi.Quiesce()
		before := script.updates
		verifapi.FireTicker(verifapi.Tickers() - 1)
		verifapi.Quiesce()
		verifapi.Assert(script.updates == before, "c20.stop-ends-the-loop")
		if verifapi.Bool(fmt.Sprint("wait", r)) {
			verifapi.Assert(a.Wait() == nil, "c20.wait-returns-after-stop")
		}
	}
	verifapi.Reach("c20.uncollected")
}

// VerifC20BusyStop: Stop is called while the loop is busy inside a keep-alive the pool has not answered yet, and
// another Start arrives before Stop returns. When the pool finally answers and everything has settled, there
// is at most one loop, and the agent refuses a further Start exactly if a loop of its own is still running
// (a tick gets a keep-alive) - never a running loop next to an agent that believes it is stopped.
func VerifC20BusyStop() {
	node := &verifNode{ua: ethnode.UserAgent{Kind: ethnode.Geth}}
	script := &verifPoolScript{}
	a := &Agent{EthNode: node}
	if err := a.Start(script); err != nil {
		verifapi.Unreachable("c20.busystop.start")
		return
	}
	verifapi.Quiesce()
	script.gate = make(chan struct{})
	verifapi.FireTicker(verifapi.Tickers() - 1)
	verifapi.Quiesce() // the loop is now inside Update, waiting for the pool
	go a.Stop()
	verifapi.Quiesce()
	second := make(chan error, 1)
	go func() { second <- a.Start(script) }()
	verifapi.Quiesce()
	close(script.gate) // the pool answers
	verifapi.Quiesce()
	verifapi.Reach("c20.busystop")
	live := 0
	for i := 0; i < verifapi.Tickers(); i++ {
		before := script.updates
		verifapi.FireTicker(i)
		verifapi.Quiesce()
		if script.updates > before {
			live++
		}
	}
	verifapi.Assert(live <= 1, "c20.exactly-one-loop")
	err := a.Start(script)
	verifapi.Quiesce()
	if live == 1 {
		verifapi.Assert(err == ErrAlreadyStarted, "c20.busystop.running-loop-means-start-refused")
	} else {
		verifapi.Assert(err == nil, "c20.restart-after-stop")
	}
}
