package jsonrpc2

import (
	"context"
	"encoding/json"

	"github.com/vipnode/vipnode/v2/internal/verifapi"
)

// verifShape builds a message of an arbitrary shape.
func verifShape(tag string, callID json.RawMessage) *Message {
	m := &Message{Version: Version}
	switch verifapi.Choose(tag+".id", 5) {
	case 0:
		m.ID = callID
	case 1:
		m.ID = json.RawMessage("99")
	case 3:
		m.ID = json.RawMessage("-3") // ids are strings or numbers: also negative ones (the client's counter wraps)
	case 4:
		m.ID = json.RawMessage("2.5e3")
	default: // no id
	}
	switch verifapi.Choose(tag+".request", 3) {
	case 1:
		m.Request = &Request{Method: "nosuchmethod"}
	case 2:
		p, _ := json.Marshal([]interface{}{"x"})
		m.Request = &Request{Method: "echo", Params: p}
	}
	switch verifapi.Choose(tag+".response", 5) {
	case 1:
		m.Response = &Response{}
	case 2:
		m.Response = &Response{Result: json.RawMessage("null")}
	case 3:
		r, _ := json.Marshal(verifapi.Int64(tag + ".result"))
		m.Response = &Response{Result: r}
	case 4:
		m.Response = &Response{Error: &ErrResponse{Code: ErrCodeInternal, Message: "boom"}}
	}
	return m
}

// VerifC15Reply: whatever message shape arrives while a call is waiting
// (reply without result and error, without id, for an unknown id, a request
// without id, ...), nothing panics, the read loop goes on to the next
// message, and the waiting call still gets its well-formed reply.
func VerifC15Reply() {
	codec := &verifOneShotCodec{block: make(chan struct{})}
	h := &verifEcho{handled: map[string]int{}, ctxOK: true}
	r := &Remote{Codec: codec, Client: &Client{}, Server: h}
	h.self = r
	callID := json.RawMessage("1") // the first id Client hands out
	odd := verifShape("odd", callID)
	tok := verifapi.Int64("token")
	good, _ := json.Marshal(tok)
	codec.msgs = []*Message{odd, {ID: callID, Version: Version, Response: &Response{Result: good}}}
	done := make(chan error, 1)
	var got int64
	go func() { done <- r.Call(context.Background(), &got, "echo", "x") }()
	verifapi.Quiesce() // the call is now waiting for id 1
	go r.Serve()
	err := <-done
	verifapi.Quiesce()
	verifapi.Reach("c15.reply")
	// the odd message may legitimately have answered the call (it carried its id and was a reply);
	// otherwise the well-formed reply must have been delivered
	answeredByOdd := string(odd.ID) == "1" && odd.Request == nil
	if !answeredByOdd {
		verifapi.Assert(err == nil && got == tok, "c15.call-still-gets-its-reply-after-odd-message")
	}
	if err != nil {
		// whatever error a call returns is one its caller can use: callers print it and ask it for its
		// code (jsonrpc2.IsErrorCode does, in the agent and in the pool)
		_ = err.Error()
		_ = IsErrorCode(err, ErrCodeMethodNotFound, ErrCodeInvalidParams)
	}
	verifapi.Assert(codec.pos == 2, "c15.read-loop-continues-after-odd-message")
	// every request got a well-formed reply carrying its own id
	for _, w := range codec.written {
		if w.Request != nil {
			continue // the outgoing call itself
		}
		verifapi.Assert(w.Response != nil && (w.Response.Error != nil || len(w.Response.Result) > 0), "c15.every-request-gets-result-or-error")
		verifapi.Assert(w.Version == Version, "c15.reply-well-formed")
	}
}

// VerifC15Handle: Server.Handle answers any message shape with a well-formed reply carrying the request's id.
func VerifC15Handle() {
	srv := &Server{}
	in := verifShape("in", json.RawMessage("5"))
	out := srv.Handle(context.Background(), in)
	verifapi.Reach("c15.handle")
	verifapi.Assert(out != nil && out.Response != nil, "c15.handle-always-replies")
	if out != nil && out.Response != nil {
		verifapi.Assert(string(out.ID) == string(in.ID), "c15.handle-reply-carries-request-id")
		verifapi.Assert(out.Version == Version, "c15.handle-reply-version")
		verifapi.Assert(out.Response.Error != nil || len(out.Response.Result) > 0, "c15.handle-reply-has-result-or-error")
	}
}
