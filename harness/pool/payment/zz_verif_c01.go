package payment

import (
	"context"
	"errors"
	"fmt"
	"math/big"
	"time"

	"github.com/vipnode/vipnode/v2/internal/verifapi"
	"github.com/vipnode/vipnode/v2/internal/verifmodels/sigs"
	"github.com/vipnode/vipnode/v2/pool"
	"github.com/vipnode/vipnode/v2/pool/store"
)

// verifWorld is an arbitrary reachable pool state built through public APIs.
type verifWorld struct {
	db      store.Store
	dep     *pool.VerifDeposits
	p       *pool.VipnodePool
	pay     *PaymentService
	nodes   []store.NodeID
	wallets []store.Account
	hosts   map[store.NodeID]*pool.VerifHost
	paid    *big.Int // cumulative amount disbursed by the settle stub
	settles int
	t0      verifapi.Snap
}

func verifSettleStub(w *verifWorld, failName string) SettleHandler {
	return func(account store.Account, amount *big.Int, newBalance *big.Int) (string, error) {
		w.settles++
		if verifapi.Bool(failName) {
			return "", errors.New("settle failed")
		}
		w.paid.Add(w.paid, amount)
		w.dep.Deposit[account] = new(big.Int).Set(newBalance)
		return "tx", nil
	}
}

// verifBuildWorld: nnodes nodes (symbolic host flags, wallet links, credits,
// deposits), tracked peers from an earlier keep-alive of node 0.
func verifBuildWorld(db store.Store, nnodes int, min *big.Int, price *big.Int) *verifWorld {
	w := &verifWorld{db: db, paid: new(big.Int), hosts: map[store.NodeID]*pool.VerifHost{}}
	w.wallets = []store.Account{store.Account(verifapi.Wallet(0)), store.Account(verifapi.Wallet(1))}
	w.dep = &pool.VerifDeposits{Store: db, Deposit: map[store.Account]*big.Int{}}
	for i, a := range w.wallets {
		w.dep.Deposit[a] = verifapi.BigInt(fmt.Sprint("deposit", i))
	}
	w.p = pool.VerifNewPool(db, w.dep, price, 60000000000, min)
	w.pay = &PaymentService{NonceStore: db, AccountStore: db, BalanceStore: w.dep}
	t0 := verifapi.Time("t0")
	verifapi.SetNow(t0)
	for i := 0; i < nnodes; i++ {
		id := store.NodeID(verifapi.NodeID(i))
		w.nodes = append(w.nodes, id)
		isHost := verifapi.Bool(fmt.Sprint("ishost", i))
		if i == 0 {
			isHost = false // node 0 is the billed client in update operations
		}
		db.SetNode(store.Node{ID: id, IsHost: isHost, Kind: "geth", LastSeen: t0, URI: "enode://" + string(id) + "@192.0.2.1:30303"})
		if i > 0 {
			h := &pool.VerifHost{Name: fmt.Sprint("h", i), Addr: "192.0.2.1:999", Behaviours: 2}
			w.hosts[id] = h
			pool.VerifRegisterRemote(w.p, id, h)
		}
		switch verifapi.Choose(fmt.Sprint("wallet", i), 3) {
		case 1:
			db.AddAccountNode(w.wallets[0], id)
		case 2:
			db.AddAccountNode(w.wallets[1], id)
		}
		db.AddNodeBalance(id, verifapi.BigInt(fmt.Sprint("credit", i)))
	}
	return w
}

func (w *verifWorld) total() *big.Int { return pool.VerifTotalCredit(w.db, w.nodes, w.wallets) }

func (w *verifWorld) statsTotal() *big.Int {
	st, err := w.db.Stats()
	if err != nil {
		verifapi.Unreachable("c01.stats-error")
		return new(big.Int)
	}
	return &st.TotalCredit
}

// VerifC01Step: one pool / payment operation from an arbitrary ledger leaves
// the sum of credit unchanged (a successful withdrawal: minus what it settled).
func VerifC01Step() {
	nn := verifapi.Param("nodes", 3)
	var min *big.Int
	if verifapi.Bool("hasmin") {
		min = verifapi.BigInt("min")
	}
	price := big.NewInt(100000000000)
	if verifapi.Param("symbolic_price", 0) == 1 {
		price = verifapi.BigInt("price")
		verifapi.Assume(price.Sign() > 0)
	}
	w := verifBuildWorld(newVerifStore(), nn, min, price)
	client := string(w.nodes[0])
	// earlier keep-alive: node 0 tracks a subset of the others
	var tracked []string
	for i := 1; i < nn; i++ {
		if verifapi.Bool(fmt.Sprint("tracked", i)) {
			tracked = append(tracked, string(w.nodes[i]))
		}
	}
	w.db.UpdateNodePeers(w.nodes[0], tracked, 0)
	dt := verifapi.Dur("dt")
	verifapi.Assume(dt >= 0)
	verifapi.Assume(dt <= 1000000000000000)
	verifapi.SetNow(verifapi.Now().Add(dt))

	before := w.total()
	verifapi.Assert(before.Cmp(w.statsTotal()) == 0, "c01.stats-total-is-true-sum")
	settled := new(big.Int)
	ctx := context.Background()
	op := verifapi.Choose("op", 8)
	if only := verifapi.Param("only_op", -1); only >= 0 {
		verifapi.Assume(op == only)
	}
	if n := verifapi.Param("conflict_storm", 0); n > 0 {
		// other requests are being served too: any commit of the operation may hit up to n conflicts
		verifapi.KVStorm(n)
	}
	switch op {
	case 0: // keep-alive of the client reporting a subset
		var rep []string
		for i := 1; i < nn; i++ {
			if verifapi.Bool(fmt.Sprint("reported", i)) {
				rep = append(rep, string(w.nodes[i]))
			}
		}
		pool.VerifUpdate(w.p, ctx, client, rep...)
	case 1: // (re)connect of node 1 as host or client
		pool.VerifConnect(w.p, &pool.VerifHost{Name: "c", Addr: "192.0.2.9:1"}, verifapi.NodeID(1%nn), verifapi.Bool("full"), "")
	case 2: // peer request
		req := pool.PeerRequest{Num: 1 + verifapi.Choose("num", 2)}
		nonce := pool.VerifFreshNonce()
		w.p.Peer(ctx, sigs.SignFor(client, "vipnode_peer", nonce, req), client, nonce, req)
	case 3: // refused keep-alive (bad signature)
		req := pool.UpdateRequest{PeerInfo: pool.VerifPeerInfos(tracked...)}
		w.p.Update(ctx, "garbage", client, pool.VerifFreshNonce(), req)
	case 4: // keep-alive of an unregistered node
		pool.VerifUpdate(w.p, ctx, verifapi.NodeID(4), tracked...)
	case 5: // account linking
		wal := string(w.wallets[verifapi.Choose("linkwallet", 2)])
		nid := verifapi.NodeID(verifapi.Choose("linknode", nn))
		nonce := pool.VerifFreshNonce()
		w.pay.AddNode(ctx, sigs.SignFor(wal, "pool_addNode", nonce, nid), wal, nonce, nid)
	case 6: // withdrawal (settlement may fail)
		wal := w.wallets[verifapi.Choose("wwallet", 2)]
		w.pay.Settle = verifSettleStub(w, "settlefails")
		bal, _ := w.db.GetAccountBalance(wal)
		credit := new(big.Int).Set(&bal.Credit)
		nonce := pool.VerifFreshNonce()
		err := w.pay.Withdraw(ctx, sigs.SignFor(string(wal), "pool_withdraw", nonce), string(wal), nonce)
		if err == nil {
			settled = credit // what the successful withdrawal settled of the pool ledger
			verifapi.Class("credit-not-reset-after-withdraw", true)
		}
	case 7: // refused withdrawal
		wal := w.wallets[0]
		w.pay.Settle = verifSettleStub(w, "settlefails")
		w.pay.Withdraw(ctx, "garbage", string(wal), pool.VerifFreshNonce())
	}
	verifapi.Reach("c01.step")
	after := w.total()
	want := new(big.Int).Sub(before, settled)
	verifapi.Assert(after.Cmp(want) == 0, "c01.sum-preserved")
	verifapi.Assert(after.Cmp(w.statsTotal()) == 0, "c01.stats-total-is-true-sum-after")
}

// VerifC01Concurrent: two clients that share a host send their keep-alives
// at the same time; at quiescence the ledger sum is unchanged (with the
// persistent driver this includes the optimistic-transaction conflicts the
// two updates provoke on the shared host's balance).
func VerifC01Concurrent() {
	price := big.NewInt(100000000000)
	db := newVerifStore()
	w := &verifWorld{db: db, paid: new(big.Int), hosts: map[store.NodeID]*pool.VerifHost{}}
	w.wallets = []store.Account{store.Account(verifapi.Wallet(0)), store.Account(verifapi.Wallet(1))}
	w.dep = &pool.VerifDeposits{Store: db, Deposit: map[store.Account]*big.Int{}}
	w.p = pool.VerifNewPool(db, w.dep, price, 60000000000, nil)
	t0 := verifapi.Time("t0")
	verifapi.SetNow(t0)
	host := store.NodeID(verifapi.NodeID(1))
	clients := []store.NodeID{store.NodeID(verifapi.NodeID(0)), store.NodeID(verifapi.NodeID(2))}
	w.nodes = []store.NodeID{clients[0], host, clients[1]}
	db.SetNode(store.Node{ID: host, IsHost: true, Kind: "geth", LastSeen: t0, URI: "enode://h@192.0.2.1:30303"})
	if verifapi.Bool("hostlinked") {
		db.AddAccountNode(w.wallets[0], host)
	}
	if verifapi.Bool("hostcredited") { // earlier earnings of the host (trial or wallet)
		db.AddNodeBalance(host, verifapi.BigInt("hostcredit"))
	}
	for i, c := range clients {
		db.SetNode(store.Node{ID: c, Kind: "geth", LastSeen: t0})
		if verifapi.Bool(fmt.Sprint("clientlinked", i)) {
			db.AddAccountNode(w.wallets[1], c)
		}
		db.AddNodeBalance(c, verifapi.BigInt(fmt.Sprint("credit", i)))
		db.UpdateNodePeers(c, []string{string(host)}, 0)
	}
	dt := verifapi.Dur("dt")
	verifapi.Assume(dt > 60000000000 && dt < 100000000000) // something to bill, host still active
	verifapi.SetNow(t0.Add(dt))
	db.UpdateNodePeers(host, nil, 0)
	before := w.total()
	bal := func(id store.NodeID) *big.Int {
		b, _ := db.GetNodeBalance(id)
		return new(big.Int).Set(&b.Credit)
	}
	hostWas, clientWas := bal(host), []*big.Int{bal(clients[0]), bal(clients[1])}
	done := make(chan error, 2)
	w.pay = &PaymentService{NonceStore: db, AccountStore: db, BalanceStore: w.dep}
	switch verifapi.Param("mode", 0) {
	case 0: // two clients' keep-alives
		for _, c := range clients {
			go func(c store.NodeID) {
				_, err := pool.VerifUpdate(w.p, context.Background(), string(c), string(host))
				done <- err
			}(c)
		}
	case 1: // a client's keep-alive credits the host while the host is being linked to a wallet
		go func() {
			_, err := pool.VerifUpdate(w.p, context.Background(), string(clients[0]), string(host))
			done <- err
		}()
		go func() {
			wal := string(w.wallets[verifapi.Choose("linkwallet", 2)])
			nonce := pool.VerifFreshNonce() + 1000
			done <- w.pay.AddNode(context.Background(), sigs.SignFor(wal, "pool_addNode", nonce, string(host)), wal, nonce, string(host))
		}()
	default: // a client's keep-alive credits the host while the host sends its own keep-alive
		go func() {
			_, err := pool.VerifUpdate(w.p, context.Background(), string(clients[0]), string(host))
			done <- err
		}()
		go func() {
			_, err := pool.VerifUpdate(w.p, context.Background(), string(host))
			done <- err
		}()
	}
	failed := 0
	for range clients {
		if err := <-done; err != nil {
			failed++
		}
	}
	verifapi.Reach("c01.concurrent")
	if verifapi.Param("mode", 0) == 0 && failed == 0 && !(verifapi.Param("samewallet", 0) == 1) {
		// C02: each keep-alive credits the shared host elapsed x price / interval and debits its client
		// exactly that - unless the nodes share balances through wallets, then only the sum is claimed
		shared := false
		for _, a := range w.wallets {
			n := 0
			for _, id := range w.nodes {
				if db.IsAccountNode(a, id) == nil {
					n++
				}
			}
			shared = shared || n > 1
		}
		if !shared {
			exp := new(big.Int).Div(new(big.Int).Mul(big.NewInt(int64(dt)), price), big.NewInt(60000000000))
			verifapi.Assert(new(big.Int).Sub(bal(host), hostWas).Cmp(new(big.Int).Mul(exp, big.NewInt(2))) == 0, "c02.concurrent.host-credited-by-both-keepalives")
			for i, c := range clients {
				verifapi.Assert(new(big.Int).Sub(clientWas[i], bal(c)).Cmp(exp) == 0, "c02.concurrent.client-debited-its-own-charge")
			}
		}
	}
	if verifapi.KVConflicts() > 0 || verifapi.Param("driver", 0) == 0 { // (the memory driver has no conflicts to explore)
		verifapi.Reach("c01.concurrent.conflict-path-explored")
	}
	verifapi.Class("peer-credit-conflict-ignored", verifapi.KVConflicts() > 0)
	verifapi.Assert(w.total().Cmp(before) == 0, "c01.concurrent-sum-preserved")
}

// VerifC01WithdrawDuringUpdate (REAL math/big code, concrete amounts): a
// wallet withdraws while a client's keep-alive credits a host linked to the
// same wallet. Whatever the interleaving, the ledger changes by exactly the
// credit the withdrawal settled; nothing a keep-alive moved is destroyed.
func VerifC01WithdrawDuringUpdate() {
	db := newVerifStore()
	wHost, wClient := store.Account(verifapi.Wallet(0)), store.Account(verifapi.Wallet(1))
	dep := &pool.VerifDeposits{Store: db, Deposit: map[store.Account]*big.Int{wHost: big.NewInt(0), wClient: big.NewInt(0)}}
	p := pool.VerifNewPool(db, dep, big.NewInt(100000000000), 60000000000, nil)
	pay := &PaymentService{NonceStore: db, AccountStore: db, BalanceStore: dep}
	t0 := time.Unix(1600000000, 0) // concrete: the real math/big code runs on concrete words
	verifapi.SetNow(t0)
	host, client := store.NodeID(verifapi.NodeID(1)), store.NodeID(verifapi.NodeID(0))
	db.SetNode(store.Node{ID: host, IsHost: true, Kind: "geth", LastSeen: t0, URI: "enode://h@192.0.2.1:30303"})
	db.SetNode(store.Node{ID: client, Kind: "geth", LastSeen: t0})
	db.AddAccountNode(wHost, host)
	db.AddAccountNode(wClient, client)
	// the host's wallet has earned in several steps (so the stored number has spare capacity)
	db.AddNodeBalance(host, big.NewInt(3000))
	db.AddNodeBalance(host, big.NewInt(5000))
	db.AddNodeBalance(client, big.NewInt(1000000000000000))
	db.UpdateNodePeers(client, []string{string(host)}, 0)
	verifapi.SetNow(t0.Add(90000000000)) // 1.5 intervals to bill
	db.UpdateNodePeers(host, nil, 0)
	nodes := []store.NodeID{client, host}
	wallets := []store.Account{wHost, wClient}
	before := pool.VerifTotalCredit(db, nodes, wallets)
	settledCredit := new(big.Int)
	pay.Settle = func(account store.Account, amount *big.Int, newBalance *big.Int) (string, error) {
		verifapi.Yield()
		// deposit is zero, so what is paid out is exactly the settled credit
		settledCredit.Add(settledCredit, amount)
		return "tx", nil
	}
	done := make(chan error, 2)
	go func() {
		nonce := pool.VerifFreshNonce()
		done <- pay.Withdraw(context.Background(), sigs.SignFor(string(wHost), "pool_withdraw", nonce), string(wHost), nonce)
	}()
	go func() {
		_, err := pool.VerifUpdate(p, context.Background(), string(client), string(host))
		done <- err
	}()
	e1, e2 := <-done, <-done
	verifapi.Reach("c01.withdraw-during-update")
	verifapi.Assert(e1 == nil && e2 == nil, "c01.both-calls-succeed")
	after := pool.VerifTotalCredit(db, nodes, wallets)
	want := new(big.Int).Sub(before, settledCredit)
	verifapi.Assert(after.Cmp(want) == 0, "c01.withdrawal-removes-exactly-what-it-settled")
}

// VerifC01Storm: one keep-alive of a client with one (or two) active hosts
// on the persistent driver while other requests are being served: every
// commit of the keep-alive may hit ErrConflict up to n times in a row (KVStorm:
// an abstraction of any number of concurrent writers). However many conflicts
// there are, the keep-alive moves credit - it never creates or loses any.
func VerifC01Storm() {
	db := newVerifStore()
	w := &verifWorld{db: db, paid: new(big.Int), hosts: map[store.NodeID]*pool.VerifHost{}}
	w.wallets = []store.Account{store.Account(verifapi.Wallet(0)), store.Account(verifapi.Wallet(1))}
	w.dep = &pool.VerifDeposits{Store: db, Deposit: map[store.Account]*big.Int{}}
	w.p = pool.VerifNewPool(db, w.dep, big.NewInt(60), 60000000000, nil)
	t0 := time.Unix(1600000000, 0)
	verifapi.SetNow(t0)
	client := store.NodeID(verifapi.NodeID(0))
	nh := verifapi.Param("hosts", 1)
	w.nodes = []store.NodeID{client}
	db.SetNode(store.Node{ID: client, Kind: "geth", LastSeen: t0})
	db.AddNodeBalance(client, big.NewInt(1000))
	var hosts []string
	for i := 0; i < nh; i++ {
		h := store.NodeID(verifapi.NodeID(1 + i))
		w.nodes = append(w.nodes, h)
		hosts = append(hosts, string(h))
		db.SetNode(store.Node{ID: h, IsHost: true, Kind: "geth", LastSeen: t0, URI: "enode://h@192.0.2.1:30303"})
	}
	if verifapi.Bool("clientlinked") {
		db.AddAccountNode(w.wallets[0], client)
	}
	db.UpdateNodePeers(client, hosts, 0)
	verifapi.SetNow(t0.Add(30 * time.Second))
	before := w.total()
	credit := func(id store.NodeID) *big.Int {
		b, _ := db.GetNodeBalance(id)
		return new(big.Int).Set(&b.Credit)
	}
	var was []*big.Int
	for _, id := range w.nodes {
		was = append(was, credit(id))
	}
	verifapi.KVStorm(verifapi.Param("conflict_storm", 6))
	_, err := pool.VerifUpdate(w.p, context.Background(), string(client), hosts...)
	verifapi.KVStorm(0)
	verifapi.Reach("c01.storm")
	if err != nil {
		verifapi.Observe("update-error", err.Error())
	} else {
		// C02: 30 s at 60 per minute = 30 per active host, debited from the client exactly once each
		for i, id := range w.nodes {
			delta := new(big.Int).Sub(credit(id), was[i])
			want := big.NewInt(30)
			if i == 0 {
				want = big.NewInt(int64(-30 * nh))
			}
			verifapi.Assert(delta.Cmp(want) == 0, "c02.storm.each-peer-credited-once-client-debited-the-sum")
		}
	}
	verifapi.Assert(w.total().Cmp(before) == 0, "c01.sum-preserved")
	verifapi.Assert(w.total().Cmp(w.statsTotal()) == 0, "c01.stats-total-is-true-sum-after")
}
