package pool

import (
	"context"
	"fmt"
	"math/big"
	"time"

	"github.com/vipnode/vipnode/v2/ethnode"
	"github.com/vipnode/vipnode/v2/internal/verifapi"
	"github.com/vipnode/vipnode/v2/internal/verifmodels/sigs"
	"github.com/vipnode/vipnode/v2/jsonrpc2"
	"github.com/vipnode/vipnode/v2/pool/store"
)

// VerifC10GuardedPool: the host-connection registry is only touched under the pool mutex.
func VerifC10GuardedPool() {
	db := newVerifStore()
	p := VerifNewPool(db, db, big.NewInt(100000000000), 60000000000, big.NewInt(-1))
	now := verifapi.Time("now")
	verifapi.SetNow(now)
	h := &VerifHost{Name: "h", Addr: "192.0.2.1:1", Behaviours: 2}
	h2 := &VerifHost{Name: "h2", Addr: "192.0.2.2:1", Behaviours: 2}
	hid, cid := verifapi.NodeID(1), verifapi.NodeID(0)
	VerifConnect(p, h, hid, true, "")
	VerifConnect(p, &VerifHost{Name: "c"}, cid, false, "")
	VerifUpdate(p, context.Background(), cid, hid)
	verifapi.GuardedBy(p.remoteHosts, &p.mu)
	verifapi.GuardedBy(p.remoteNodeLookup, &p.mu)
	switch verifapi.Choose("op", 6) {
	case 0:
		VerifConnect(p, h2, hid, true, "")
	case 1:
		p.CloseRemote(h)
	case 2:
		p.NumRemotes()
	case 3:
		req := PeerRequest{Num: 1}
		nonce := VerifFreshNonce()
		p.Peer(context.Background(), sigs.SignFor(verifapi.NodeID(2), "vipnode_peer", nonce, req), verifapi.NodeID(2), nonce, req)
	case 4:
		p.disconnectPeers(context.Background(), cid, []store.Node{{ID: store.NodeID(hid)}})
	case 5:
		verifapi.SetNow(now.Add(70000000000))
		VerifUpdate(p, context.Background(), cid, hid)
	}
	verifapi.Reach("c10.guarded.pool")
	verifapi.Assert(verifapi.LocksHeld() == 0, "c10.no-lock-held-at-return")
	verifapi.Unguard()
}

// verifSerialWorld is one copy of the state the serialisability check runs on.
type verifSerialWorld struct {
	db    store.Store
	p     *VipnodePool
	hosts []*VerifHost
}

type verifSerialIn struct {
	credit  []*big.Int
	linked  []bool
	nonces  []int64
	dt      int64
	hostAck []int
	same    bool // both calls come from the first client (its keep-alive and its own reconnect)
}

func verifSerialBuild(in *verifSerialIn, tag string) *verifSerialWorld {
	db := newVerifStore()
	w := &verifSerialWorld{db: db}
	w.p = VerifNewPool(db, db, big.NewInt(100000000000), 60000000000, nil)
	t0 := verifapi.Now()
	wal := store.Account(verifapi.Wallet(0))
	host := store.NodeID(verifapi.NodeID(1))
	h := &VerifHost{Name: tag + "h", Addr: "192.0.2.1:1", Behaviours: 1}
	w.hosts = append(w.hosts, h)
	db.SetNode(store.Node{ID: host, IsHost: true, Kind: "geth", LastSeen: t0, URI: "enode://h@192.0.2.1:30303"})
	VerifRegisterRemote(w.p, host, h)
	for i, c := range []string{verifapi.NodeID(0), verifapi.NodeID(2)} {
		db.SetNode(store.Node{ID: store.NodeID(c), Kind: "geth", LastSeen: t0})
		if in.linked[i] {
			db.AddAccountNode(wal, store.NodeID(c))
		}
		db.AddNodeBalance(store.NodeID(c), in.credit[i])
		db.UpdateNodePeers(store.NodeID(c), []string{string(host)}, 0)
	}
	return w
}

// verifLedgerDigest: the balances and peer sets of a world.
func verifLedgerDigest(w *verifSerialWorld) verifapi.Snap {
	var d []interface{}
	for _, id := range []string{verifapi.NodeID(0), verifapi.NodeID(1), verifapi.NodeID(2)} {
		b, err := w.db.GetNodeBalance(store.NodeID(id))
		d = append(d, err != nil, new(big.Int).Set(&b.Credit))
		peers, _ := w.db.NodePeers(store.NodeID(id))
		n := 0
		for _, p := range peers {
			if p.ID == store.NodeID(verifapi.NodeID(1)) || p.ID == store.NodeID(verifapi.NodeID(0)) || p.ID == store.NodeID(verifapi.NodeID(2)) {
				n++
			}
		}
		d = append(d, n, len(peers))
	}
	return verifapi.Snapshot(d)
}

// call k of agent a (0/1) with its pre-drawn nonce
func (w *verifSerialWorld) call(kind int, agent int, in *verifSerialIn) error {
	_, err := w.callReply(kind, agent, in)
	return err
}

// verifUpdateDigest is what a keep-alive's caller sees.
func verifUpdateDigest(resp *UpdateResponse, err error) verifapi.Snap {
	if err != nil || resp == nil {
		return verifapi.Snapshot([]interface{}{"error", err != nil})
	}
	// (the balance a reply reports is the stored one at the moment it was read, which may already
	// include the other caller's charge: the statement is about the resulting balances, so it is not compared)
	return verifapi.Snapshot([]interface{}{len(resp.InvalidPeers), len(resp.ActivePeers)})
}

// callReply is call, also returning a digest of the reply the caller sees.
func (w *verifSerialWorld) callReply(kind int, agent int, in *verifSerialIn) (verifapi.Snap, error) {
	id := []string{verifapi.NodeID(0), verifapi.NodeID(2)}[agent]
	if in.same {
		id = verifapi.NodeID(0)
	}
	nonce := in.nonces[agent]
	ctx := context.Background()
	switch kind {
	case 0: // keep-alive
		req := UpdateRequest{PeerInfo: VerifPeerInfos(verifapi.NodeID(1)), BlockNumber: 1}
		resp, err := w.p.Update(ctx, sigs.SignFor(id, "vipnode_update", nonce, req), id, nonce, req)
		return verifUpdateDigest(resp, err), err
	case 1: // peer request
		req := PeerRequest{Num: 1}
		resp, err := w.p.Peer(ctx, sigs.SignFor(id, "vipnode_peer", nonce, req), id, nonce, req)
		n := 0
		if resp != nil {
			n = len(resp.Peers)
		}
		return verifapi.Snapshot([]interface{}{n, err != nil}), err
	case 2: // the shared host's own keep-alive (signed by the host)
		hid := verifapi.NodeID(1)
		req := UpdateRequest{BlockNumber: 2}
		resp, err := w.p.Update(ctx, sigs.SignFor(hid, "vipnode_update", nonce, req), hid, nonce, req)
		return verifUpdateDigest(resp, err), err
	default: // reconnect as a client
		req := ConnectRequest{NodeInfo: ethnode.UserAgent{Kind: ethnode.Geth}}
		_, err := w.p.Connect(jsonrpc2.VerifCtxWithService(ctx, &VerifHost{Name: "c"}), sigs.SignFor(id, "vipnode_connect", nonce, req), id, nonce, req)
		return verifapi.Snapshot(err != nil), err
	}
}

// VerifC10Serial: two agents that share a host (and possibly a wallet) call
// the pool at the same time: the final store equals the result of one of the
// two one-at-a-time orders.
func VerifC10Serial() {
	t0 := verifapi.Time("t0")
	verifapi.SetNow(t0)
	in := &verifSerialIn{credit: []*big.Int{verifapi.BigInt("credit0"), verifapi.BigInt("credit1")},
		linked: []bool{verifapi.Bool("linked0"), verifapi.Bool("linked1")}}
	dt := verifapi.Dur("dt")
	verifapi.Assume(dt > 0 && dt < 100000000000)
	k0, k1 := verifapi.Choose("call0", 2), verifapi.Choose("call1", 3)
	if verifapi.Param("sameclient", 0) == 1 {
		// one client's keep-alive (or peer request) racing its own reconnect
		in.same, k1 = true, 3
	}
	conc := verifSerialBuild(in, "x")
	ab := verifSerialBuild(in, "y")
	ba := verifSerialBuild(in, "z")
	verifapi.SetNow(t0.Add(dt))
	now := verifapi.Now().UnixNano()
	in.nonces = []int64{now + 1, now + 2}
	// the two serial orders
	abR0, _ := ab.callReply(k0, 0, in)
	abR1, _ := ab.callReply(k1, 1, in)
	baR1, _ := ba.callReply(k1, 1, in)
	baR0, _ := ba.callReply(k0, 0, in)
	// the concurrent run
	done := make(chan error, 2)
	var r0, r1 verifapi.Snap
	go func() {
		var err error
		r0, err = conc.callReply(k0, 0, in)
		done <- err
	}()
	go func() {
		var err error
		r1, err = conc.callReply(k1, 1, in)
		done <- err
	}()
	e1, e2 := <-done, <-done
	if e1 != nil {
		verifapi.Observe("conc-error-a", e1.Error())
	}
	if e2 != nil {
		verifapi.Observe("conc-error-b", e2.Error())
	}
	if in.same {
		// what C10 speaks of: balances, peer sets, nonce decisions (the refusals compared above) - not the
		// other fields of the node record, which a reconnect and a keep-alive of the same node both rewrite.
		// A further keep-alive, later, shows what the race left behind for billing.
		verifapi.SetNow(t0.Add(dt).Add(45000000000))
		in.nonces = []int64{now + 45000000001, 0}
		for _, w := range []*verifSerialWorld{conc, ab, ba} {
			w.db.UpdateNodePeers(store.NodeID(verifapi.NodeID(1)), nil, 0) // the host checks in
			if _, err := w.callReply(0, 0, in); err != nil {
				verifapi.Unreachable("c10.serial.followup")
				return
			}
		}
		verifapi.Reach("c10.serial")
		got := verifLedgerDigest(conc)
		verifapi.Assert(verifapi.Same(got, verifLedgerDigest(ab)) || verifapi.Same(got, verifLedgerDigest(ba)), "c10.balances-and-peer-sets-equal-a-serial-order")
		return
	}
	verifapi.Reach("c10.serial")
	got := verifapi.Snapshot(conc.db)
	verifapi.Assert(verifapi.Same(got, verifapi.Snapshot(ab.db)) || verifapi.Same(got, verifapi.Snapshot(ba.db)), "c10.final-state-equals-a-serial-order")
	// ... and so do the peer verdicts and refusals the two callers got, in that same order
	asAB := verifapi.Same(got, verifapi.Snapshot(ab.db)) && verifapi.Same(r0, abR0) && verifapi.Same(r1, abR1)
	asBA := verifapi.Same(got, verifapi.Snapshot(ba.db)) && verifapi.Same(r0, baR0) && verifapi.Same(r1, baR1)
	verifapi.Assert(asAB || asBA, "c10.replies-and-state-equal-one-serial-order")
	// no lost update: every charge acknowledged is in the ledger
	verifapi.Assert(len(conc.hosts[0].Calls) == len(ab.hosts[0].Calls) || len(conc.hosts[0].Calls) == len(ba.hosts[0].Calls), "c10.host-instructions-as-in-a-serial-order")
}

var _ = fmt.Sprint

// VerifC10Replies: the balance in a keep-alive reply is a snapshot. With the
// REAL math/big code interpreted, a history of keep-alives through the real
// pool and balance manager on the memory driver: the numbers in every earlier
// reply (client's and host's view) still read what they read when the reply
// was produced, after all later keep-alives.
func VerifC10Replies() {
	db := newVerifStore()
	var bs store.BalanceStore = db
	// with deposit=1 balances are read through a deposit-adding store (as with the contract-backed payment): a
	// paying client has spent more than it earned, its credit is negative and covered by its deposit
	paying := verifapi.Param("deposit", 0) == 1
	if paying {
		bs = &VerifDeposits{Store: db, Deposit: map[store.Account]*big.Int{store.Account(verifapi.Wallet(0)): big.NewInt(100000)}}
	}
	p := VerifNewPool(db, bs, big.NewInt(60), 60000000000, nil) // 1 unit per second and host
	now := time.Unix(1600000000, 0)
	verifapi.SetNow(now)
	cid, hid := verifapi.NodeID(0), verifapi.NodeID(1)
	db.SetNode(store.Node{ID: store.NodeID(hid), IsHost: true, LastSeen: now, URI: "enode://" + hid + "@192.0.2.1:30303"})
	db.SetNode(store.Node{ID: store.NodeID(cid), LastSeen: now})
	db.AddNodeBalance(store.NodeID(cid), big.NewInt(300))
	db.AddNodeBalance(store.NodeID(cid), big.NewInt(200))
	if paying {
		db.AddNodeBalance(store.NodeID(cid), big.NewInt(-1000))
	}
	if paying || verifapi.Bool("linked") {
		db.AddAccountNode(store.Account(verifapi.Wallet(0)), store.NodeID(cid))
	}
	ledger := func() int64 {
		cb, _ := db.GetNodeBalance(store.NodeID(cid))
		hb, _ := db.GetNodeBalance(store.NodeID(hid))
		return cb.Credit.Int64() + hb.Credit.Int64()
	}
	ledger0 := ledger()
	steps := verifapi.Param("steps", 3)
	type seen struct {
		resp *UpdateResponse
		want int64
	}
	var replies []seen
	credit := int64(500)
	if paying {
		credit = -500
	}
	start := credit
	for k := 0; k < steps; k++ {
		dt := []int64{10, 50}[verifapi.Choose("dt", 2)]
		now = now.Add(time.Duration(dt) * time.Second)
		verifapi.SetNow(now)
		db.UpdateNodePeers(store.NodeID(hid), nil, 0) // the host checks in
		resp, err := VerifUpdate(p, context.Background(), cid, hid)
		if err != nil || resp == nil || resp.Balance == nil {
			verifapi.Unreachable("c10.replies.update")
			return
		}
		credit -= dt // the reported host is an active peer from this keep-alive on and is paid for the gap
		verifapi.Assert(resp.Balance.Credit.Int64() == credit, "c10.reply-balance-is-current")
		replies = append(replies, seen{resp, credit})
		// a host's own keep-alive reply carries its balance too
		hresp, err := VerifUpdate(p, context.Background(), hid)
		if err == nil && hresp != nil && hresp.Balance != nil {
			replies = append(replies, seen{hresp, start - credit})
			verifapi.Assert(hresp.Balance.Credit.Int64() == start-credit, "c10.reply-balance-is-current")
		}
		// answering (and logging) a keep-alive leaves the stored ledger as the charge made it
		verifapi.Assert(ledger() == ledger0, "c01.replies.stored-ledger-sum-unchanged")
		if cb, cerr := db.GetNodeBalance(store.NodeID(cid)); cerr == nil {
			verifapi.Assert(cb.Credit.Int64() == credit, "c01.replies.stored-credit-is-what-was-charged")
		}
		for _, r := range replies {
			verifapi.Assert(r.resp.Balance.Credit.Int64() == r.want, "c10.reply-balance-snapshot-immutable")
		}
	}
	verifapi.Reach("c10.replies")
}
