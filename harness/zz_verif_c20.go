package main

import (
	"context"
	"crypto/ecdsa"
	"time"

	"github.com/ethereum/go-ethereum/accounts/abi/bind"
	"github.com/ethereum/go-ethereum/rpc"
	"github.com/vipnode/vipnode/v2/ethnode"
	"github.com/vipnode/vipnode/v2/internal/verifapi"
	"github.com/vipnode/vipnode/v2/pool/store"
)

type verifRootFake struct{}

func (n *verifRootFake) NodeRPC() *rpc.Client                  { return nil }
func (n *verifRootFake) ContractBackend() bind.ContractBackend { return nil }
func (n *verifRootFake) Kind() ethnode.NodeKind                { return ethnode.Geth }
func (n *verifRootFake) UserAgent() ethnode.UserAgent          { return ethnode.UserAgent{Kind: ethnode.Geth} }
func (n *verifRootFake) Enode(ctx context.Context) (string, error) {
	return "enode://" + verifapi.NodeID(0) + "@127.0.0.1:30303", nil
}
func (n *verifRootFake) AddTrustedPeer(ctx context.Context, id string) error    { return nil }
func (n *verifRootFake) RemoveTrustedPeer(ctx context.Context, id string) error { return nil }
func (n *verifRootFake) ConnectPeer(ctx context.Context, uri string) error      { return nil }
func (n *verifRootFake) DisconnectPeer(ctx context.Context, id string) error    { return nil }
func (n *verifRootFake) Peers(ctx context.Context) ([]ethnode.PeerInfo, error)  { return nil, nil }
func (n *verifRootFake) BlockNumber(ctx context.Context) (uint64, error)        { return 1, nil }

// verifRootNode is what the (intercepted) findRPC returns.
func verifRootNode() ethnode.EthNode { return &verifRootFake{} }

// VerifC20Gate: the agent command only accepts an --update-interval that is
// shorter than the pool's expiry window (and longer than the flood guard).
// time.ParseDuration returns an arbitrary duration (or an error); node
// discovery and the node key are stubbed.
func VerifC20Gate() {
	runner := &agentRunner{PrivateKey: &ecdsa.PrivateKey{}}
	opts := Options{}
	opts.Agent.UpdateInterval = "any"
	err := runner.LoadAgent(opts)
	verifapi.Reach("c20.gate")
	if err == nil {
		d := runner.Agent.UpdateInterval
		verifapi.Assert(d < time.Duration(store.ExpireInterval), "c20.accepted-interval-shorter-than-expiry-window")
		verifapi.Assert(d > 0, "c20.accepted-interval-positive")
	}
}
