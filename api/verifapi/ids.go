package verifapi

import "strings"

// Identity alphabets. They are the real node ids / wallet addresses of the
// repo's hard-coded test keys (internal/keygen: keys 0-4 are nodes, keys 5-7
// wallets), so that the native replay can produce real signatures. The code
// under test only compares them for equality (DESIGN 3.5).

var nodeIDs = []string{
	"bf0de96f25b57201cf1d408d05add7722175c372ce56ec0b67f710059cc53d9ea0343446f7ec625c796a548c82bcf08308304c9fbf097bf92257e06fc7c60915",
	"066897a94b47f425d69d7352219c495b540a9759ad21d479c4a4d8b53f3a0937e33abe2f98b7342f52f7feadce9330fceca85345a1649c748e8da2b6fde9da31",
	"87bf7f37d6ab51c5b09131d13904230aaae6357cdbbf04fd525cfd7025d519439572ba3f6b2d45597b4499fcf7e8b8573f6b0f5b24e25d09aaa217869481c824",
	"797b6c7dfd26297eac87b8302dffab8c47547a08f17270514fe9819546e35a2ea4e2b16fc305da888201e8766bbef0645cda6ca34a799bb2447305483a74b4d7",
	"a886db76a7692f28399d7bbd5464142f81e11227f6afc4c3bb001409df7b012e7677175f20c28300b39cf6193b9bac1bdde4955c91c5c771029efd5259966e5d",
}

var wallets = []string{
	"0x08ba7E452E622c10977f7aEd576B8095cF28f916",
	"0x0E3Db36BE702772D756CDe1cE89b222F3f2Bb59f",
	"0xD88b186e98972c87DFF0507f7CD8Da8dbEbb8764",
}

// KeyIndex returns the internal/keygen key index of an identity (-1 if unknown).
func KeyIndex(identity string) int {
	for i, n := range nodeIDs {
		// a node id may be spelled with a 0x prefix or upper-case digits (discv5.HexID accepts both)
		if strings.EqualFold(n, strings.TrimPrefix(strings.TrimPrefix(identity, "0x"), "0X")) {
			return i
		}
	}
	for i, w := range wallets {
		// a wallet may name its address in any case (the signature check compares case-insensitively)
		if strings.EqualFold(w, identity) {
			return 5 + i
		}
	}
	return -1
}

// NodeID returns the i-th node identity of the alphabet.
func NodeID(i int) string { return nodeIDs[i] }

// Wallet returns the i-th wallet identity of the alphabet.
func Wallet(i int) string { return wallets[i] }
