package payment

import (
	"context"
	"fmt"
	"math/big"
	"strings"
	"time"

	"github.com/vipnode/vipnode/v2/ethnode"
	"github.com/vipnode/vipnode/v2/internal/verifapi"
	"github.com/vipnode/vipnode/v2/internal/verifmodels/sigs"
	"github.com/vipnode/vipnode/v2/jsonrpc2"
	"github.com/vipnode/vipnode/v2/pool"
	"github.com/vipnode/vipnode/v2/pool/status"
	"github.com/vipnode/vipnode/v2/pool/store"
)

var verifOddURIs = []string{
	"", "::", "enode://", "%zz", "enode://x@[::1", "http://[::1]:namedport", "enode://@:0", "//", "enode://a:b@c:1/p?q#f",
	"enode://u@[::]:30303", "x", "enode://" + "ab" + "@host:65536",
}

var verifOddInts = []int{-9223372036854775808, -1, 0, 1, 4611686018427387904, 9223372036854775807}

// VerifC15Endpoints: every registered endpoint, after the signature check
// passed, with semantically arbitrary parameters: it returns (no panic).
func VerifC15Endpoints() { verifC15Endpoints(false) }

// VerifC15Sequence: a registration request with arbitrary parameters (with or
// without a reverse service on its connection), then peer requests by every
// node: whatever the first request left behind, the follow-ups return.
func VerifC15Sequence() {
	verifC15Endpoints(true)
	verifapi.Reach("c15.followup-returned")
}

func verifC15Endpoints(followup bool) {
	w := verifSmallWorld()
	w.pay.Settle = verifSettleStub(w, "settlefails")
	w.pay.WithdrawMin = big.NewInt(5)
	w.pay.WithdrawFee = func(a *big.Int) *big.Int { return a.Sub(a, big.NewInt(1)) }
	w.db.UpdateNodePeers(w.nodes[0], []string{string(w.nodes[1])}, 0)
	node := string(w.nodes[0])
	wal := string(w.wallets[0])
	// odd shapes, plus well-formed overrides carrying the node's own identity
	uris := append(append([]string{}, verifOddURIs...), "enode://"+node+"@192.0.2.7:30303", "enode://"+node+"@[::]:30303", "enode://"+node+"@:30303")
	ctx := context.Background()
	// the connection the request arrived on matters to connect/host only
	connCtx := func() context.Context {
		k := verifapi.Choose("remoteaddr", 6)
		if k == 5 {
			return context.Background() // no service in the context
		}
		svc := &pool.VerifHost{Name: "conn", Addr: []string{"192.0.2.9:1", "", "[::1]:5", "nonsense", ":::"}[k]}
		return jsonrpc2.VerifCtxWithService(context.Background(), svc)
	}
	nonce := pool.VerifFreshNonce()
	kindOf := func() string { return []string{"", "geth", "\x00weird"}[verifapi.Choose("kind", 3)] }
	kind := ""
	ep := verifapi.Choose("endpoint", 10)
	if followup {
		// sequences: a request that leaves a trace in the pool (a registration, or a wallet linking a
		// node id of its choice), then peer requests by every node and the read-only endpoints
		verifapi.Assume(ep == 0 || ep == 4 || ep == 7)
	}
	if ep == 0 || ep == 4 {
		ctx = connCtx()
	}
	if ep >= 2 && ep <= 4 {
		kind = kindOf()
	}
	switch ep {
	case 0:
		req := pool.ConnectRequest{VipnodeVersion: "v", Payout: []string{"", wal, "zz"}[verifapi.Choose("payout", 3)],
			NodeURI:  uris[verifapi.Choose("uri", len(uris))],
			NodeInfo: ethnode.UserAgent{Kind: ethnode.NodeKind(verifapi.Choose("nodekind", 5) - 1), IsFullNode: verifapi.Bool("full"), Network: ethnode.NetworkID(verifapi.Choose("net", 2))}}
		w.p.Connect(ctx, sigs.SignFor(node, "vipnode_connect", nonce, req), node, nonce, req)
	case 1:
		var infos []ethnode.PeerInfo
		for i := 0; i < verifapi.Choose("npeers", 3); i++ {
			pi := ethnode.PeerInfo{ID: []string{"", string(w.nodes[1]), "junk"}[verifapi.Choose(fmt.Sprint("pid", i), 3)]}
			switch verifapi.Choose(fmt.Sprint("enode", i), 3) {
			case 1:
				pi.Enode = "enode://short"
			case 2:
				pi.Enode = verifapi.StrAtom(fmt.Sprint("enodestr", i)) // any string of any length
			}
			infos = append(infos, pi)
		}
		req := pool.UpdateRequest{PeerInfo: infos, BlockNumber: verifapi.Uint64("block"), Peers: []string{"old"}}
		w.p.Update(ctx, sigs.SignFor(node, "vipnode_update", nonce, req), node, nonce, req)
	case 2:
		req := pool.PeerRequest{Num: verifOddInts[verifapi.Choose("num", len(verifOddInts))], Kind: kind}
		w.p.MaxRequestHosts = verifapi.Choose("max", 2)
		w.p.Peer(ctx, sigs.SignFor(node, "vipnode_peer", nonce, req), node, nonce, req)
	case 3:
		req := pool.ClientRequest{NumHosts: verifOddInts[verifapi.Choose("num", len(verifOddInts))], Kind: kind}
		w.p.Client(ctx, sigs.SignFor(node, "vipnode_client", nonce, req), node, nonce, req)
	case 4:
		req := pool.HostRequest{Kind: kind, Payout: "zz", NodeURI: uris[verifapi.Choose("uri", len(uris))]}
		w.p.Host(ctx, sigs.SignFor(node, "vipnode_host", nonce, req), node, nonce, req)
	case 5:
		w.p.Ping(ctx)
	case 6:
		w.pay.Account(ctx, []string{"", wal, "nobody"}[verifapi.Choose("wallet", 3)])
	case 7:
		arg := []string{"", node, "unregistered", verifapi.NodeID(4)}[verifapi.Choose("nodearg", 4)]
		w.pay.AddNode(ctx, sigs.SignFor(wal, "pool_addNode", nonce, arg), wal, nonce, arg)
	case 8:
		w.pay.Withdraw(ctx, sigs.SignFor(wal, "pool_withdraw", nonce), wal, nonce)
	case 9:
		st := &status.PoolStatus{Store: w.db, Version: "v"}
		st.Status(ctx)
	}
	verifapi.Reach("c15.endpoint-returned")
	if followup {
		for _, id := range w.nodes {
			n := pool.VerifFreshNonce()
			req := pool.PeerRequest{Num: 2}
			w.p.Peer(context.Background(), sigs.SignFor(string(id), "vipnode_peer", n, req), string(id), n, req)
		}
		// ... and the unauthenticated read endpoints, for every wallet the first request may have touched
		for _, a := range []string{wal, "nobody"} {
			w.pay.Account(context.Background(), a)
		}
		st := &status.PoolStatus{Store: w.db, Version: "v"}
		st.Status(context.Background())
		verifapi.Quiesce()
	}
}

// verifSmallWorld: a fixed two-node world (client n0 linked to wallet w0, host n1 on trial).
func verifSmallWorld() *verifWorld {
	db := newVerifStore()
	w := &verifWorld{db: db, paid: new(big.Int), hosts: map[store.NodeID]*pool.VerifHost{}}
	w.wallets = []store.Account{store.Account(verifapi.Wallet(0)), store.Account(verifapi.Wallet(1))}
	w.dep = &pool.VerifDeposits{Store: db, Deposit: map[store.Account]*big.Int{w.wallets[0]: big.NewInt(1000), w.wallets[1]: big.NewInt(0)}}
	w.p = pool.VerifNewPool(db, w.dep, big.NewInt(100000000000), 60000000000, nil)
	w.pay = &PaymentService{NonceStore: db, AccountStore: db, BalanceStore: w.dep}
	t0 := verifapi.Time("t0")
	verifapi.SetNow(t0)
	for i := 0; i < 2; i++ {
		id := store.NodeID(verifapi.NodeID(i))
		w.nodes = append(w.nodes, id)
		db.SetNode(store.Node{ID: id, IsHost: i == 1, Kind: "geth", LastSeen: t0, URI: "enode://" + string(id) + "@192.0.2.1:30303"})
		if i == 1 {
			h := &pool.VerifHost{Name: "h1", Addr: "192.0.2.1:999", Behaviours: 2}
			w.hosts[id] = h
			pool.VerifRegisterRemote(w.p, id, h)
		}
	}
	db.AddAccountNode(w.wallets[0], w.nodes[0])
	db.AddNodeBalance(w.nodes[0], big.NewInt(77))
	return w
}

// VerifC15ContractLookups: balance lookups through the real contract proxy
// (pool_account, and the node-balance lookup behind vipnode_update) repeated
// while the deposit read is in trouble - the deposit is timelocked, or the
// Ethereum node is unreachable for the first one or two reads: every lookup
// returns (an error or a balance), nothing panics, a lookup made after the
// trouble has passed reports the true balance, and a failed read is never
// served from the cache as if it were a balance.
func VerifC15ContractLookups() {
	db := newVerifStore()
	wal := store.Account(verifapi.Wallet(0))
	node := store.NodeID(verifapi.NodeID(0))
	cp := verifNewContractPayment(db)
	ch := verifTheChain
	key := strings.ToLower(string(wal))
	ch.deposit[key] = big.NewInt(7000)
	verifapi.SetNow(time.Unix(1600000000, 0))
	db.SetNode(store.Node{ID: node, LastSeen: verifapi.Now()})
	db.AddAccountNode(wal, node)
	db.AddAccountBalance(wal, big.NewInt(5000))
	pay := &PaymentService{NonceStore: db, AccountStore: db, BalanceStore: cp}
	trouble := verifapi.Choose("trouble", 4)
	switch trouble {
	case 1:
		ch.timelocked[key] = true
	case 2:
		ch.failReads = 1
	case 3:
		ch.failReads = 2
	}
	lookup := func(k int) (int64, error) {
		if k == 0 {
			r, err := pay.Account(context.Background(), string(wal))
			if err != nil {
				return 0, err
			}
			return new(big.Int).Add(&r.Balance.Deposit, &r.Balance.Credit).Int64(), nil
		}
		b, err := cp.GetNodeBalance(node)
		if err != nil {
			return 0, err
		}
		return new(big.Int).Add(&b.Deposit, &b.Credit).Int64(), nil
	}
	n := verifapi.Param("lookups", 3)
	for i := 0; i < n; i++ {
		total, err := lookup(verifapi.Choose(fmt.Sprint("lookup", i), 2))
		if err == nil {
			verifapi.Assert(total == 12000, "c15.contract.lookup-reports-the-true-balance")
			verifapi.Assert(trouble != 1, "c15.contract.timelocked-deposit-is-not-reported-as-spendable")
		}
	}
	// the trouble passes
	ch.timelocked[key] = false
	ch.failReads = 0
	total, err := lookup(verifapi.Choose("final", 2))
	verifapi.Reach("c15.contract.lookups")
	verifapi.Assert(err == nil && total == 12000, "c15.contract.lookup-after-trouble-succeeds")
}
