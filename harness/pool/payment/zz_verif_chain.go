package payment

import (
	"errors"
	"math/big"
	"strings"

	"github.com/vipnode/vipnode/v2/pool/store"
)

// The chain model behind the payment contract binding: per-account deposit
// and timelock, account reads and settlement transactions that can be made to
// fail. The symbolic run reaches it from the binding methods
// (engine/zzcontract.go), the native replay through a fake
// bind.ContractBackend that decodes the same two calls
// (zz_verif_chain_replay.go); contractPayment itself runs for real.

type verifSettlement struct {
	addr               string
	amount, newBalance *big.Int
}

type verifChain struct {
	deposit     map[string]*big.Int
	timelocked  map[string]bool
	failReads   int // the next n account reads fail (node unreachable)
	failSettles int // the next n settlement transactions are rejected
	reads       int
	settled     []verifSettlement
	paid        *big.Int
	onBalance   func(account store.Account, amount *big.Int) // the contract's Balance event
}

var verifTheChain *verifChain

func verifChainAccounts(addr string) (*big.Int, *big.Int, error) {
	ch, key := verifTheChain, strings.ToLower(addr)
	ch.reads++
	if ch.failReads > 0 {
		ch.failReads--
		return nil, nil, errors.New("verif: ethereum node unreachable")
	}
	bal := new(big.Int)
	if d := ch.deposit[key]; d != nil {
		bal.Set(d)
	}
	lock := new(big.Int)
	if ch.timelocked[key] {
		lock.SetInt64(1700000000)
	}
	return bal, lock, nil
}

func verifChainOpSettle(addr string, amount, newBalance *big.Int) error {
	ch, key := verifTheChain, strings.ToLower(addr)
	if ch.failSettles > 0 {
		ch.failSettles--
		return errors.New("verif: transaction rejected")
	}
	ch.settled = append(ch.settled, verifSettlement{addr, new(big.Int).Set(amount), new(big.Int).Set(newBalance)})
	ch.paid.Add(ch.paid, amount)
	ch.deposit[key] = new(big.Int).Set(newBalance)
	if ch.onBalance != nil {
		ch.onBalance(store.Account(addr), new(big.Int).Set(newBalance))
	}
	return nil
}

// verifNewContractPayment builds the proxy as ContractPayment() does, minus
// the operator check and the event subscription (the chain model delivers the
// Balance event of a settlement directly to the cache).
func verifNewContractPayment(db store.AccountStore) *contractPayment {
	verifTheChain = &verifChain{deposit: map[string]*big.Int{}, timelocked: map[string]bool{}, paid: new(big.Int)}
	cp := &contractPayment{store: db, contract: verifNewBinding(), transactOpts: verifTransactOpts()}
	cp.balanceCache.Getter = cp.GetBalance
	verifTheChain.onBalance = cp.balanceCache.Set
	return cp
}
