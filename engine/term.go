package main

// SMT terms over Int and Bool with constant folding and a light interval
// analysis (used to drop wrap-around terms that provably cannot wrap).

import (
	"fmt"
	"math/big"
	"sort"
	"strings"
)

type Sort int

const (
	SBool Sort = iota
	SInt
	SAtom // uninterpreted sort "Atom" (equality-only strings)
)

type Term struct {
	op   string // "c" const, "v" var, or SMT operator
	sort Sort
	args []*Term
	iv   *big.Int // int const
	bv   bool     // bool const
	name string   // var name (already SMT-quoted form is produced on print)
	lo   *big.Int // conservative bounds for Int terms (nil = unbounded)
	hi   *big.Int
	smt  string // cached
}

var (
	tTrue  = &Term{op: "c", sort: SBool, bv: true}
	tFalse = &Term{op: "c", sort: SBool, bv: false}
)

func mkBool(b bool) *Term {
	if b {
		return tTrue
	}
	return tFalse
}

func mkIntBig(v *big.Int) *Term {
	c := new(big.Int).Set(v)
	return &Term{op: "c", sort: SInt, iv: c, lo: c, hi: c}
}
func mkInt(v int64) *Term { return mkIntBig(big.NewInt(v)) }

func mkVar(name string, s Sort, lo, hi *big.Int) *Term {
	return &Term{op: "v", sort: s, name: name, lo: lo, hi: hi}
}

func (t *Term) isConst() bool { return t.op == "c" }
func (t *Term) isTrue() bool  { return t.op == "c" && t.sort == SBool && t.bv }
func (t *Term) isFalse() bool { return t.op == "c" && t.sort == SBool && !t.bv }

func (t *Term) constInt() (int64, bool) {
	if t.op == "c" && t.sort == SInt && t.iv.IsInt64() {
		return t.iv.Int64(), true
	}
	return 0, false
}

func smtInt(v *big.Int) string {
	if v.Sign() < 0 {
		return "(- " + new(big.Int).Neg(v).String() + ")"
	}
	return v.String()
}

func smtName(n string) string { return "|" + n + "|" }

func (t *Term) String() string {
	if t.smt != "" {
		return t.smt
	}
	var s string
	switch t.op {
	case "c":
		if t.sort == SBool {
			if t.bv {
				s = "true"
			} else {
				s = "false"
			}
		} else if t.sort == SAtom {
			s = smtName(t.name)
		} else {
			s = smtInt(t.iv)
		}
	case "v":
		s = smtName(t.name)
	default:
		var sb strings.Builder
		sb.WriteString("(")
		sb.WriteString(t.op)
		for _, a := range t.args {
			sb.WriteString(" ")
			sb.WriteString(a.String())
		}
		sb.WriteString(")")
		s = sb.String()
	}
	t.smt = s
	return s
}

// collectVars adds every variable of t to set.
func (t *Term) collectVars(set map[string]*Term) {
	if t.op == "v" || (t.op == "c" && t.sort == SAtom) {
		set[t.name] = t
		return
	}
	for _, a := range t.args {
		a.collectVars(set)
	}
}

func addB(a, b *big.Int) *big.Int {
	if a == nil || b == nil {
		return nil
	}
	return new(big.Int).Add(a, b)
}
func subB(a, b *big.Int) *big.Int {
	if a == nil || b == nil {
		return nil
	}
	return new(big.Int).Sub(a, b)
}

func tAdd(a, b *Term) *Term {
	if a.isConst() && b.isConst() {
		return mkIntBig(new(big.Int).Add(a.iv, b.iv))
	}
	if a.isConst() && a.iv.Sign() == 0 {
		return b
	}
	if b.isConst() && b.iv.Sign() == 0 {
		return a
	}
	return &Term{op: "+", sort: SInt, args: []*Term{a, b}, lo: addB(a.lo, b.lo), hi: addB(a.hi, b.hi)}
}

func tSub(a, b *Term) *Term {
	if a.isConst() && b.isConst() {
		return mkIntBig(new(big.Int).Sub(a.iv, b.iv))
	}
	if b.isConst() && b.iv.Sign() == 0 {
		return a
	}
	if a == b {
		return mkInt(0)
	}
	return &Term{op: "-", sort: SInt, args: []*Term{a, b}, lo: subB(a.lo, b.hi), hi: subB(a.hi, b.lo)}
}

func tNeg(a *Term) *Term {
	if a.isConst() {
		return mkIntBig(new(big.Int).Neg(a.iv))
	}
	var lo, hi *big.Int
	if a.hi != nil {
		lo = new(big.Int).Neg(a.hi)
	}
	if a.lo != nil {
		hi = new(big.Int).Neg(a.lo)
	}
	return &Term{op: "-", sort: SInt, args: []*Term{a}, lo: lo, hi: hi}
}

func tMul(a, b *Term) *Term {
	if a.isConst() && b.isConst() {
		return mkIntBig(new(big.Int).Mul(a.iv, b.iv))
	}
	if a.isConst() && a.iv.Sign() == 0 || b.isConst() && b.iv.Sign() == 0 {
		return mkInt(0)
	}
	if a.isConst() && a.iv.Cmp(big.NewInt(1)) == 0 {
		return b
	}
	if b.isConst() && b.iv.Cmp(big.NewInt(1)) == 0 {
		return a
	}
	t := &Term{op: "*", sort: SInt, args: []*Term{a, b}}
	if a.lo != nil && a.hi != nil && b.lo != nil && b.hi != nil {
		c := []*big.Int{new(big.Int).Mul(a.lo, b.lo), new(big.Int).Mul(a.lo, b.hi), new(big.Int).Mul(a.hi, b.lo), new(big.Int).Mul(a.hi, b.hi)}
		sort.Slice(c, func(i, j int) bool { return c[i].Cmp(c[j]) < 0 })
		t.lo, t.hi = c[0], c[3]
	}
	return t
}

// Euclidean division (SMT div/mod; math/big Div/Mod).
func tEDiv(a, b *Term) *Term {
	if a.isConst() && b.isConst() && b.iv.Sign() != 0 {
		return mkIntBig(new(big.Int).Div(a.iv, b.iv))
	}
	return &Term{op: "div", sort: SInt, args: []*Term{a, b}}
}
func tEMod(a, b *Term) *Term {
	if a.isConst() && b.isConst() && b.iv.Sign() != 0 {
		return mkIntBig(new(big.Int).Mod(a.iv, b.iv))
	}
	t := &Term{op: "mod", sort: SInt, args: []*Term{a, b}}
	if b.isConst() && b.iv.Sign() > 0 {
		t.lo = big.NewInt(0)
		t.hi = new(big.Int).Sub(b.iv, big.NewInt(1))
	}
	return t
}

// Truncated division (Go / and %, big.Quo/Rem); prelude defines tdiv/tmod.
func tTDiv(a, b *Term) *Term {
	if a.isConst() && b.isConst() && b.iv.Sign() != 0 {
		return mkIntBig(new(big.Int).Quo(a.iv, b.iv))
	}
	return &Term{op: "tdiv", sort: SInt, args: []*Term{a, b}}
}
func tTRem(a, b *Term) *Term {
	if a.isConst() && b.isConst() && b.iv.Sign() != 0 {
		return mkIntBig(new(big.Int).Rem(a.iv, b.iv))
	}
	return &Term{op: "tmod", sort: SInt, args: []*Term{a, b}}
}

func tIte(c, a, b *Term) *Term {
	if c.isTrue() {
		return a
	}
	if c.isFalse() {
		return b
	}
	if a == b {
		return a
	}
	if a.sort == SBool {
		if a.isTrue() && b.isFalse() {
			return c
		}
		if a.isFalse() && b.isTrue() {
			return tNot(c)
		}
	}
	t := &Term{op: "ite", sort: a.sort, args: []*Term{c, a, b}}
	if a.sort == SInt {
		if a.lo != nil && b.lo != nil {
			if a.lo.Cmp(b.lo) < 0 {
				t.lo = a.lo
			} else {
				t.lo = b.lo
			}
		}
		if a.hi != nil && b.hi != nil {
			if a.hi.Cmp(b.hi) > 0 {
				t.hi = a.hi
			} else {
				t.hi = b.hi
			}
		}
	}
	return t
}

func tNot(a *Term) *Term {
	if a.isConst() {
		return mkBool(!a.bv)
	}
	if a.op == "not" {
		return a.args[0]
	}
	return &Term{op: "not", sort: SBool, args: []*Term{a}}
}

func tAnd(ts ...*Term) *Term {
	var args []*Term
	for _, t := range ts {
		if t.isFalse() {
			return tFalse
		}
		if t.isTrue() {
			continue
		}
		if t.op == "and" {
			args = append(args, t.args...)
			continue
		}
		args = append(args, t)
	}
	if len(args) == 0 {
		return tTrue
	}
	if len(args) == 1 {
		return args[0]
	}
	return &Term{op: "and", sort: SBool, args: args}
}

func tOr(ts ...*Term) *Term {
	var args []*Term
	for _, t := range ts {
		if t.isTrue() {
			return tTrue
		}
		if t.isFalse() {
			continue
		}
		if t.op == "or" {
			args = append(args, t.args...)
			continue
		}
		args = append(args, t)
	}
	if len(args) == 0 {
		return tFalse
	}
	if len(args) == 1 {
		return args[0]
	}
	return &Term{op: "or", sort: SBool, args: args}
}

func tImplies(a, b *Term) *Term { return tOr(tNot(a), b) }

func tEq(a, b *Term) *Term {
	if a == b {
		return tTrue
	}
	if a.isConst() && b.isConst() {
		switch a.sort {
		case SBool:
			return mkBool(a.bv == b.bv)
		case SInt:
			return mkBool(a.iv.Cmp(b.iv) == 0)
		case SAtom:
			return mkBool(a.name == b.name)
		}
	}
	if a.sort == SBool {
		if a.isConst() {
			if a.bv {
				return b
			}
			return tNot(b)
		}
		if b.isConst() {
			if b.bv {
				return a
			}
			return tNot(a)
		}
	}
	if a.sort == SInt {
		// disjoint intervals
		if a.hi != nil && b.lo != nil && a.hi.Cmp(b.lo) < 0 {
			return tFalse
		}
		if b.hi != nil && a.lo != nil && b.hi.Cmp(a.lo) < 0 {
			return tFalse
		}
	}
	return &Term{op: "=", sort: SBool, args: []*Term{a, b}}
}

func tLt(a, b *Term) *Term {
	if a.isConst() && b.isConst() {
		return mkBool(a.iv.Cmp(b.iv) < 0)
	}
	if a == b {
		return tFalse
	}
	if a.hi != nil && b.lo != nil && a.hi.Cmp(b.lo) < 0 {
		return tTrue
	}
	if a.lo != nil && b.hi != nil && a.lo.Cmp(b.hi) >= 0 {
		return tFalse
	}
	return &Term{op: "<", sort: SBool, args: []*Term{a, b}}
}

func tLe(a, b *Term) *Term {
	if a.isConst() && b.isConst() {
		return mkBool(a.iv.Cmp(b.iv) <= 0)
	}
	if a == b {
		return tTrue
	}
	if a.hi != nil && b.lo != nil && a.hi.Cmp(b.lo) <= 0 {
		return tTrue
	}
	if a.lo != nil && b.hi != nil && a.lo.Cmp(b.hi) > 0 {
		return tFalse
	}
	return &Term{op: "<=", sort: SBool, args: []*Term{a, b}}
}
func tGt(a, b *Term) *Term { return tLt(b, a) }
func tGe(a, b *Term) *Term { return tLe(b, a) }

func pow2(n int) *big.Int { return new(big.Int).Lsh(big.NewInt(1), uint(n)) }

func intRange(bits int, signed bool) (lo, hi *big.Int) {
	if signed {
		h := pow2(bits - 1)
		return new(big.Int).Neg(h), new(big.Int).Sub(h, big.NewInt(1))
	}
	return big.NewInt(0), new(big.Int).Sub(pow2(bits), big.NewInt(1))
}

// tWrap reduces a mathematical integer to the machine integer of the given
// width (two's complement wrap-around), dropping the reduction when the
// interval analysis shows it cannot wrap.
func tWrap(a *Term, bits int, signed bool) *Term {
	lo, hi := intRange(bits, signed)
	if a.isConst() {
		v := new(big.Int).Set(a.iv)
		m := pow2(bits)
		if signed {
			h := pow2(bits - 1)
			v.Add(v, h)
			v.Mod(v, m)
			v.Sub(v, h)
		} else {
			v.Mod(v, m)
		}
		return mkIntBig(v)
	}
	if a.lo != nil && a.hi != nil && a.lo.Cmp(lo) >= 0 && a.hi.Cmp(hi) <= 0 {
		return a
	}
	var t *Term
	if signed {
		h := mkIntBig(pow2(bits - 1))
		t = &Term{op: "wrapS", sort: SInt, args: []*Term{a, h}}
	} else {
		t = &Term{op: "wrapU", sort: SInt, args: []*Term{a, mkIntBig(pow2(bits))}}
	}
	t.lo, t.hi = lo, hi
	return t
}

func tSat64(a *Term) *Term {
	lo, hi := intRange(64, true)
	if a.isConst() {
		if a.iv.Cmp(hi) > 0 {
			return mkIntBig(hi)
		}
		if a.iv.Cmp(lo) < 0 {
			return mkIntBig(lo)
		}
		return a
	}
	if a.lo != nil && a.hi != nil && a.lo.Cmp(lo) >= 0 && a.hi.Cmp(hi) <= 0 {
		return a
	}
	t := &Term{op: "sat64", sort: SInt, args: []*Term{a}}
	t.lo, t.hi = lo, hi
	return t
}

const smtPrelude = `
(set-option :produce-models true)
(declare-sort Atom 0)
(define-fun wrapS ((x Int) (h Int)) Int (- (mod (+ x h) (* 2 h)) h))
(define-fun wrapU ((x Int) (m Int)) Int (mod x m))
(define-fun tdiv ((a Int) (b Int)) Int (ite (>= a 0) (ite (> b 0) (div a b) (- (div a (- b)))) (ite (> b 0) (- (div (- a) b)) (div (- a) (- b)))))
(define-fun tmod ((a Int) (b Int)) Int (- a (* b (tdiv a b))))
(define-fun sat64 ((x Int)) Int (ite (> x 9223372036854775807) 9223372036854775807 (ite (< x (- 9223372036854775808)) (- 9223372036854775808) x)))
`

func sortName(s Sort) string {
	switch s {
	case SBool:
		return "Bool"
	case SInt:
		return "Int"
	default:
		return "Atom"
	}
}

func (t *Term) debug() string { return fmt.Sprintf("%s", t.String()) }
