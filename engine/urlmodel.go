package main

// net/url on strings with symbolic bytes (C19). url.Parse's full grammar
// forks per character in several validation loops, so for symbolic input the
// harness declares how it assembled the string (verifapi.URLParts) and Parse
// returns those pieces after replaying url.parseHost's host/port validation
// on the symbolic host bytes; URL.String re-assembles the pieces and
// registers the decomposition of its output, so that a later Parse of that
// output (the agent-side parser) finds it. Hostname / Port / net.SplitHostPort
// are the real stdlib bodies, interpreted. Concrete strings always go to the
// real net/url (reflection bridge). Counterexamples are replayed natively
// with the real net/url, which guards against a lying model.

import (
	"go/types"
)

type urlParts struct {
	scheme   StrVal
	user     StrVal
	hasUser  bool
	hostport StrVal
	rest     StrVal
}

func symKey(s StrVal) *Term {
	if len(s.sym) == 0 {
		return nil
	}
	return s.sym[0]
}

func (m *Machine) structField(t types.Type, name string) int {
	st := t.Underlying().(*types.Struct)
	for i := 0; i < st.NumFields(); i++ {
		if st.Field(i).Name() == name {
			return i
		}
	}
	panic(abortf("no field %s in %s", name, t))
}

// symIndexByte: first index of byte c in s (forks per position), -1 if absent.
func (m *Machine) symIndexByte(s StrVal, c int64, from int, reverse bool) int {
	bs := strBytes(s)
	if reverse {
		for i := len(bs) - 1; i >= from; i-- {
			if m.branch(tEq(bs[i], mkInt(c))) {
				return i
			}
		}
		return -1
	}
	for i := from; i < len(bs); i++ {
		if m.branch(tEq(bs[i], mkInt(c))) {
			return i
		}
	}
	return -1
}

func subStr(s StrVal, lo, hi int) StrVal {
	if s.concrete() {
		return StrVal{s: s.s[lo:hi]}
	}
	if lo == hi {
		return StrVal{}
	}
	return StrVal{sym: s.sym[lo:hi]}
}

// validOptionalPort replays net/url.validOptionalPort on symbolic bytes.
func (m *Machine) validOptionalPort(p StrVal) bool {
	bs := strBytes(p)
	if len(bs) == 0 {
		return true
	}
	if !m.branch(tEq(bs[0], mkInt(':'))) {
		return false
	}
	for _, b := range bs[1:] {
		if !m.branch(tAnd(tLe(mkInt('0'), b), tLe(b, mkInt('9')))) {
			return false
		}
	}
	return true
}

// parseHostOK replays the checks of net/url.parseHost (brackets, port). The
// harness alphabet excludes '%' and the characters unescape(encodeHost) rejects.
func (m *Machine) parseHostOK(h StrVal) bool {
	bs := strBytes(h)
	if len(bs) == 0 {
		return true
	}
	if m.branch(tEq(bs[0], mkInt('['))) {
		i := m.symIndexByte(h, ']', 0, true)
		if i < 0 {
			return false
		}
		return m.validOptionalPort(subStr(h, i+1, len(bs)))
	}
	if i := m.symIndexByte(h, ':', 0, true); i != -1 {
		return m.validOptionalPort(subStr(h, i, len(bs)))
	}
	return true
}

func (m *Machine) urlType() (types.Type, types.Type) {
	sp := m.ld.ssaPkgs["net/url"]
	if sp == nil {
		panic(abortf("net/url not loaded"))
	}
	return sp.Type("URL").Type(), sp.Type("Userinfo").Type()
}

func (m *Machine) mkURL(p *urlParts) Value {
	ut, uit := m.urlType()
	u := m.zero(ut).(StructVal)
	f := append([]Value{}, u.f...)
	f[m.structField(ut, "Scheme")] = p.scheme
	f[m.structField(ut, "Host")] = p.hostport
	if p.hasUser {
		ui := m.zero(uit).(StructVal)
		uf := append([]Value{}, ui.f...)
		name, pw, hasPw := p.user, StrVal{}, false
		if p.user.concrete() {
			for i := 0; i < len(p.user.s); i++ {
				if p.user.s[i] == ':' {
					name, pw, hasPw = StrVal{s: p.user.s[:i]}, StrVal{s: p.user.s[i+1:]}, true
					break
				}
			}
		}
		uf[m.structField(uit, "username")] = name
		uf[m.structField(uit, "password")] = pw
		uf[m.structField(uit, "passwordSet")] = mkBool(hasPw)
		o := m.newObj(StructVal{uf}, uit, "userinfo")
		f[m.structField(ut, "User")] = PtrVal{obj: o}
	}
	if p.rest.concrete() && len(p.rest.s) > 0 {
		if p.rest.s[0] == '?' {
			f[m.structField(ut, "RawQuery")] = StrVal{s: p.rest.s[1:]}
		} else {
			f[m.structField(ut, "Path")] = p.rest
		}
	}
	return PtrVal{obj: m.newObj(StructVal{f}, ut, "url")}
}

func init() {
	regV(apiPkg+".URLParts", func(m *Machine, g *Goroutine, a []Value) Value {
		uri := a[0].(StrVal)
		k := symKey(uri)
		if k == nil {
			return nil // concrete: the real parser is used
		}
		if m.urlReg == nil {
			m.urlReg = map[*Term]*urlParts{}
		}
		m.urlReg[k] = &urlParts{scheme: a[1].(StrVal), user: a[2].(StrVal), hasUser: a[3].(*Term).isTrue(), hostport: a[4].(StrVal), rest: a[5].(StrVal)}
		return nil
	})
	concreteParse := icTable["net/url.Parse"]
	reg("net/url.Parse", func(m *Machine, g *Goroutine, c *callCtx) (Value, stepStatus) {
		s := c.args[0].(StrVal)
		if s.concrete() {
			return concreteParse(m, g, c)
		}
		p := m.urlReg[symKey(s)]
		if p == nil {
			panic(abortf("url.Parse of a symbolic string whose assembly was not declared (verifapi.URLParts)"))
		}
		if !m.parseHostOK(p.hostport) {
			return TupleVal{PtrVal{}, m.freshError("parse: invalid port or host")}, stNext
		}
		return TupleVal{m.mkURL(p), IfaceVal{}}, stNext
	})
	concreteString := icTable["(*net/url.URL).String"]
	reg("(*net/url.URL).String", func(m *Machine, g *Goroutine, c *callCtx) (Value, stepStatus) {
		up := c.args[0].(PtrVal)
		ut, uit := m.urlType()
		u := m.load(up).(StructVal)
		host := u.f[m.structField(ut, "Host")].(StrVal)
		if host.concrete() {
			return concreteString(m, g, c)
		}
		scheme := u.f[m.structField(ut, "Scheme")].(StrVal)
		out := StrVal{}
		cat := func(x StrVal) { out = m.strConcat(out, x).(StrVal) }
		parts := &urlParts{scheme: scheme, hostport: host}
		cat(scheme)
		cat(StrVal{s: "://"})
		if usr := u.f[m.structField(ut, "User")].(PtrVal); usr.obj != nil {
			ui := m.load(usr).(StructVal)
			name := ui.f[m.structField(uit, "username")].(StrVal)
			parts.user, parts.hasUser = name, true
			cat(name)
			cat(StrVal{s: "@"})
		}
		cat(host)
		path := u.f[m.structField(ut, "Path")].(StrVal)
		cat(path)
		parts.rest = path
		if m.urlReg == nil {
			m.urlReg = map[*Term]*urlParts{}
		}
		// the first byte of the output is the scheme's (concrete): key on the first symbolic byte object instead
		m.urlReg[symKey(out)] = parts
		m.urlOut = append(m.urlOut, urlOutRec{out: out, parts: parts})
		return out, stNext
	})
	// byte searches on symbolic strings
	idx := func(m *Machine, s StrVal, c *Term, reverse bool) Value {
		cv, ok := c.constInt()
		if !ok {
			panic(abortf("IndexByte with symbolic needle"))
		}
		return mkInt(int64(m.symIndexByte(s, cv, 0, reverse)))
	}
	regV("internal/bytealg.IndexByteString", func(m *Machine, g *Goroutine, a []Value) Value {
		return idx(m, a[0].(StrVal), a[1].(*Term), false)
	})
	regV("internal/bytealg.LastIndexByteString", func(m *Machine, g *Goroutine, a []Value) Value {
		return idx(m, a[0].(StrVal), a[1].(*Term), true)
	})
	regV("strings.IndexByte", func(m *Machine, g *Goroutine, a []Value) Value {
		return idx(m, a[0].(StrVal), a[1].(*Term), false)
	})
	regV("strings.LastIndexByte", func(m *Machine, g *Goroutine, a []Value) Value {
		return idx(m, a[0].(StrVal), a[1].(*Term), true)
	})
}

type urlOutRec struct {
	out   StrVal
	parts *urlParts
}
