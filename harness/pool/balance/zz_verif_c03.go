package balance

import (
	"math/big"

	"github.com/vipnode/vipnode/v2/internal/verifapi"
	"github.com/vipnode/vipnode/v2/pool/store"
	"github.com/vipnode/vipnode/v2/pool/store/memory"
)

// depositStore adds a symbolic on-chain deposit to the balances read from the
// memory store (mirrors payment.contractPayment's read path: Deposit comes
// from the contract, Credit from the pool store).
type depositStore struct {
	store.BalanceStore
	deposit *big.Int
}

func (d depositStore) GetNodeBalance(id store.NodeID) (store.Balance, error) {
	b, err := d.BalanceStore.GetNodeBalance(id)
	if err == nil {
		b.Deposit = *new(big.Int).Set(d.deposit)
	}
	return b, err
}

// VerifC03OnClient: a connecting client is refused exactly when
// deposit+credit < min, and the error reports that balance.
func VerifC03OnClient() {
	db := memory.New()
	id := store.NodeID(verifapi.NodeID(0))
	db.SetNode(store.Node{ID: id})
	credit := verifapi.BigInt("credit")
	deposit := verifapi.BigInt("deposit")
	db.AddNodeBalance(id, credit)
	b := &payPerInterval{Store: depositStore{db, deposit}, Interval: 60000000000, CreditPerInterval: *big.NewInt(1000)}
	hasMin := verifapi.Bool("hasmin")
	min := verifapi.BigInt("min")
	if hasMin {
		b.MinBalance = min
	}
	err := b.OnClient(store.Node{ID: id})
	verifapi.Reach("c03.onclient")
	spendable := new(big.Int).Add(credit, deposit)
	below := hasMin && spendable.Cmp(min) < 0
	if lbe, ok := err.(LowBalanceError); ok {
		verifapi.Assert(below, "c03.client-at-or-above-min-never-refused")
		verifapi.Assert(lbe.CurrentBalance.Cmp(spendable) == 0, "c03.error-reports-actual-balance")
		verifapi.Assert(lbe.MinBalance.Cmp(min) == 0, "c03.error-reports-min")
	} else {
		verifapi.Assert(err == nil, "c03.no-other-error")
		verifapi.Assert(!below, "c03.client-below-min-refused")
	}
}

// VerifC03OnUpdate: a billed keep-alive cuts the client off exactly when its
// spendable balance after the charge is below the minimum; the error carries
// that balance (read back from the store).
func VerifC03OnUpdate() {
	db := memory.New()
	client := store.NodeID(verifapi.NodeID(0))
	host := store.NodeID(verifapi.NodeID(1))
	now := verifapi.Time("now")
	last := verifapi.Time("last")
	verifapi.Assume(!now.Before(last))
	verifapi.SetNow(now)
	db.SetNode(store.Node{ID: client, LastSeen: last})
	db.SetNode(store.Node{ID: host, IsHost: true, LastSeen: now})
	credit := verifapi.BigInt("credit")
	deposit := verifapi.BigInt("deposit")
	db.AddNodeBalance(client, credit)
	price := verifapi.BigInt("price")
	verifapi.Assume(price.Sign() > 0)
	if verifapi.Param("concrete_price", 1) == 1 {
		verifapi.Assume(price.Cmp(big.NewInt(100000000000)) == 0)
	}
	ds := depositStore{db, deposit}
	b := &payPerInterval{Store: ds, Interval: 60000000000, CreditPerInterval: *price, now: verifapi.Now}
	hasMin := verifapi.Bool("hasmin")
	min := verifapi.BigInt("min")
	if hasMin {
		b.MinBalance = min
	}
	isHost := verifapi.Bool("ishost")
	npeers := verifapi.Choose("npeers", 2) // 0 or 1 active peer
	peers := []store.Node{}
	if npeers == 1 {
		peers = append(peers, store.Node{ID: host, IsHost: true})
	}
	charge := new(big.Int).Mul(b.intervalCredit(last), big.NewInt(int64(npeers)))
	_, err := b.OnUpdate(store.Node{ID: client, IsHost: isHost, LastSeen: last}, peers)
	verifapi.Reach("c03.onupdate")
	after, _ := ds.GetNodeBalance(client)
	spendableAfter := new(big.Int).Add(&after.Credit, &after.Deposit)
	billed := !isHost && charge.Sign() != 0
	// what the balance is once this keep-alive's charge is applied
	want := new(big.Int).Add(credit, deposit)
	if billed {
		want.Sub(want, charge)
	}
	// A keep-alive that bills nothing (no time passed, no peers) may or may not
	// re-check the minimum: the statement only fixes billed keep-alives and
	// "at or above the minimum is never refused".
	belowMin := hasMin && want.Cmp(min) < 0
	below := belowMin && billed
	if lbe, ok := err.(LowBalanceError); ok {
		verifapi.Assert(!isHost, "c03.hosts-never-refused-for-balance")
		verifapi.Assert(belowMin, "c03.update-at-or-above-min-never-cut-off")
		verifapi.Assert(lbe.CurrentBalance.Cmp(spendableAfter) == 0, "c03.update-error-reports-stored-balance")
		verifapi.Assert(spendableAfter.Cmp(want) == 0, "c03.cutoff-charge-applied")
	} else {
		verifapi.Assert(err == nil, "c03.update-no-other-error")
		verifapi.Assert(!below, "c03.update-below-min-cut-off")
		verifapi.Assert(spendableAfter.Cmp(want) == 0, "c03.update-charge-applied")
	}
}
