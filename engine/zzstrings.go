package main

import (
	"math/big"
	"regexp"
	"strings"
)

var hexTokenSuffix = regexp.MustCompile(`hex#\d+#$`)

// strings.Trim / TrimLeft / TrimRight on strings of symbolic bytes: the library
// implementation uses a bit set (shifts by a symbolic amount), which the
// interpreter does not encode; the model strips boundary bytes one at a time,
// forking on "this byte is in the cutset" (cutset concrete ASCII).

func init() {
	for _, nm := range []string{"Trim", "TrimLeft", "TrimRight"} {
		name := "strings." + nm
		left, right := nm != "TrimRight", nm != "TrimLeft"
		prev := icTable[name]
		reg(name, func(m *Machine, g *Goroutine, c *callCtx) (Value, stepStatus) {
			s, _ := c.args[0].(StrVal)
			cut, _ := c.args[1].(StrVal)
			if s.sym == nil && s.concrete() && cut.concrete() && m.cryptoOn() {
				// a hex-encoded blob of the crypto model (token "hex#k#") at the boundary being trimmed: its
				// first (last) digit is an arbitrary hex digit, so a cutset holding hex digits may eat into
				// the encoded bytes themselves - explored as a choice; what is left no longer decodes
				hexDigit := strings.ContainsAny(cut.s, "0123456789abcdef")
				rest := s.s
				if left {
					rest = strings.TrimLeft(rest, cut.s)
				}
				if right {
					rest = strings.TrimRight(rest, cut.s)
				}
				atLeft := left && strings.HasPrefix(rest, "hex#")
				atRight := right && hexTokenSuffix.MatchString(rest)
				if hexDigit && (atLeft || atRight) {
					eat := mkVar(m.uniqueName("cutset-eats-encoded-digits"), SBool, nil, nil)
					m.declare(eat)
					if m.branch(eat) {
						return StrVal{s: "f"}, stNext // (an odd number of digits, or too few bytes: not the encoding any more)
					}
				}
			}
			if s.sym == nil || !cut.concrete() {
				return prev(m, g, c)
			}
			for i := 0; i < len(cut.s); i++ {
				if cut.s[i] >= 0x80 {
					panic(abortf("%s with a non-ASCII cutset on symbolic bytes", name))
				}
			}
			inCut := func(b *Term) *Term {
				r := tFalse
				for i := 0; i < len(cut.s); i++ {
					r = tOr(r, tEq(b, mkInt(int64(cut.s[i]))))
				}
				return r
			}
			lo, hi := 0, len(s.sym)
			if left {
				for lo < hi && m.branch(inCut(s.sym[lo])) {
					lo++
				}
			}
			if right {
				for hi > lo && m.branch(inCut(s.sym[hi-1])) {
					hi--
				}
			}
			if lo == hi {
				return StrVal{}, stNext
			}
			return StrVal{sym: s.sym[lo:hi]}, stNext
		})
	}
}

func init() {
	// utf8.RuneCount of encoded (opaque) bytes: some number between 0 and the byte length - the
	// content of a JSON payload is not modelled byte by byte
	prev := icTable["unicode/utf8.RuneCount"]
	reg("unicode/utf8.RuneCount", func(m *Machine, g *Goroutine, c *callCtx) (Value, stepStatus) {
		if bl := blobOf(c.args[0]); bl != nil {
			n := mkVar(m.uniqueName("runecount"), SInt, big.NewInt(0), nil)
			m.declare(n)
			m.assume(tLe(n, m.blobLen(bl)))
			return n, stNext
		}
		return prev(m, g, c)
	})
}
