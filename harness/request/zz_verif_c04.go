package request

import (
	"encoding/base64"
	"encoding/hex"
	"fmt"
	"strings"

	"github.com/ethereum/go-ethereum/crypto"

	"github.com/vipnode/vipnode/v2/internal/verifapi"
)

type verifArgs struct {
	Kind string
	Num  int64
}

// VerifC04Hash: the signed payload covers the method name, the identity, the
// nonce and every parameter, for node-style and wallet-style identities: a
// signature produced for one request verifies for exactly that request, and
// for no request that differs in any one component or was signed by another key.
func VerifC04Hash() {
	node, wallet := verifapi.NodeID(0), verifapi.Wallet(0)
	style := verifapi.Choose("identitystyle", 2)
	id := []string{node, wallet}[style]
	other := []string{verifapi.NodeID(1), verifapi.Wallet(1)}[style]
	method := "vipnode_update"
	nonce := verifapi.Int64("nonce")
	arg := verifArgs{Kind: "geth", Num: verifapi.Int64("num")}
	extra := verifapi.Int64("extra")
	var sig string
	var err error
	if style == 1 {
		// a wallet signature is R || S || V with recovery id V = 0 or 1 (fixed by key and message: both
		// occur), which wallets also write as 27 / 28
		sig, extra, err = verifSignV(verifKey(id), verifapi.Choose("recid", 2), method, id, nonce, arg, extra)
		if err == nil && verifapi.Bool("legacy-recovery-byte") {
			sig = verifLegacyV(sig)
		}
		if err == nil && verifapi.Bool("0x-prefixed-signature") {
			sig = "0x" + sig // as wallets hand a signature out
		}
	} else {
		sig, err = Sign(verifKey(id), method, id, nonce, arg, extra)
		if err == nil && verifapi.Bool("compact-signature") {
			// a node signature without the recovery byte: verification only needs R || S
			if b, derr := base64.StdEncoding.DecodeString(sig); derr == nil && len(b) == 65 {
				sig = base64.StdEncoding.EncodeToString(b[:64])
			} else {
				verifapi.Unreachable("c04.compact-form")
			}
		}
	}
	if err != nil {
		verifapi.Unreachable("c04.sign-error")
		return
	}
	verifapi.Reach("c04.hash.signed")
	// the unaltered request verifies
	if e := Verify(sig, method, id, nonce, arg, extra); e != nil {
		verifapi.Observe("verify-error", e.Error())
	}
	verifapi.Assert(Verify(sig, method, id, nonce, arg, extra) == nil, "c04.hash.own-signature-verifies")
	// each single alteration is refused
	switch verifapi.Choose("alteration", 11) {
	case 10: // a wallet that signs as wallets do (personal_sign: keccak256("\x19Ethereum Signed Message:\n" +
		// byte length + message)), independently of this package's Sign, a request with a non-ASCII parameter
		if style == 1 {
			a2 := verifArgs{Kind: "g\u00ebth-\u4e2d", Num: arg.Num}
			msg, merr := assemble(method, id, nonce, a2, extra)
			if merr != nil {
				verifapi.Unreachable("c04.assemble")
				return
			}
			pre := []byte(fmt.Sprintf("\x19Ethereum Signed Message:\n%d", len(msg)))
			sigb, serr := crypto.Sign(crypto.Keccak256(append(pre, msg...)), verifKey(id))
			if serr == nil {
				verifapi.Assert(Verify(hex.EncodeToString(sigb), method, id, nonce, a2, extra) == nil, "c04.hash.wallet-standard-signature-verifies")
			}
		}
	case 9: // an identity that names nobody - empty, or only the tail of an address, with or without 0x -
		// signed by some key: no key is "the key of the identity it names"
		signer := verifapi.Wallet(1)
		tail := signer[len(signer)-6:]
		short := []string{"", tail, "0x" + tail, signer[2:]}[verifapi.Choose("short-identity", 4)]
		sig3, serr := Sign(verifKey(signer), method, short, nonce, arg, extra)
		if serr == nil {
			verifapi.Assert(Verify(sig3, method, short, nonce, arg, extra) != nil, "c04.hash.incomplete-identity-names-nobody")
		}
	case 8: // not a signature at all: empty, too short, right length, too long, not hex / not base64
		forged := []string{
			"", "0x", "00", "zz", "AA==",
			strings.Repeat("00", 64), strings.Repeat("00", 65), strings.Repeat("00", 66), "0x" + strings.Repeat("1b", 65),
			strings.Repeat("A", 86) + "==", strings.Repeat("A", 87) + "=", strings.Repeat("A", 88),
		}[verifapi.Choose("forged", 12)]
		verifapi.Assert(Verify(forged, method, id, nonce, arg, extra) != nil, "c04.hash.arbitrary-string-is-not-a-signature")
	case 0:
		verifapi.Assert(Verify(sig, "vipnode_connect", id, nonce, arg, extra) != nil, "c04.hash.method-is-covered")
	case 1:
		n2 := verifapi.Int64("nonce2")
		verifapi.Assume(n2 != nonce)
		verifapi.Assert(Verify(sig, method, id, n2, arg, extra) != nil, "c04.hash.nonce-is-covered")
	case 2:
		a2 := arg
		a2.Num = verifapi.Int64("num2")
		verifapi.Assume(a2.Num != arg.Num)
		verifapi.Assert(Verify(sig, method, id, nonce, a2, extra) != nil, "c04.hash.parameter-field-is-covered")
	case 3:
		e2 := verifapi.Int64("extra2")
		verifapi.Assume(e2 != extra)
		verifapi.Assert(Verify(sig, method, id, nonce, arg, e2) != nil, "c04.hash.last-parameter-is-covered")
	case 4:
		verifapi.Assert(Verify(sig, method, id, nonce, arg) != nil, "c04.hash.parameter-count-is-covered")
	case 5: // the same request claimed by another identity
		verifapi.Assert(Verify(sig, method, other, nonce, arg, extra) != nil, "c04.hash.identity-is-covered")
	case 7: // the same identity spelled differently (0x prefix, upper-case hex): the pool keys its state by the
		// string as sent, so the signature must cover that string, not just the key it names
		alias := "0x" + id
		if style == 0 && verifapi.Bool("uppercase") {
			alias = strings.ToUpper(id)
		}
		if style == 1 {
			alias = strings.ToUpper(id[:2]) + id[2:] // "0X..." / case of a wallet address
			if verifapi.Bool("uppercase") {
				alias = id[:2] + strings.ToUpper(id[2:])
			}
		}
		if alias != id {
			verifapi.Assert(Verify(sig, method, alias, nonce, arg, extra) != nil, "c04.hash.identity-spelling-is-covered")
		}
	case 6: // signed by another key, for this identity
		sig2, _ := Sign(verifKey(other), method, id, nonce, arg, extra)
		verifapi.Assert(Verify(sig2, method, id, nonce, arg, extra) != nil, "c04.hash.other-key-refused")
	}
}

// VerifC04Concurrent: two correctly signed fresh requests of different
// identities verified (and one of them signed) at the same time, as a pool
// serving several connections does: both are accepted, and the verification
// code shares no unsynchronised state (the implicit no-data-race assertion).
func VerifC04Concurrent() {
	ids := []string{verifapi.NodeID(0), verifapi.NodeID(1)}
	if verifapi.Choose("identitystyle", 2) == 1 {
		ids = []string{verifapi.Wallet(0), verifapi.Wallet(1)}
	}
	method := "vipnode_update"
	nonces := []int64{verifapi.Int64("nonce0"), verifapi.Int64("nonce1")}
	sig0, err := Sign(verifKey(ids[0]), method, ids[0], nonces[0], verifArgs{Kind: "geth", Num: 1})
	if err != nil {
		verifapi.Unreachable("c04.sign-error")
		return
	}
	done := make(chan error, 2)
	go func() { done <- Verify(sig0, method, ids[0], nonces[0], verifArgs{Kind: "geth", Num: 1}) }()
	go func() {
		// the second identity signs and verifies in the meantime
		sig1, err := Sign(verifKey(ids[1]), method, ids[1], nonces[1], verifArgs{Kind: "parity", Num: 2})
		if err != nil {
			done <- err
			return
		}
		done <- Verify(sig1, method, ids[1], nonces[1], verifArgs{Kind: "parity", Num: 2})
	}()
	e1, e2 := <-done, <-done
	verifapi.Reach("c04.concurrent")
	verifapi.Assert(e1 == nil && e2 == nil, "c04.concurrent.own-signature-verifies")
}

// verifLegacyV rewrites a wallet signature's recovery byte from 0/1 to 27/28.
func verifLegacyV(sig string) string {
	b, err := hex.DecodeString(sig)
	if err != nil || len(b) != 65 {
		verifapi.Unreachable("c04.legacy-form")
		return sig
	}
	b[64] += 27
	return hex.EncodeToString(b)
}

// VerifC04Spellings: clients sign with the typed signers (NodeRequest.Sign for a node id, as the agent's pool
// client does; AddressRequest.Sign for a wallet), and may spell the identity in any form that names their key:
// a node id bare, in upper case or with a 0x prefix; a wallet address with 0x or 0X and hex digits in any case.
// The dispatching Verify accepts every such correctly signed request, and refuses it under another spelling's
// signature-covered string.
func VerifC04Spellings() {
	node, wallet := verifapi.NodeID(0), verifapi.Wallet(0)
	style := verifapi.Choose("identitystyle", 2)
	nonce := verifapi.Int64("nonce")
	arg := verifArgs{Kind: "geth", Num: verifapi.Int64("num")}
	var id, sig string
	var err error
	if style == 0 {
		id = []string{node, strings.ToUpper(node), "0x" + node}[verifapi.Choose("spelling", 3)] // ("0X" is not a prefix the node-id parser knows)
		sig, err = NodeRequest{Method: "vipnode_update", NodeID: id, Nonce: nonce, ExtraArgs: []interface{}{arg}}.Sign(verifKey(node))
	} else {
		id = []string{wallet, "0X" + wallet[2:], "0x" + strings.ToUpper(wallet[2:]), "0x" + strings.ToLower(wallet[2:])}[verifapi.Choose("spelling", 4)]
		sig, err = AddressRequest{Method: "vipnode_update", Address: id, Nonce: nonce, ExtraArgs: []interface{}{arg}}.Sign(verifKey(wallet))
		if err == nil && verifapi.Bool("0x-prefixed-signature") {
			sig = "0x" + sig // as wallets hand a signature out
		}
	}
	if err != nil {
		verifapi.Unreachable("c04.spellings.sign-error")
		return
	}
	verifapi.Reach("c04.spellings")
	e := Verify(sig, "vipnode_update", id, nonce, arg)
	if e != nil {
		verifapi.Observe("verify-error", e.Error())
	}
	verifapi.Assert(e == nil, "c04.spellings.correctly-signed-request-accepted")
}
