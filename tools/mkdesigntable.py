#!/usr/bin/env python3
"""Rewrites the block between <!-- CHECKS-BEGIN --> and <!-- CHECKS-END --> in DESIGN.md from checks.json."""
import json, os, re
V = os.path.dirname(os.path.dirname(os.path.abspath(__file__)))
d = json.load(open(os.path.join(V, 'checks.json')))
out = ["<!-- CHECKS-BEGIN -->", "", "| property | harness | entry (package: function) | quick bounds | thorough bounds |", "|---|---|---|---|---|"]
for pid in sorted(d):
    for h in d[pid]['harnesses']:
        q, t = h.get('quick') or {}, h.get('thorough') or {}
        def b(x):
            if not x: return "-"
            s = x.get('bounds', '')
            if x.get('max_preempt'): s += " [delays<=%d]" % x['max_preempt']
            return s.replace('|', '/')
        out.append("| %s | `%s` | %s: `%s` | %s | %s |" % (pid, h['name'], h['pkg'] or 'main', h['func'], b(q), b(t)))
out += ["", "<!-- CHECKS-END -->"]
p = os.path.join(V, 'DESIGN.md')
s = open(p).read()
blk = "\n".join(out)
if '<!-- CHECKS-BEGIN -->' in s:
    s = re.sub(r'<!-- CHECKS-BEGIN -->.*?<!-- CHECKS-END -->', lambda m: blk, s, flags=re.S)
else:
    marker = "\n---\n\n## 1. Technique in one page"
    assert marker in s
    s = s.replace(marker, "\n### 0.6 Checks as registered (generated from checks.json by tools/mkdesigntable.py)\n\nEvery harness below also carries the implicit assertions `no-panic`, `no-deadlock` and `no-data-race`.\n\n" + blk + "\n" + marker, 1)
open(p, 'w').write(s)
print("harnesses:", sum(len(d[k]['harnesses']) for k in d))
