package main

import (
	"fmt"
	"go/types"
	"math/big"
	"sort"
	"strings"

	"golang.org/x/tools/go/ssa"
)

// Value is one of: *Term (bool / integer), StrVal, PtrVal, StructVal,
// ArrayVal, SliceVal, MapVal, IfaceVal, FuncVal, ChanVal, BigVal, TimeVal,
// TupleVal, *MutexObj, *OnceObj, OpaqueVal, or a *Native object.
type Value interface{}

type StrVal struct {
	s    string
	atom *Term   // non-nil: equality-only symbolic string (SAtom sort)
	alen *Term   // symbolic length of an atom
	sym  []*Term // non-nil: symbolic bytes (concrete length)
}

func (s StrVal) concrete() bool { return s.atom == nil && s.sym == nil }

type Obj struct {
	id           int
	v            Value
	typ          types.Type
	name         string
	externUninit bool
	written      bool
}

type PtrVal struct {
	obj  *Obj
	path []int
}

func (p PtrVal) isNil() bool { return p.obj == nil }

type StructVal struct{ f []Value }
type ArrayVal struct{ e []Value }

type SliceVal struct {
	arr           *Obj // holds ArrayVal; nil = nil slice
	off, len, cap int
}

type MapObj struct {
	id   int
	keys []Value
	vals []Value
	typ  *types.Map
}
type MapVal struct{ m *MapObj }

type IfaceVal struct {
	typ types.Type // dynamic type; nil = nil interface
	v   Value
}

type NativeFn struct {
	name string
	fn   func(m *Machine, g *Goroutine, args []Value) Value
}

type FuncVal struct {
	fn     *ssa.Function
	bind   []Value
	native *NativeFn
}

func (f FuncVal) isNil() bool { return f.fn == nil && f.native == nil }

type ChanVal struct{ c *ChanObj }

type BigVal struct{ t *Term }
type TimeVal struct{ t *Term } // nanoseconds since the Unix epoch (mathematical Int)

type TupleVal []Value

// FloatVal is a float64 that came from converting an integer: its value is the integer t, which
// the conversion constrained to be float64(x) (exact below 2^53, rounded to the float64 spacing above).
// Other floating-point values stay opaque.
type FloatVal struct {
	t *Term
	// conc: a concrete float64 that is not (known to be) an integer - the result of arithmetic on
	// concrete floats. Symbolic floating-point arithmetic is outside the encoder.
	conc bool
	f    float64
}

// concrete returns the float64 a FloatVal stands for when it is concrete.
func (x FloatVal) concrete() (float64, bool) {
	if x.conc {
		return x.f, true
	}
	if x.t != nil && x.t.isConst() && x.t.sort == SInt {
		f, _ := new(big.Float).SetInt(x.t.iv).Float64()
		return f, true
	}
	return 0, false
}

type OpaqueVal struct {
	typ types.Type
	tag string
}

type MutexObj struct {
	id      int
	holder  *Goroutine
	readers int
	name    string
	vc, rvc VC // race detection: clock of the last Unlock / joined clocks of the RUnlocks
}

type OnceObj struct {
	done    bool
	running *Goroutine
	vc      VC
}

// zero time.Time is 0001-01-01: -62135596800 s before the Unix epoch.
var zeroTimeNs = new(big.Int).Mul(big.NewInt(-62135596800), big.NewInt(1000000000))

func isNamed(t types.Type, pkg, name string) bool {
	n, ok := t.(*types.Named)
	if !ok {
		return false
	}
	o := n.Obj()
	return o.Name() == name && o.Pkg() != nil && o.Pkg().Path() == pkg
}

func (m *Machine) zero(t types.Type) Value {
	switch {
	case isNamed(t, "math/big", "Int") && !m.realBig():
		return BigVal{mkInt(0)}
	case isNamed(t, "time", "Time"):
		return TimeVal{mkIntBig(zeroTimeNs)}
	case isNamed(t, "sync", "Mutex"), isNamed(t, "sync", "RWMutex"):
		m.nextID++
		return &MutexObj{id: m.nextID}
	case isNamed(t, "sync", "Once"):
		return &OnceObj{}
	}
	switch u := t.Underlying().(type) {
	case *types.Basic:
		switch {
		case u.Info()&types.IsBoolean != 0:
			return tFalse
		case u.Info()&types.IsInteger != 0:
			return mkInt(0)
		case u.Info()&types.IsString != 0:
			return StrVal{}
		case u.Kind() == types.UnsafePointer:
			return PtrVal{}
		case u.Kind() == types.UntypedNil:
			return nil
		case u.Info()&types.IsFloat != 0:
			return OpaqueVal{typ: t, tag: "float0"}
		}
		return OpaqueVal{typ: t, tag: "basic"}
	case *types.Pointer:
		return PtrVal{}
	case *types.Struct:
		f := make([]Value, u.NumFields())
		for i := range f {
			f[i] = m.zero(u.Field(i).Type())
		}
		return StructVal{f}
	case *types.Array:
		e := make([]Value, u.Len())
		for i := range e {
			e[i] = m.zero(u.Elem())
		}
		return ArrayVal{e}
	case *types.Slice:
		return SliceVal{}
	case *types.Map:
		return MapVal{}
	case *types.Interface:
		return IfaceVal{}
	case *types.Signature:
		return FuncVal{}
	case *types.Chan:
		return ChanVal{}
	case *types.Tuple:
		tv := make(TupleVal, u.Len())
		for i := range tv {
			tv[i] = m.zero(u.At(i).Type())
		}
		return tv
	}
	return OpaqueVal{typ: t, tag: "zero"}
}

func (m *Machine) newObj(v Value, t types.Type, name string) *Obj {
	m.nextID++
	return &Obj{id: m.nextID, v: v, typ: t, name: name}
}

func getPath(v Value, path []int) Value {
	for _, i := range path {
		switch x := v.(type) {
		case StructVal:
			v = x.f[i]
		case ArrayVal:
			v = x.e[i]
		default:
			panic(abortf("getPath: cannot index %T", v))
		}
	}
	return v
}

func setPath(v Value, path []int, nv Value) Value {
	if len(path) == 0 {
		return nv
	}
	i := path[0]
	switch x := v.(type) {
	case StructVal:
		f := make([]Value, len(x.f))
		copy(f, x.f)
		f[i] = setPath(x.f[i], path[1:], nv)
		return StructVal{f}
	case ArrayVal:
		e := make([]Value, len(x.e))
		copy(e, x.e)
		e[i] = setPath(x.e[i], path[1:], nv)
		return ArrayVal{e}
	}
	panic(abortf("setPath: cannot index %T", v))
}

func (m *Machine) load(p PtrVal) Value {
	if p.obj == nil {
		panic(goPanic{msg: "nil pointer dereference"})
	}
	if m.race.on {
		m.raceObj(p.obj, p.path, false)
	}
	return getPath(p.obj.v, p.path)
}

func (m *Machine) store(p PtrVal, v Value) {
	if p.obj == nil {
		panic(goPanic{msg: "nil pointer dereference (store)"})
	}
	if m.race.on {
		m.raceObj(p.obj, p.path, true)
	}
	m.noteWrite(p.obj)
	p.obj.v = setPath(p.obj.v, p.path, v)
}

func extPath(p []int, i int) []int {
	n := make([]int, len(p)+1)
	copy(n, p)
	n[len(p)] = i
	return n
}

// valueEq builds the Go == comparison of two values as a Bool term.
func (m *Machine) valueEq(a, b Value) *Term {
	switch x := a.(type) {
	case *Term:
		y, ok := b.(*Term)
		if !ok {
			panic(abortf("valueEq: %T vs %T", a, b))
		}
		return tEq(x, y)
	case StrVal:
		y := b.(StrVal)
		return m.strEq(x, y)
	case PtrVal:
		y, ok := b.(PtrVal)
		if !ok {
			return tFalse
		}
		if x.obj != y.obj || len(x.path) != len(y.path) {
			return tFalse
		}
		for i := range x.path {
			if x.path[i] != y.path[i] {
				return tFalse
			}
		}
		return tTrue
	case StructVal:
		y := b.(StructVal)
		var cs []*Term
		for i := range x.f {
			cs = append(cs, m.valueEq(x.f[i], y.f[i]))
		}
		return tAnd(cs...)
	case ArrayVal:
		y := b.(ArrayVal)
		var cs []*Term
		for i := range x.e {
			cs = append(cs, m.valueEq(x.e[i], y.e[i]))
		}
		return tAnd(cs...)
	case IfaceVal:
		y, ok := b.(IfaceVal)
		if !ok {
			panic(abortf("valueEq: iface vs %T", b))
		}
		if x.typ == nil || y.typ == nil {
			return mkBool(x.typ == nil && y.typ == nil)
		}
		if !types.Identical(x.typ, y.typ) {
			return tFalse
		}
		return m.valueEq(x.v, y.v)
	case ChanVal:
		return mkBool(x.c == b.(ChanVal).c)
	case MapVal:
		return mkBool(x.m == b.(MapVal).m) // only nil comparisons are legal Go
	case FuncVal:
		y := b.(FuncVal)
		return mkBool(x.isNil() && y.isNil())
	case SliceVal:
		y := b.(SliceVal)
		return mkBool(x.arr == nil && y.arr == nil)
	case BigVal:
		return tEq(x.t, b.(BigVal).t)
	case TimeVal:
		return tEq(x.t, b.(TimeVal).t)
	case *MutexObj:
		return mkBool(a == b)
	case *OnceObj:
		return mkBool(a == b)
	case *CtxObj:
		return mkBool(a == b)
	case *ReflType:
		y, ok := b.(*ReflType)
		return mkBool(ok && types.Identical(x.t, y.t))
	case OpaqueVal:
		y, ok := b.(OpaqueVal)
		return mkBool(ok && x.tag == y.tag)
	case nil:
		return mkBool(b == nil)
	}
	panic(abortf("valueEq: unsupported %T", a))
}

func (m *Machine) strEq(x, y StrVal) *Term {
	if x.concrete() && y.concrete() {
		return mkBool(x.s == y.s)
	}
	if x.atom != nil || y.atom != nil {
		ax, ay := m.atomOf(x), m.atomOf(y)
		return tEq(ax, ay)
	}
	// symbolic bytes
	bx, by := strBytes(x), strBytes(y)
	if len(bx) != len(by) {
		return tFalse
	}
	var cs []*Term
	for i := range bx {
		cs = append(cs, tEq(bx[i], by[i]))
	}
	return tAnd(cs...)
}

func strBytes(x StrVal) []*Term {
	if x.sym != nil {
		return x.sym
	}
	r := make([]*Term, len(x.s))
	for i := 0; i < len(x.s); i++ {
		r[i] = mkInt(int64(x.s[i]))
	}
	return r
}

// atomOf maps a string to an Atom-sorted term; concrete strings become
// distinct Atom constants (declared distinct in the solver on first use).
func (m *Machine) atomOf(x StrVal) *Term {
	if x.atom != nil {
		return x.atom
	}
	if !x.concrete() {
		panic(abortf("atomOf: symbolic-bytes string compared with an atom"))
	}
	return m.atomConst(x.s)
}

// describe renders a value for logs, samples and snapshots.
func describe(v Value) string {
	return describeD(v, 0, map[*Obj]bool{})
}

func describeD(v Value, depth int, seen map[*Obj]bool) string {
	if depth > 6 {
		return "..."
	}
	switch x := v.(type) {
	case nil:
		return "nil"
	case *Term:
		return x.String()
	case StrVal:
		if x.atom != nil {
			return "atom:" + x.atom.String()
		}
		if x.sym != nil {
			return fmt.Sprintf("symbytes[%d]", len(x.sym))
		}
		return fmt.Sprintf("%q", x.s)
	case PtrVal:
		if x.obj == nil {
			return "nil"
		}
		if seen[x.obj] {
			return fmt.Sprintf("&#%d", x.obj.id)
		}
		seen[x.obj] = true
		defer delete(seen, x.obj)
		return "&" + describeD(getPath(x.obj.v, x.path), depth+1, seen)
	case StructVal:
		parts := make([]string, len(x.f))
		for i, f := range x.f {
			parts[i] = describeD(f, depth+1, seen)
		}
		return "{" + strings.Join(parts, ", ") + "}"
	case ArrayVal:
		parts := make([]string, len(x.e))
		for i, f := range x.e {
			parts[i] = describeD(f, depth+1, seen)
		}
		return "[" + strings.Join(parts, ", ") + "]"
	case SliceVal:
		if x.arr == nil {
			return "[]nil"
		}
		if bl, ok := x.arr.v.(*Blob); ok {
			return "blob:" + bl.kind
		}
		arr := x.arr.v.(ArrayVal)
		parts := []string{}
		for i := 0; i < x.len; i++ {
			parts = append(parts, describeD(arr.e[x.off+i], depth+1, seen))
		}
		return "[" + strings.Join(parts, ", ") + "]"
	case MapVal:
		if x.m == nil {
			return "map(nil)"
		}
		parts := []string{}
		for i := range x.m.keys {
			parts = append(parts, describeD(x.m.keys[i], depth+1, seen)+":"+describeD(x.m.vals[i], depth+1, seen))
		}
		sort.Strings(parts)
		return "map{" + strings.Join(parts, ", ") + "}"
	case IfaceVal:
		if x.typ == nil {
			return "nil"
		}
		return "(" + types.TypeString(x.typ, func(p *types.Package) string { return p.Name() }) + ")" + describeD(x.v, depth+1, seen)
	case FuncVal:
		if x.fn != nil {
			return "func:" + x.fn.Name()
		}
		if x.native != nil {
			return "native:" + x.native.name
		}
		return "func(nil)"
	case ChanVal:
		return "chan"
	case BigVal:
		return "big:" + x.t.String()
	case TimeVal:
		return "time:" + x.t.String()
	case TupleVal:
		parts := make([]string, len(x))
		for i, f := range x {
			parts[i] = describeD(f, depth+1, seen)
		}
		return "(" + strings.Join(parts, ", ") + ")"
	case OpaqueVal:
		return "opaque:" + x.tag
	case *MutexObj:
		return "mutex"
	case *OnceObj:
		return "once"
	}
	return fmt.Sprintf("%T", v)
}
