package main

// Model of the parts of package reflect that jsonrpc2's method registry and
// dispatcher use, answered from go/types method sets and SSA functions
// (DESIGN section 4), plus the JSON token-stream decoder that
// parsePositionalArguments drives.

import (
	"go/types"
	"sort"

	"golang.org/x/tools/go/ssa"
)

func (m *Machine) reflKind(t types.Type) int64 {
	// reflect.Kind numbering
	switch u := t.Underlying().(type) {
	case *types.Basic:
		switch u.Kind() {
		case types.Bool:
			return 1
		case types.Int:
			return 2
		case types.Int8:
			return 3
		case types.Int16:
			return 4
		case types.Int32:
			return 5
		case types.Int64:
			return 6
		case types.Uint:
			return 7
		case types.Uint8:
			return 8
		case types.Uint16:
			return 9
		case types.Uint32:
			return 10
		case types.Uint64:
			return 11
		case types.Uintptr:
			return 12
		case types.Float32:
			return 13
		case types.Float64:
			return 14
		case types.String:
			return 24
		case types.UnsafePointer:
			return 26
		}
	case *types.Array:
		return 17
	case *types.Chan:
		return 18
	case *types.Signature:
		return 19
	case *types.Interface:
		return 20
	case *types.Map:
		return 21
	case *types.Pointer:
		return 22
	case *types.Slice:
		return 23
	case *types.Struct:
		return 25
	}
	return 0
}

// exportedMethods lists the exported methods of t's method set sorted by name (reflect's order).
func (m *Machine) exportedMethods(t types.Type) []*types.Selection {
	ms := m.prog.MethodSets.MethodSet(t)
	var r []*types.Selection
	for i := 0; i < ms.Len(); i++ {
		if ms.At(i).Obj().Exported() {
			r = append(r, ms.At(i))
		}
	}
	sort.Slice(r, func(i, j int) bool { return r[i].Obj().Name() < r[j].Obj().Name() })
	return r
}

// methodFuncType is the func type of a method value obtained via reflect.Type.Method: receiver first.
func methodFuncType(recv types.Type, sig *types.Signature) *types.Signature {
	ps := []*types.Var{types.NewVar(0, nil, "recv", recv)}
	for i := 0; i < sig.Params().Len(); i++ {
		ps = append(ps, sig.Params().At(i))
	}
	return types.NewSignatureType(nil, nil, nil, types.NewTuple(ps...), sig.Results(), sig.Variadic())
}

func (m *Machine) reflMethodStruct(recv types.Type, sel *types.Selection, index int) Value {
	sp := m.ld.ssaPkgs["reflect"]
	mt := sp.Type("Method").Type()
	fn := m.prog.MethodValue(sel)
	sig := sel.Obj().Type().(*types.Signature)
	ft := methodFuncType(recv, sig)
	st := m.zero(mt).(StructVal)
	f := append([]Value{}, st.f...)
	f[m.structField(mt, "Name")] = StrVal{s: sel.Obj().Name()}
	f[m.structField(mt, "PkgPath")] = StrVal{}
	f[m.structField(mt, "Type")] = m.reflTypeIface(ft)
	f[m.structField(mt, "Func")] = &ReflVal{typ: ft, v: FuncVal{fn: fn}}
	f[m.structField(mt, "Index")] = mkInt(int64(index))
	return StructVal{f}
}

func (m *Machine) reflTypeMethod(r *ReflType, method string, args []Value) Value {
	t := r.t
	switch method {
	case "Kind":
		return mkInt(m.reflKind(t))
	case "Elem":
		switch u := t.Underlying().(type) {
		case *types.Pointer:
			return m.reflTypeIface(u.Elem())
		case *types.Slice:
			return m.reflTypeIface(u.Elem())
		case *types.Array:
			return m.reflTypeIface(u.Elem())
		case *types.Map:
			return m.reflTypeIface(u.Elem())
		case *types.Chan:
			return m.reflTypeIface(u.Elem())
		}
		panic(goPanic{msg: "reflect: Elem of invalid type " + t.String()})
	case "Name":
		if n, ok := t.(*types.Named); ok {
			return StrVal{s: n.Obj().Name()}
		}
		if b, ok := t.(*types.Basic); ok {
			return StrVal{s: b.Name()}
		}
		return StrVal{}
	case "PkgPath":
		if n, ok := t.(*types.Named); ok && n.Obj().Pkg() != nil {
			return StrVal{s: n.Obj().Pkg().Path()}
		}
		return StrVal{}
	case "String":
		return StrVal{s: t.String()}
	case "NumMethod":
		return mkInt(int64(len(m.exportedMethods(t))))
	case "Method":
		i := int(cint(args[0], "Type.Method"))
		ms := m.exportedMethods(t)
		if i < 0 || i >= len(ms) {
			panic(goPanic{msg: "reflect: Method index out of range"})
		}
		return m.reflMethodStruct(t, ms[i], i)
	case "MethodByName":
		name := cstr(args[0], "MethodByName")
		for i, sel := range m.exportedMethods(t) {
			if sel.Obj().Name() == name {
				return TupleVal{m.reflMethodStruct(t, sel, i), tTrue}
			}
		}
		sp := m.ld.ssaPkgs["reflect"]
		return TupleVal{m.zero(sp.Type("Method").Type()), tFalse}
	case "AssignableTo":
		return mkBool(types.AssignableTo(t, reflTypeOf(args[0])))
	case "ConvertibleTo":
		return mkBool(types.ConvertibleTo(t, reflTypeOf(args[0])))
	case "Implements":
		if it, ok := reflTypeOf(args[0]).Underlying().(*types.Interface); ok {
			return mkBool(types.Implements(t, it))
		}
		panic(goPanic{msg: "reflect: non-interface type passed to Type.Implements"})
	case "Comparable":
		return mkBool(types.Comparable(t))
	case "NumIn":
		return mkInt(int64(t.Underlying().(*types.Signature).Params().Len()))
	case "In":
		return m.reflTypeIface(t.Underlying().(*types.Signature).Params().At(int(cint(args[0], "In"))).Type())
	case "NumOut":
		return mkInt(int64(t.Underlying().(*types.Signature).Results().Len()))
	case "Out":
		return m.reflTypeIface(t.Underlying().(*types.Signature).Results().At(int(cint(args[0], "Out"))).Type())
	}
	panic(abortf("reflect.Type.%s is not modelled", method))
}

func reflValOf(v Value) *ReflVal {
	if r, ok := v.(*ReflVal); ok {
		return r
	}
	return &ReflVal{} // zero reflect.Value
}

func isNilable(v Value) (bool, bool) {
	switch x := v.(type) {
	case PtrVal:
		return x.obj == nil, true
	case IfaceVal:
		return x.typ == nil, true
	case SliceVal:
		return x.arr == nil, true
	case MapVal:
		return x.m == nil, true
	case FuncVal:
		return x.isNil(), true
	case ChanVal:
		return x.c == nil, true
	}
	return false, false
}

type jsonElem struct {
	kind string // string | number | bool | object | array | null | typed
	v    Value  // typed Go value (IfaceVal) for kind "typed"
}

type jsonTokDec struct {
	elems   []jsonElem
	isArray bool
	state   int // 0 before '[', 1 inside, 2 after ']'
	pos     int
	nested  bool // Token entered an object/array element
}

func (m *Machine) jsonKindOfType(t types.Type) string {
	switch u := t.Underlying().(type) {
	case *types.Basic:
		switch {
		case u.Info()&types.IsString != 0:
			return "string"
		case u.Info()&types.IsBoolean != 0:
			return "bool"
		case u.Info()&types.IsNumeric != 0:
			return "number"
		}
	case *types.Struct, *types.Map:
		if isNamed(t, "math/big", "Int") {
			return "number"
		}
		if isNamed(t, "time", "Time") {
			return "string"
		}
		return "object"
	case *types.Slice, *types.Array:
		return "array"
	case *types.Interface:
		return "any"
	case *types.Pointer:
		return m.jsonKindOfType(u.Elem())
	}
	return "other"
}

func (m *Machine) paramsElems(data Value) *jsonTokDec {
	bl := blobOf(data)
	d := &jsonTokDec{}
	if bl == nil {
		b, ok := concreteBytes(data)
		if !ok {
			panic(abortf("json token decoder over unsupported data %s", describe(data)))
		}
		switch string(b) {
		case "[]":
			d.isArray = true
			return d
		}
		panic(abortf("json token decoder over concrete bytes %q is outside the model", string(b)))
	}
	switch bl.kind {
	case "json":
		iv, ok := bl.v.(IfaceVal)
		if !ok {
			panic(abortf("json blob without payload"))
		}
		if sl, ok := iv.v.(SliceVal); ok {
			d.isArray = true
			for _, e := range sliceElems(sl) {
				if ev, ok := e.(IfaceVal); ok && ev.typ == nil {
					d.elems = append(d.elems, jsonElem{kind: "null"})
				} else {
					d.elems = append(d.elems, jsonElem{kind: "typed", v: e})
				}
			}
			return d
		}
		return d // a non-array JSON value
	case "jsonshape":
		sh := bl.v.(TupleVal)
		d.isArray = sh[0].(*Term).isTrue()
		for _, k := range sh[1:] {
			d.elems = append(d.elems, jsonElem{kind: k.(StrVal).s})
		}
		return d
	}
	panic(abortf("json token decoder over %s blob", bl.kind))
}

func (m *Machine) delim(c rune) Value {
	dt := m.ld.ssaPkgs["encoding/json"].Type("Delim").Type()
	return IfaceVal{typ: dt, v: mkInt(int64(c))}
}

func init() {
	regV("reflect.TypeOf", func(m *Machine, g *Goroutine, a []Value) Value {
		iv, ok := a[0].(IfaceVal)
		if !ok || iv.typ == nil {
			return IfaceVal{}
		}
		return m.reflTypeIface(iv.typ)
	})
	regV("reflect.Indirect", func(m *Machine, g *Goroutine, a []Value) Value {
		r := reflValOf(a[0])
		if r.typ == nil {
			return r
		}
		if pt, ok := r.typ.Underlying().(*types.Pointer); ok {
			p := r.v.(PtrVal)
			if p.obj == nil {
				return &ReflVal{}
			}
			return &ReflVal{typ: pt.Elem(), v: m.load(p), addr: &p}
		}
		return r
	})
	regV("reflect.New", func(m *Machine, g *Goroutine, a []Value) Value {
		t := reflTypeOf(a[0])
		o := m.newObj(m.zero(t), t, "reflect.New")
		return &ReflVal{typ: types.NewPointer(t), v: PtrVal{obj: o}}
	})
	regV("(reflect.Value).Interface", func(m *Machine, g *Goroutine, a []Value) Value {
		r := reflValOf(a[0])
		if r.typ == nil {
			panic(goPanic{msg: "reflect: call of reflect.Value.Interface on zero Value"})
		}
		if types.IsInterface(r.typ) {
			return r.v
		}
		return IfaceVal{typ: r.typ, v: r.v}
	})
	regV("(reflect.Value).IsNil", func(m *Machine, g *Goroutine, a []Value) Value {
		r := reflValOf(a[0])
		if r.typ == nil {
			panic(goPanic{msg: "reflect: call of reflect.Value.IsNil on zero Value"})
		}
		n, ok := isNilable(r.v)
		if !ok {
			panic(goPanic{msg: "reflect: call of reflect.Value.IsNil on " + r.typ.String() + " Value"})
		}
		return mkBool(n)
	})
	regV("(reflect.Value).IsValid", func(m *Machine, g *Goroutine, a []Value) Value { return mkBool(reflValOf(a[0]).typ != nil) })
	regV("(reflect.Value).Kind", func(m *Machine, g *Goroutine, a []Value) Value {
		r := reflValOf(a[0])
		if r.typ == nil {
			return mkInt(0)
		}
		return mkInt(m.reflKind(r.typ))
	})
	// Value.Call: invoke the SSA function behind a method value
	reg("(reflect.Value).Call", func(m *Machine, g *Goroutine, c *callCtx) (Value, stepStatus) {
		r := reflValOf(c.args[0])
		fv, ok := r.v.(FuncVal)
		if !ok {
			panic(goPanic{msg: "reflect: call of non-function"})
		}
		sig := r.typ.Underlying().(*types.Signature)
		in := sliceElems(c.args[1])
		if len(in) != sig.Params().Len() {
			panic(goPanic{msg: "reflect: Call with too few/many input arguments"})
		}
		args := make([]Value, len(in))
		for i, x := range in {
			rv := reflValOf(x)
			pt := sig.Params().At(i).Type()
			if rv.typ == nil {
				panic(goPanic{msg: "reflect: Call using zero Value argument"})
			}
			if _, isNat := rv.v.(NativeIface); isNat && types.IsInterface(pt) {
				args[i] = IfaceVal{typ: rv.typ, v: rv.v}
				continue
			}
			if !types.AssignableTo(rv.typ, pt) {
				panic(goPanic{msg: "reflect: Call using " + rv.typ.String() + " as type " + pt.String()})
			}
			v := rv.v
			if types.IsInterface(pt) && !types.IsInterface(rv.typ) {
				v = IfaceVal{typ: rv.typ, v: rv.v}
			}
			args[i] = v
		}
		m.reflCalls++
		rt := c.fn.Signature.Results().At(0).Type().Underlying().(*types.Slice).Elem()
		m.callClosure(g, fv, args, func(ret Value) {
			var outs []Value
			res := sig.Results()
			switch res.Len() {
			case 0:
			case 1:
				outs = []Value{&ReflVal{typ: res.At(0).Type(), v: ret}}
			default:
				tv := ret.(TupleVal)
				for i := range tv {
					outs = append(outs, &ReflVal{typ: res.At(i).Type(), v: tv[i]})
				}
			}
			o := m.newObj(ArrayVal{outs}, types.NewArray(rt, int64(len(outs))), "reflect.Call results")
			c.deliver(SliceVal{arr: o, len: len(outs), cap: len(outs)})
		})
		return nil, stStay
	})

	// ---- JSON token stream over a params blob ----
	prevNewDecoder := icTable["encoding/json.NewDecoder"]
	reg("encoding/json.NewDecoder", func(m *Machine, g *Goroutine, c *callCtx) (Value, stepStatus) {
		if iv, ok := c.args[0].(IfaceVal); ok {
			if p, ok := iv.v.(PtrVal); ok && p.obj != nil {
				if br, ok := p.obj.v.(*bytesReader); ok {
					return m.nativePtr(m.paramsElems(br.data), "jsontokdec"), stNext
				}
			}
		}
		return prevNewDecoder(m, g, c)
	})
	regV("(*encoding/json.Decoder).Token", func(m *Machine, g *Goroutine, a []Value) Value {
		d, ok := m.nativeOf(a[0], "Token").(*jsonTokDec)
		if !ok {
			panic(abortf("Decoder.Token on a stream decoder"))
		}
		switch d.state {
		case 0:
			d.state = 1
			if !d.isArray {
				return TupleVal{m.delim('{'), IfaceVal{}}
			}
			return TupleVal{m.delim('['), IfaceVal{}}
		case 1:
			if d.pos >= len(d.elems) {
				d.state = 2
				return TupleVal{m.delim(']'), IfaceVal{}}
			}
			if d.nested {
				panic(abortf("Decoder.Token inside a nested value is outside the model"))
			}
			// the next element's first token: a scalar is consumed whole (its value is not modelled:
			// callers that look at it are outside the model), an object or array is entered - its
			// content is unknown and taken to be non-empty
			e := d.elems[d.pos]
			kind := e.kind
			if kind == "typed" {
				kind = m.jsonKindOfType(e.v.(IfaceVal).typ)
			}
			switch kind {
			case "object":
				d.nested = true
				return TupleVal{m.delim('{'), IfaceVal{}}
			case "array":
				d.nested = true
				return TupleVal{m.delim('['), IfaceVal{}}
			case "any", "other":
				panic(abortf("Decoder.Token on an element of unknown JSON kind is outside the model"))
			}
			d.pos++
			return TupleVal{IfaceVal{}, IfaceVal{}}
		}
		return TupleVal{IfaceVal{}, m.newErrorValue("EOF")}
	})
	regV("(*encoding/json.Decoder).More", func(m *Machine, g *Goroutine, a []Value) Value {
		d := m.nativeOf(a[0], "More").(*jsonTokDec)
		if d.nested {
			return tTrue
		}
		return mkBool(d.state == 1 && d.pos < len(d.elems))
	})
	prevDecode := icTable["(*encoding/json.Decoder).Decode"]
	reg("(*encoding/json.Decoder).Decode", func(m *Machine, g *Goroutine, c *callCtx) (Value, stepStatus) {
		d, ok := m.nativeOf(c.args[0], "Decode").(*jsonTokDec)
		if !ok {
			return prevDecode(m, g, c)
		}
		if d.pos >= len(d.elems) {
			return m.newErrorValue("EOF"), stNext
		}
		e := d.elems[d.pos]
		d.pos++
		iv, ok := c.args[1].(IfaceVal)
		if !ok || iv.typ == nil {
			return m.freshError("json: Unmarshal(nil)"), stNext
		}
		pt, ok := iv.typ.Underlying().(*types.Pointer)
		if !ok {
			return m.freshError("json: Unmarshal(non-pointer)"), stNext
		}
		dst := iv.v.(PtrVal)
		want := m.jsonKindOfType(pt.Elem())
		if e.kind == "null" {
			return IfaceVal{}, stNext
		}
		if e.kind == "typed" {
			ev := e.v.(IfaceVal)
			if types.AssignableTo(ev.typ, pt.Elem()) {
				val := m.deepCopy(ev.v, map[*Obj]*Obj{})
				if types.IsInterface(pt.Elem()) {
					val = IfaceVal{typ: ev.typ, v: val}
				}
				m.store(dst, val)
				return IfaceVal{}, stNext
			}
			have := m.jsonKindOfType(ev.typ)
			if want == "any" || have == want {
				return IfaceVal{}, stNext // decodes (into the zero value: field-level content is outside the model)
			}
			return m.freshError("json: cannot unmarshal " + have + " into Go value of type " + pt.Elem().String()), stNext
		}
		if want == "any" || e.kind == want {
			return IfaceVal{}, stNext
		}
		return m.freshError("json: cannot unmarshal " + e.kind + " into Go value of type " + pt.Elem().String()), stNext
	})
	// verifapi.JSONArgs(isArray, kinds...) builds a params payload of the given JSON shape
	regV(apiPkg+".JSONArgs", func(m *Machine, g *Goroutine, a []Value) Value {
		sh := TupleVal{mkBool(m.branch(a[0].(*Term)))}
		for _, k := range sliceElems(a[1]) {
			sh = append(sh, k)
		}
		return m.blobSlice(&Blob{kind: "jsonshape", v: sh})
	})
	regV(apiPkg+".ReflectCalls", func(m *Machine, g *Goroutine, a []Value) Value { return mkInt(int64(m.reflCalls)) })
}

var _ = ssa.Function{}
