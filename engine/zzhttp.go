package main

// net/http at the level the JSON-RPC HTTP transport uses it (C17, C15).
//
// Nothing of the real net/http is executed. The model keeps what
// jsonrpc2/http.go relies on:
//   - http.NewRequest builds a *http.Request whose Body is the reader it was
//     given (ContentLength and GetBody from a bytes.Reader); WithContext/Context carry a
//     context; Header.Set/Add/Del are no-ops and Header.Get returns "" (the
//     transport never reads a header);
//   - (*http.Client).Do hands the request to the client's Transport
//     (RoundTrip); a client without Transport would need the network and is
//     outside the model. The harness's RoundTripper is the network: it may
//     fail before delivery, lose the reply, or serve the request with the real
//     HTTPServer.ServeHTTP;
//   - http.Error(w, msg, code) = w.WriteHeader(code); w.Write(msg + "\n");
//   - io.LimitReader / io.NopCloser / ioutil.NopCloser are transparent wrappers
//     except that a LimitReader whose limit is below the length of the JSON value makes
//     the decoder fail with (unexpected) EOF;
//   - json.NewDecoder over such a wrapped reader (or over a struct embedding an
//     io.Reader, like the codec's rwc) decodes the one JSON value the
//     underlying bytes.Reader holds, then reports EOF; json.NewEncoder over a
//     struct embedding an io.Writer hands the encoded value to Write in one call.

import (
	"encoding/json"
	"go/types"
)

type readerWrap struct {
	inner Value
	limit *Term // io.LimitReader: at most this many bytes are readable (nil: no limit)
	// consumed: bytes already read through this LimitReader (stream readers: a limiter that lives as
	// long as the connection has a cumulative budget)
	consumed *Term
}

func (r *readerWrap) implements(it *types.Interface) bool { return true }
func (r *readerWrap) invoke(m *Machine, g *Goroutine, method string, args []Value) (Value, stepStatus) {
	switch method {
	case "Close":
		return IfaceVal{}, stNext
	}
	panic(abortf("method %s on a wrapped reader is outside the model (only json.Decoder reads it)", method))
}

type jsonOneShot struct {
	data  Value
	done  bool
	limit *Term // the tightest io.LimitReader on the way to the data
}

func structFieldIndex(t types.Type, name string) int {
	st, ok := t.Underlying().(*types.Struct)
	if !ok {
		return -1
	}
	for i := 0; i < st.NumFields(); i++ {
		if st.Field(i).Name() == name {
			return i
		}
	}
	return -1
}

// ioResolve follows transparent wrappers and embedded Reader/Writer fields.
// It returns the innermost value and how many layers were removed.
func (m *Machine) ioResolve(v Value, field string) (Value, int) {
	depth := 0
	m.lastIOLimit = nil
	m.lastIOWraps = nil
	for i := 0; i < 8; i++ {
		iv, ok := v.(IfaceVal)
		if !ok || iv.typ == nil {
			return v, depth
		}
		if w, ok := iv.v.(*readerWrap); ok {
			if w.limit != nil {
				m.lastIOWraps = append(m.lastIOWraps, w)
				if m.lastIOLimit == nil {
					m.lastIOLimit = w.limit
				} else {
					m.lastIOLimit = tIte(tLe(w.limit, m.lastIOLimit), w.limit, m.lastIOLimit)
				}
			}
			v = w.inner
			depth++
			continue
		}
		var sv Value
		var st types.Type
		switch x := iv.v.(type) {
		case StructVal:
			sv, st = x, iv.typ
		case PtrVal:
			if x.obj == nil {
				return v, depth
			}
			if pt, ok := iv.typ.Underlying().(*types.Pointer); ok {
				if _, isStruct := pt.Elem().Underlying().(*types.Struct); isStruct {
					if s, ok := m.load(x).(StructVal); ok {
						sv, st = s, pt.Elem()
					}
				}
			}
		}
		if sv == nil {
			return v, depth
		}
		fi := structFieldIndex(st, field)
		if fi < 0 {
			return v, depth
		}
		v = sv.(StructVal).f[fi]
		depth++
	}
	return v, depth
}

func (m *Machine) bytesReaderOf(v Value) *bytesReader {
	iv, ok := v.(IfaceVal)
	if !ok {
		return nil
	}
	p, ok := iv.v.(PtrVal)
	if !ok || p.obj == nil {
		return nil
	}
	br, _ := p.obj.v.(*bytesReader)
	return br
}

func (m *Machine) namedType(pkg, name string) types.Type {
	sp := m.ld.ssaPkgs[pkg]
	if sp == nil || sp.Type(name) == nil {
		panic(abortf("type %s.%s is not loaded", pkg, name))
	}
	return sp.Type(name).Type()
}

func (m *Machine) setField(o *Obj, name string, v Value) {
	i := structFieldIndex(o.typ, name)
	if i < 0 {
		panic(abortf("no field %s in %s", name, o.typ))
	}
	o.v = setPath(o.v, []int{i}, v)
}

func (m *Machine) getField(o *Obj, name string) Value {
	i := structFieldIndex(o.typ, name)
	if i < 0 {
		panic(abortf("no field %s in %s", name, o.typ))
	}
	return getPath(o.v, []int{i})
}

// invokeMethod calls the (exported) method name of the dynamic value in iface.
func (m *Machine) invokeMethod(g *Goroutine, iface Value, name string, args []Value, onRet func(Value)) {
	iv, ok := iface.(IfaceVal)
	if !ok || iv.typ == nil {
		panic(goPanic{msg: "nil pointer dereference (method " + name + " on nil interface)"})
	}
	if nat, ok := iv.v.(NativeIface); ok {
		v, st := nat.invoke(m, g, name, args)
		if st != stNext {
			panic(abortf("blocking native method %s called from a model", name))
		}
		onRet(v)
		return
	}
	fn := m.prog.LookupMethod(iv.typ, nil, name)
	if fn == nil {
		panic(abortf("no method %s on %s", name, iv.typ))
	}
	m.callClosure(g, FuncVal{fn: fn}, append([]Value{iv.v}, args...), onRet)
}

func init() {
	wrap := func(m *Machine, g *Goroutine, a []Value) Value {
		if iv, ok := a[0].(IfaceVal); !ok || iv.typ == nil {
			return a[0]
		}
		return IfaceVal{typ: m.ld.ctxMarker, v: &readerWrap{inner: a[0]}}
	}
	regV("io.LimitReader", func(m *Machine, g *Goroutine, a []Value) Value {
		if iv, ok := a[0].(IfaceVal); !ok || iv.typ == nil {
			return a[0]
		}
		return IfaceVal{typ: m.ld.ctxMarker, v: &readerWrap{inner: a[0], limit: a[1].(*Term)}}
	})
	// a command that starts serving: the handler is recorded for the harness and the call returns
	regV("net/http.ListenAndServe", func(m *Machine, g *Goroutine, a []Value) Value {
		m.servedHandler = a[1]
		return m.newErrorValue("verif: the listener was closed")
	})
	regV(repoMod+".verifServedHandler", func(m *Machine, g *Goroutine, a []Value) Value {
		if m.servedHandler == nil {
			return IfaceVal{}
		}
		return m.servedHandler
	})
	regV("io.NopCloser", wrap)
	regV("io/ioutil.NopCloser", wrap)

	regV("net/http.NewRequest", func(m *Machine, g *Goroutine, a []Value) Value {
		rt := m.namedType("net/http", "Request")
		o := m.newObj(m.zero(rt), rt, "http.Request")
		m.setField(o, "Method", a[0])
		ut := m.namedType("net/url", "URL")
		m.setField(o, "URL", PtrVal{obj: m.newObj(m.zero(ut), ut, "url.URL")})
		if body, ok := a[2].(IfaceVal); ok && body.typ != nil {
			m.setField(o, "Body", IfaceVal{typ: m.ld.ctxMarker, v: &readerWrap{inner: body}})
			if br := m.bytesReaderOf(body); br != nil {
				// as the real NewRequest does for bytes.Reader bodies: GetBody yields a fresh reader over the same bytes
				data := br.data
				m.setField(o, "GetBody", FuncVal{native: &NativeFn{name: "http.Request.GetBody", fn: func(m *Machine, g *Goroutine, _ []Value) Value {
					fresh := IfaceVal{typ: m.ld.ctxMarker, v: &readerWrap{inner: IfaceVal{typ: m.ld.ctxMarker, v: m.nativePtr(&bytesReader{data: data}, "bytesreader")}}}
					return TupleVal{fresh, IfaceVal{}}
				}}})
				if bl := blobOf(br.data); bl != nil {
					m.setField(o, "ContentLength", m.blobLen(bl))
				} else if b, ok := concreteBytes(br.data); ok {
					m.setField(o, "ContentLength", mkInt(int64(len(b))))
				}
			}
		}
		return TupleVal{PtrVal{obj: o}, IfaceVal{}}
	})
	regV("(*net/http.Request).WithContext", func(m *Machine, g *Goroutine, a []Value) Value {
		p := a[0].(PtrVal)
		if p.obj == nil {
			panic(goPanic{msg: "nil pointer dereference (Request.WithContext)"})
		}
		if iv, ok := a[1].(IfaceVal); !ok || iv.typ == nil {
			panic(goPanic{msg: "nil context"})
		}
		o := m.newObj(m.load(p), p.obj.typ, "http.Request")
		m.setField(o, "ctx", a[1])
		return PtrVal{obj: o}
	})
	regV("(*net/http.Request).Context", func(m *Machine, g *Goroutine, a []Value) Value {
		p := a[0].(PtrVal)
		if p.obj == nil {
			panic(goPanic{msg: "nil pointer dereference (Request.Context)"})
		}
		if len(p.path) != 0 {
			panic(abortf("http.Request embedded in another object"))
		}
		if iv, ok := m.getField(p.obj, "ctx").(IfaceVal); ok && iv.typ != nil {
			return iv
		}
		return m.ctxIface(m.bgCtx())
	})
	nop := func(m *Machine, g *Goroutine, a []Value) Value { return nil }
	regV("(net/http.Header).Set", nop)
	regV("(net/http.Header).Add", nop)
	regV("(net/http.Header).Del", nop)
	regV("(net/http.Header).Get", func(m *Machine, g *Goroutine, a []Value) Value { return StrVal{} })

	reg("net/http.Error", func(m *Machine, g *Goroutine, c *callCtx) (Value, stepStatus) {
		w, msg, code := c.args[0], c.args[1].(StrVal), c.args[2]
		if !msg.concrete() {
			// the text carries an error message built from symbolic data: its bytes are irrelevant to the transport
			msg = StrVal{s: "error"}
		}
		body := m.bytesSlice([]byte(msg.s + "\n"))
		m.invokeMethod(g, w, "WriteHeader", []Value{code}, func(Value) {
			m.invokeMethod(g, w, "Write", []Value{body}, func(Value) { c.deliver(nil) })
		})
		return nil, stStay
	})

	reg("(*net/http.Client).Do", func(m *Machine, g *Goroutine, c *callCtx) (Value, stepStatus) {
		p := c.args[0].(PtrVal)
		if p.obj == nil {
			panic(goPanic{msg: "nil pointer dereference (http.Client.Do)"})
		}
		cl, ok := m.load(p).(StructVal)
		if !ok {
			panic(abortf("http.Client is not a struct value"))
		}
		ct := m.namedType("net/http", "Client")
		tr := cl.f[structFieldIndex(ct, "Transport")]
		if iv, ok := tr.(IfaceVal); !ok || iv.typ == nil {
			panic(abortf("http.Client without Transport: the real network is outside the model"))
		}
		m.invokeMethod(g, tr, "RoundTrip", []Value{c.args[1]}, func(ret Value) { c.deliver(ret) })
		return nil, stStay
	})

	// json.Decoder over a wrapped reader: the one value the underlying bytes.Reader holds
	prevNewDecoder := icTable["encoding/json.NewDecoder"]
	reg("encoding/json.NewDecoder", func(m *Machine, g *Goroutine, c *callCtx) (Value, stepStatus) {
		inner, depth := m.ioResolve(c.args[0], "Reader")
		if depth > 0 {
			if br := m.bytesReaderOf(inner); br != nil {
				return m.nativePtr(&jsonOneShot{data: br.data, limit: m.lastIOLimit}, "jsononeshot"), stNext
			}
			if s := streamOf(inner); s != nil {
				c.args[0] = inner
				wraps := m.lastIOWraps
				for _, w := range wraps {
					s.limiters = append(s.limiters, w)
				}
				v, st := prevNewDecoder(m, g, c)
				if d, ok := m.nativeOf(v, "NewDecoder").(*jsonDecoder); ok {
					d.limiters = wraps
				}
				return v, st
			}
		}
		return prevNewDecoder(m, g, c)
	})
	prevDecode := icTable["(*encoding/json.Decoder).Decode"]
	reg("(*encoding/json.Decoder).Decode", func(m *Machine, g *Goroutine, c *callCtx) (Value, stepStatus) {
		d, ok := m.nativeOf(c.args[0], "Decode").(*jsonOneShot)
		if !ok {
			return prevDecode(m, g, c)
		}
		if d.done {
			return m.newErrorValue("EOF"), stNext
		}
		d.done = true
		if d.limit != nil {
			// a limit below the length of the value cuts it short: the decoder sees EOF inside (or before) it
			var ln *Term
			if bl := blobOf(d.data); bl != nil {
				ln = m.blobLen(bl)
			} else if b, ok := concreteBytes(d.data); ok {
				ln = mkInt(int64(len(b)))
			}
			if ln != nil && m.branch(tLt(d.limit, ln)) {
				if m.branch(tLe(d.limit, mkInt(0))) {
					return m.newErrorValue("EOF"), stNext
				}
				return m.newErrorValue("unexpected EOF"), stNext
			}
		}
		if b, ok := concreteBytes(d.data); ok {
			if len(b) == 0 {
				return m.newErrorValue("EOF"), stNext
			}
			if !json.Valid(b) {
				return m.freshError("invalid character in JSON input"), stNext
			}
		}
		return m.jsonUnmarshal(d.data, c.args[1]), stNext
	})
	// json.Encoder over a struct embedding an io.Writer: one Write with the encoded value
	prevEncode := icTable["(*encoding/json.Encoder).Encode"]
	reg("(*encoding/json.Encoder).Encode", func(m *Machine, g *Goroutine, c *callCtx) (Value, stepStatus) {
		e := m.nativeOf(c.args[0], "json.Encode").(*jsonEncoder)
		inner, _ := m.ioResolve(e.w, "Writer")
		if streamOf(inner) != nil {
			e.w = inner
			return prevEncode(m, g, c)
		}
		iv, ok := inner.(IfaceVal)
		if !ok || iv.typ == nil {
			panic(goPanic{msg: "nil pointer dereference (json.Encoder on a nil writer)"})
		}
		enc := m.jsonMarshal(c.args[1]).(TupleVal)
		m.invokeMethod(g, inner, "Write", []Value{enc[0]}, func(ret Value) {
			if tv, ok := ret.(TupleVal); ok && len(tv) == 2 {
				c.deliver(tv[1])
				return
			}
			c.deliver(IfaceVal{})
		})
		return nil, stStay
	})
}
