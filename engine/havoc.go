package main

// havoc: a function the encoding cannot reach (crypto, codecs) is replaced by
// "returns fresh symbolic results of its result types": errors are nil or
// non-nil (fork), byte slices have a symbolic length, strings are
// equality-only atoms, bools are fresh, pointers are fresh non-nil objects
// (nil when the error is non-nil). Used for C15, where only the absence of
// panics downstream of those functions is claimed.

import (
	"go/types"
	"math/big"
)

func (m *Machine) havocValue(t types.Type, tag string, failed bool) Value {
	switch u := t.Underlying().(type) {
	case *types.Basic:
		switch {
		case u.Info()&types.IsBoolean != 0:
			b := mkVar(m.uniqueName(tag+".bool"), SBool, nil, nil)
			m.declare(b)
			return b
		case u.Info()&types.IsInteger != 0:
			bits, signed := typeBits(t)
			return m.symInt(tag+".int", bits, signed)
		case u.Info()&types.IsString != 0:
			return m.freshAtom(tag+".str", nil)
		}
	case *types.Slice:
		if b, ok := u.Elem().Underlying().(*types.Basic); ok && b.Kind() == types.Uint8 {
			if failed {
				return SliceVal{}
			}
			ln := mkVar(m.uniqueName(tag+".len"), SInt, big.NewInt(0), big.NewInt(1<<16))
			m.declare(ln)
			at := mkVar(m.uniqueName(tag+".bytes"), SAtom, nil, nil)
			m.declare(at)
			return m.blobSlice(&Blob{kind: "atombytes", str: StrVal{atom: at, alen: ln}})
		}
	case *types.Pointer:
		if failed {
			return PtrVal{}
		}
		return PtrVal{obj: m.newObj(m.zero(u.Elem()), u.Elem(), "havoc:"+tag)}
	case *types.Interface:
		if types.Identical(t, types.Universe.Lookup("error").Type()) {
			if failed {
				return m.freshError("havoc error from " + tag)
			}
			return IfaceVal{}
		}
	}
	return m.zero(t)
}

func regHavoc(name string) {
	reg(name, func(m *Machine, g *Goroutine, c *callCtx) (Value, stepStatus) {
		res := c.fn.Signature.Results()
		failed := false
		// a function that can fail: fork on failure
		for i := 0; i < res.Len(); i++ {
			if types.Identical(res.At(i).Type(), types.Universe.Lookup("error").Type()) {
				fb := mkVar(m.uniqueName(name+".fails"), SBool, nil, nil)
				m.declare(fb)
				failed = m.branch(fb)
			}
		}
		switch res.Len() {
		case 0:
			return nil, stNext
		case 1:
			return m.havocValue(res.At(0).Type(), name, failed), stNext
		}
		tv := make(TupleVal, res.Len())
		for i := range tv {
			tv[i] = m.havocValue(res.At(i).Type(), name, failed)
		}
		return tv, stNext
	})
}

func init() {
	for _, n := range []string{
		"github.com/ethereum/go-ethereum/p2p/discv5.HexID",
		"(github.com/ethereum/go-ethereum/p2p/discv5.NodeID).Pubkey",
		"(*encoding/base64.Encoding).DecodeString",
		"(*encoding/base64.Encoding).EncodeToString",
		"github.com/ethereum/go-ethereum/crypto.Keccak256",
		"github.com/ethereum/go-ethereum/crypto.FromECDSAPub",
		"github.com/ethereum/go-ethereum/crypto.VerifySignature",
		"github.com/ethereum/go-ethereum/crypto.SigToPub",
		"github.com/ethereum/go-ethereum/crypto.Sign",
		"(github.com/ethereum/go-ethereum/common.Address).String",
		"github.com/ethereum/go-ethereum/crypto.PubkeyToAddress",
	} {
		regHavoc(n)
	}
	// hex.DecodeString / strings.ToLower / HasPrefix on atoms
	concreteHex := icTable["encoding/hex.DecodeString"]
	regHavoc("encoding/hex.DecodeString#havoc")
	hv := icTable["encoding/hex.DecodeString#havoc"]
	reg("encoding/hex.DecodeString", func(m *Machine, g *Goroutine, c *callCtx) (Value, stepStatus) {
		if s, ok := c.args[0].(StrVal); ok && s.concrete() {
			return concreteHex(m, g, c)
		}
		return hv(m, g, c)
	})
	concreteLower := icTable["strings.ToLower"]
	reg("strings.ToLower", func(m *Machine, g *Goroutine, c *callCtx) (Value, stepStatus) {
		if s, ok := c.args[0].(StrVal); ok && s.atom != nil {
			return m.freshAtom("lower", s.alen), stNext
		}
		return concreteLower(m, g, c)
	})
	concreteHasPrefix := icTable["strings.HasPrefix"]
	reg("strings.HasPrefix", func(m *Machine, g *Goroutine, c *callCtx) (Value, stepStatus) {
		s, _ := c.args[0].(StrVal)
		p, _ := c.args[1].(StrVal)
		if s.atom != nil && p.concrete() {
			// fresh Bool with the obvious length side condition
			b := mkVar(m.uniqueName("hasprefix"), SBool, nil, nil)
			m.declare(b)
			m.assume(tImplies(b, tGe(s.alen, mkInt(int64(len(p.s))))))
			return b, stNext
		}
		return concreteHasPrefix(m, g, c)
	})
}

func init() {
	// package main (agent.go) — the command-line interval gate (C20)
	regHavoc("time.ParseDuration")
	regV("github.com/ethereum/go-ethereum/p2p/discv5.PubkeyID", func(m *Machine, g *Goroutine, a []Value) Value {
		sp := m.ld.ssaPkgs["github.com/ethereum/go-ethereum/p2p/discv5"]
		return m.zero(sp.Type("NodeID").Type())
	})
	regV("(github.com/ethereum/go-ethereum/p2p/discv5.NodeID).String", func(m *Machine, g *Goroutine, a []Value) Value {
		return StrVal{s: m.cfgString("nodeid")}
	})
	reg(repoMod+".findRPC", func(m *Machine, g *Goroutine, c *callCtx) (Value, stepStatus) {
		fn := m.ld.ssaPkgs[repoMod].Func("verifRootNode")
		if fn == nil {
			panic(abortf("findRPC needs a harness function verifRootNode() ethnode.EthNode in package main"))
		}
		m.callClosure(g, FuncVal{fn: fn}, nil, func(v Value) { c.deliver(TupleVal{v, IfaceVal{}}) })
		return nil, stStay
	})
}

// cfgString: engine-side constants shared with verifapi/ids.go.
func (m *Machine) cfgString(k string) string {
	if k == "nodeid" {
		return "bf0de96f25b57201cf1d408d05add7722175c372ce56ec0b67f710059cc53d9ea0343446f7ec625c796a548c82bcf08308304c9fbf097bf92257e06fc7c60915"
	}
	return ""
}
