package main

// hash.Hash objects (golang.org/x/crypto/sha3 Keccak, crypto/sha256) as stateful native
// objects: Write appends to the pending input, Sum yields the idealised digest of what was
// written since the last Reset (crypto_model=1: an injective function of the input, as
// crypto.Keccak256; otherwise arbitrary bytes). Every method is a WRITE access to the
// object's state for the data-race analysis (a hasher is not safe for concurrent use).

import "go/types"

type hashObj struct {
	m      *Machine
	state  *Obj
	parts  []Value
	keccak bool
}

func (h *hashObj) implements(it *types.Interface) bool { return true }

func (h *hashObj) invoke(m *Machine, g *Goroutine, method string, args []Value) (Value, stepStatus) {
	if m.race.on {
		m.raceObj(h.state, nil, true)
	}
	switch method {
	case "Reset":
		h.parts = nil
		return nil, stNext
	case "Write":
		h.parts = append(h.parts, sliceElems2(m, args[0])...)
		n := mkInt(0)
		if sv, ok := args[0].(SliceVal); ok {
			n = mkInt(int64(sv.len))
			if sv.arr != nil {
				if bl, ok := sv.arr.v.(*Blob); ok {
					n = m.blobLen(bl)
				}
			}
		}
		return TupleVal{n, IfaceVal{}}, stNext
	case "Sum":
		var digest Value
		if m.cryptoOn() && h.keccak {
			in := m.snapshot(TupleVal(h.parts)).(*SnapVal)
			digest = m.blobSlice(&Blob{kind: "hash", v: in})
		} else {
			digest = m.blobSlice(&Blob{kind: "atombytes", str: m.freshAtom("digest", mkInt(32))})
		}
		if sv, ok := args[0].(SliceVal); ok && sv.len > 0 {
			return m.appendOp(sv, digest, nil), stNext
		}
		return digest, stNext
	case "Size":
		return mkInt(32), stNext
	case "BlockSize":
		return mkInt(136), stNext
	}
	panic(abortf("hash.Hash method %s is outside the model", method))
}

// sliceElems2 keeps a blob argument as one opaque part (its content is what matters, not its bytes).
func sliceElems2(m *Machine, v Value) []Value {
	if sv, ok := v.(SliceVal); ok && sv.arr != nil {
		if _, isBlob := sv.arr.v.(*Blob); isBlob {
			return []Value{m.snapshot(v)}
		}
	}
	return sliceElems(v)
}

func init() {
	mk := func(keccak bool) func(m *Machine, g *Goroutine, a []Value) Value {
		return func(m *Machine, g *Goroutine, a []Value) Value {
			h := &hashObj{m: m, keccak: keccak}
			h.state = m.newObj(OpaqueVal{tag: "hasher"}, nil, "hash.Hash state")
			return IfaceVal{typ: m.ld.ctxMarker, v: h}
		}
	}
	regV("golang.org/x/crypto/sha3.NewLegacyKeccak256", mk(true))
	regV("golang.org/x/crypto/sha3.New256", mk(false))
	regV("crypto/sha256.New", mk(false))
}
