package pool

import (
	"context"
	"errors"

	"github.com/vipnode/vipnode/v2/internal/verifapi"
	"github.com/vipnode/vipnode/v2/internal/verifmodels/sigs"
	"github.com/vipnode/vipnode/v2/jsonrpc2"
	"github.com/vipnode/vipnode/v2/pool/store"
)

// verifPipeCodec is an in-process message transport (one message per channel slot).
type verifPipeCodec struct {
	in, out chan *jsonrpc2.Message
}

func (c *verifPipeCodec) ReadMessage() (*jsonrpc2.Message, error) {
	m, ok := <-c.in
	if !ok {
		return nil, errors.New("closed")
	}
	return m, nil
}
func (c *verifPipeCodec) WriteMessage(m *jsonrpc2.Message) error { c.out <- m; return nil }
func (c *verifPipeCodec) Close() error                           { return nil }
func (c *verifPipeCodec) RemoteAddr() string                     { return "192.0.2.1:999" }

// verifAgentSide answers vipnode_whitelist on the host's end of the connection:
// with success, with a JSON-RPC error, or not at all.
type verifAgentSide struct {
	behaviour int
	asked     []string
}

func (h *verifAgentSide) Register(prefix string, receiver interface{}, onlyMethods ...string) error {
	return nil
}
func (h *verifAgentSide) RegisterMethod(rpcName string, receiver interface{}, methodName string) error {
	return nil
}
func (h *verifAgentSide) Handle(ctx context.Context, req *jsonrpc2.Message) *jsonrpc2.Message {
	h.asked = append(h.asked, req.Request.Method)
	r := &jsonrpc2.Message{Response: &jsonrpc2.Response{}, ID: req.ID, Version: jsonrpc2.Version}
	switch h.behaviour {
	case 0:
		r.Result = []byte("null")
	case 1:
		r.Error = &jsonrpc2.ErrResponse{Code: jsonrpc2.ErrCodeInternal, Message: "admin_addTrustedPeer refused"}
	default:
		<-ctx.Done() // never answers (the pool's deadline ends the wait)
		r.Error = &jsonrpc2.ErrResponse{Code: jsonrpc2.ErrCodeInternal, Message: "too late"}
	}
	return r
}

// VerifC08RealRemote: the host is connected through the real jsonrpc2.Remote
// (both ends served), so the whitelist instruction and its acknowledgement
// travel as real messages: a host that answers with an error reply, or not at
// all, is left out exactly like one that refused - the reply's error must
// reach the pool even though the pool discards the result.
func VerifC08RealRemote() {
	db := newVerifStore()
	p := New(db, nil)
	now := verifapi.Time("now")
	verifapi.SetNow(now)
	client, host := verifapi.NodeID(0), store.NodeID(verifapi.NodeID(1))
	db.SetNode(store.Node{ID: store.NodeID(client), LastSeen: now, Kind: "geth"})
	db.SetNode(store.Node{ID: host, IsHost: true, Kind: "geth", LastSeen: now, URI: "enode://" + string(host) + "@192.0.2.1:30303"})
	ab, ba := make(chan *jsonrpc2.Message, 4), make(chan *jsonrpc2.Message, 4)
	agent := &verifAgentSide{behaviour: verifapi.Choose("host-behaviour", 3)}
	poolSide := &jsonrpc2.Remote{Codec: &verifPipeCodec{in: ba, out: ab}, Client: &jsonrpc2.Client{}, Server: &jsonrpc2.Server{}}
	agentSide := &jsonrpc2.Remote{Codec: &verifPipeCodec{in: ab, out: ba}, Client: &jsonrpc2.Client{}, Server: agent}
	go poolSide.Serve()
	go agentSide.Serve()
	VerifRegisterRemote(p, host, poolSide)
	// a hostile host may also send replies nobody asked for, the same id twice: that can stall
	// the reading side of ITS connection, but the client's request (another connection) is still served
	dups := verifapi.Param("duplicates", 0) == 1 && verifapi.Bool("duplicate-unsolicited-replies")
	if dups {
		for i := 0; i < 2; i++ {
			ba <- &jsonrpc2.Message{ID: []byte("77"), Version: jsonrpc2.Version, Response: &jsonrpc2.Response{Result: []byte("null")}}
		}
		verifapi.Quiesce()
	}
	nonce := VerifFreshNonce()
	req := PeerRequest{Num: 1}
	resp, err := p.Peer(context.Background(), sigs.SignFor(client, "vipnode_peer", nonce, req), client, nonce, req)
	verifapi.Reach("c08.real")
	if dups {
		// the host's replies may never be read again: whether it is returned depends on that; what
		// matters is that the request came back at all
		verifapi.Assert(resp != nil || err != nil, "c15.request-is-answered")
		return
	}
	if agent.behaviour == 0 {
		verifapi.Assert(err == nil && resp != nil && len(resp.Peers) == 1 && resp.Peers[0].ID == host, "c08.real.acknowledging-host-returned")
		verifapi.Assert(len(agent.asked) == 1 && agent.asked[0] == "vipnode_whitelist", "c08.real.host-was-instructed-before-the-reply")
	} else {
		verifapi.Assert(resp == nil || len(resp.Peers) == 0, "c08.real.failing-host-left-out")
		verifapi.Assert(err != nil, "c08.real.error-when-no-host-could-be-provided")
	}
}
