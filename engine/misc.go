package main

import (
	"fmt"
	"sort"
	"strings"
)

// ---- opaque byte blobs (typed payloads standing for encoded bytes) ----

type Blob struct {
	kind string // "json" | "gob" | "atombytes"
	v    Value  // the encoded value (deep snapshot)
	typ  interface{}
	str  StrVal
	raw  string // concrete rendering when known (e.g. JSON of an int)
	cell *Obj   // "sig": the mutable recovery byte (index 64) of this copy of the signature
	r64  bool   // "sig": only R || S (the first 64 bytes) of the signature
}

func (m *Machine) blobSlice(b *Blob) Value {
	o := m.newObj(b, nil, "blob:"+b.kind)
	return SliceVal{arr: o, off: 0, len: 1, cap: 1}
}

func (m *Machine) blobLen(b *Blob) *Term {
	if b.raw != "" {
		return mkInt(int64(len(b.raw)))
	}
	if b.kind == "atombytes" {
		return m.strLen(b.str)
	}
	if b.kind == "sig" {
		if b.r64 {
			return mkInt(64)
		}
		return mkInt(65)
	}
	return mkInt(int64(len(describe(b.v)) + 2)) // positive, content-independent decisions only
}

func (m *Machine) blobString(b *Blob) Value {
	if b.raw != "" {
		return StrVal{s: b.raw}
	}
	if b.kind == "atombytes" {
		return b.str
	}
	return StrVal{s: "<blob:" + describe(b.v) + ">"}
}

func (m *Machine) blobSliceOp(s SliceVal, b *Blob, lo, hi *Term) Value {
	if b.kind == "atombytes" {
		ln := m.strLen(b.str)
		l := mkInt(0)
		if lo != nil {
			l = lo
		}
		h := ln
		if hi != nil {
			h = hi
		}
		ok := tAnd(tLe(mkInt(0), l), tLe(l, h), tLe(h, ln))
		if !m.branch(ok) {
			panic(goPanic{msg: "slice bounds out of range [" + l.String() + ":" + h.String() + "] (bytes of symbolic length)"})
		}
		if lo == nil && hi == nil {
			return s
		}
		return m.blobSlice(&Blob{kind: "atombytes", str: m.freshAtom("subbytes", tSub(h, l))})
	}
	if lo == nil && hi == nil {
		return s
	}
	if b.kind == "sig" {
		// R||S||V: the 64-byte prefix identifies the same signature in the model
		if h, ok := hi.constInt(); hi != nil && ok && h == 64 && !b.r64 {
			nb := *b
			nb.r64, nb.cell = true, nil
			return m.blobSlice(&nb)
		}
		return s
	}
	panic(abortf("slicing an opaque %s blob", b.kind))
}

func (m *Machine) blobAppend(dst SliceVal, b *Blob) Value {
	if dst.arr == nil || dst.len == 0 {
		return m.blobSlice(b)
	}
	// prefix bytes + blob: keep as a composite opaque blob
	return m.blobSlice(&Blob{kind: "concat", v: TupleVal{dst, b}, raw: ""})
}

func (m *Machine) blobAppendElems(b *Blob, elems []Value) Value {
	return m.blobSlice(&Blob{kind: "concat", v: TupleVal{b, TupleVal(elems)}})
}

// ---- monitors (guarded-by, snapshot immutability) ----

type Monitors struct {
	guard map[*Obj]*MutexObj
}

func (m *Machine) noteRead(o *Obj) {
	if o != nil && o.externUninit && !o.written && !m.inInit {
		panic(abortf("read of %s: the package's initialisers are not executed (intercept or bridge the function that uses it)", o.name))
	}
}
func (m *Machine) noteWrite(o *Obj) {
	if o != nil {
		o.written = true
	}
}
func (m *Machine) noteMapRead(mo *MapObj) {
	m.guardCheck(mo, false)
	if m.race.on {
		m.raceMap(mo, false)
	}
}
func (m *Machine) noteMapWrite(mo *MapObj) {
	m.guardCheck(mo, true)
	if m.race.on {
		m.raceMap(mo, true)
	}
}
func (m *Machine) bigWrite(p PtrVal)       {}

// guardCheck: a map registered with verifapi.GuardedBy must only be touched
// while its mutex is held by the running goroutine.
func (m *Machine) guardCheck(mo *MapObj, write bool) {
	if m.guards == nil {
		return
	}
	mu, ok := m.guards[mo]
	if !ok || m.cur == nil {
		return
	}
	held := mu.holder == m.cur || (!write && mu.readers > 0)
	if !held {
		m.guardViol++
		m.checkAssert(tFalse, "guarded-by", "assert", fmt.Sprintf("map #%d accessed without holding its mutex (write=%v)", mo.id, write))
	}
}

// ---- structural snapshots ----

type SnapVal struct{ s string; terms []*Term }

// snapshot renders the heap reachable from v as a canonical string with
// holes for symbolic leaves; Same compares skeletons and equates leaves.
func (m *Machine) snapshot(v Value) Value {
	sn := &SnapVal{}
	var sb strings.Builder
	m.snapWalk(v, &sb, sn, map[*Obj]int{}, 0)
	sn.s = sb.String()
	return sn
}

func (m *Machine) snapWalk(v Value, sb *strings.Builder, sn *SnapVal, seen map[*Obj]int, depth int) {
	if depth > 40 {
		sb.WriteString("<deep>")
		return
	}
	switch x := v.(type) {
	case nil:
		sb.WriteString("nil")
	case *Term:
		if x.sort == SBool {
			sb.WriteString("b")
		}
		fmt.Fprintf(sb, "$%d", len(sn.terms))
		sn.terms = append(sn.terms, x)
	case BigVal:
		sb.WriteString("big:")
		m.snapWalk(x.t, sb, sn, seen, depth+1)
	case TimeVal:
		sb.WriteString("time:")
		m.snapWalk(x.t, sb, sn, seen, depth+1)
	case StrVal:
		if x.concrete() {
			fmt.Fprintf(sb, "%q", x.s)
		} else if x.atom != nil {
			sb.WriteString("atom:" + x.atom.String())
		} else {
			sb.WriteString("symstr[")
			for _, b := range x.sym {
				m.snapWalk(b, sb, sn, seen, depth+1)
				sb.WriteString(",")
			}
			sb.WriteString("]")
		}
	case PtrVal:
		if x.obj == nil {
			sb.WriteString("nilptr")
			return
		}
		if id, ok := seen[x.obj]; ok {
			fmt.Fprintf(sb, "&back%d", id)
			return
		}
		seen[x.obj] = len(seen)
		sb.WriteString("&")
		m.snapWalk(getPath(x.obj.v, x.path), sb, sn, seen, depth+1)
		delete(seen, x.obj)
	case StructVal:
		sb.WriteString("{")
		for _, f := range x.f {
			m.snapWalk(f, sb, sn, seen, depth+1)
			sb.WriteString(";")
		}
		sb.WriteString("}")
	case ArrayVal:
		sb.WriteString("[")
		for _, f := range x.e {
			m.snapWalk(f, sb, sn, seen, depth+1)
			sb.WriteString(";")
		}
		sb.WriteString("]")
	case SliceVal:
		if x.arr == nil {
			sb.WriteString("[]")
			return
		}
		if bl, ok := x.arr.v.(*Blob); ok {
			sb.WriteString("blob:" + bl.kind + ":")
			m.snapWalk(bl.v, sb, sn, seen, depth+1)
			return
		}
		arr := x.arr.v.(ArrayVal)
		sb.WriteString("[")
		for i := 0; i < x.len; i++ {
			m.snapWalk(arr.e[x.off+i], sb, sn, seen, depth+1)
			sb.WriteString(";")
		}
		sb.WriteString("]")
	case MapVal:
		if x.m == nil {
			sb.WriteString("map{}")
			return
		}
		type kv struct {
			k  string
			ix int
		}
		var es []kv
		for i, k := range x.m.keys {
			es = append(es, kv{describe(k), i})
		}
		sort.Slice(es, func(i, j int) bool { return es[i].k < es[j].k })
		sb.WriteString("map{")
		for _, e := range es {
			sb.WriteString(e.k + ":")
			m.snapWalk(x.m.vals[e.ix], sb, sn, seen, depth+1)
			sb.WriteString(";")
		}
		sb.WriteString("}")
	case IfaceVal:
		if x.typ == nil {
			sb.WriteString("nil")
			return
		}
		sb.WriteString("(" + x.typ.String() + ")")
		m.snapWalk(x.v, sb, sn, seen, depth+1)
	case TupleVal:
		sb.WriteString("(")
		for _, f := range x {
			m.snapWalk(f, sb, sn, seen, depth+1)
			sb.WriteString(";")
		}
		sb.WriteString(")")
	case *MutexObj:
		sb.WriteString("mutex")
	case *OnceObj:
		sb.WriteString("once")
	case FuncVal:
		sb.WriteString(describe(x))
	case ChanVal:
		if x.c == nil {
			sb.WriteString("chan(nil)")
		} else {
			fmt.Fprintf(sb, "chan#%d", len(x.c.buf))
		}
	case *CtxObj:
		sb.WriteString("ctx")
	case OpaqueVal:
		sb.WriteString("opaque:" + x.tag)
	case FloatVal:
		sb.WriteString("float64:")
		if x.conc {
			fmt.Fprintf(sb, "%v", x.f)
			break
		}
		m.snapWalk(x.t, sb, sn, seen, depth+1)
	case *kvDB:
		x.snap(m, sb, sn, seen, depth)
	case *Blob:
		sb.WriteString("blob:" + x.kind + ":" + x.raw + ":")
		if x.kind == "atombytes" {
			m.snapWalk(x.str, sb, sn, seen, depth+1)
		} else {
			m.snapWalk(x.v, sb, sn, seen, depth+1)
		}
	case *SnapVal:
		// a snapshot nested in a value (hash of a hashed input): splice its skeleton and leaves
		sb.WriteString("snap(")
		sb.WriteString(x.s)
		sb.WriteString(")")
		sn.terms = append(sn.terms, x.terms...)
	default:
		fmt.Fprintf(sb, "<%T>", v)
	}
}

func (m *Machine) snapSame(a, b Value) Value {
	x, ok1 := a.(*SnapVal)
	y, ok2 := b.(*SnapVal)
	if !ok1 || !ok2 {
		panic(abortf("Same on non-snapshots"))
	}
	if x.s != y.s || len(x.terms) != len(y.terms) {
		m.lastSnapDiff = firstDiff(x.s, y.s)
		dbg("snapshot mismatch: %s", m.lastSnapDiff)
		return tFalse
	}
	var cs []*Term
	for i := range x.terms {
		if x.terms[i].sort != y.terms[i].sort {
			return tFalse
		}
		cs = append(cs, tEq(x.terms[i], y.terms[i]))
	}
	return tAnd(cs...)
}

func firstDiff(a, b string) string {
	i := 0
	for i < len(a) && i < len(b) && a[i] == b[i] {
		i++
	}
	lo := i - 40
	if lo < 0 {
		lo = 0
	}
	ha, hb := i+60, i+60
	if ha > len(a) {
		ha = len(a)
	}
	if hb > len(b) {
		hb = len(b)
	}
	return a[lo:ha] + "  <>  " + b[lo:hb]
}
