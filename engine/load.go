package main

import (
	"crypto/sha256"
	"fmt"
	"go/token"
	"go/types"
	"os"
	"path/filepath"
	"sort"
	"strings"

	"golang.org/x/tools/go/packages"
	"golang.org/x/tools/go/ssa"
	"golang.org/x/tools/go/ssa/ssautil"
)

var repoDir = "/repo" // GOSYM_REPO overrides it (development: run the checks against a scratch worktree)
const repoMod = "github.com/vipnode/vipnode/v2"

var verifDir = "/verif"

type Loaded struct {
	prog         *ssa.Program
	pkgs         []*packages.Package
	ssaPkgs      map[string]*ssa.Package
	errStringPtr types.Type
	bigIntType   types.Type
	ctxMarker    types.Type
	reflMarker   types.Type
	fset         *token.FileSet
	overlay      map[string][]byte
	srcHash      map[string]string
	dropped      map[string]string // harness files excluded because they do not compile against this tree
}

func (l *Loaded) isRepoPkg(path string) bool {
	return strings.HasPrefix(path, repoMod)
}

// buildOverlay maps harness, model and verifapi sources into /repo paths.
func buildOverlay() (map[string][]byte, error) {
	ov := map[string][]byte{}
	add := func(srcRoot, dstRoot string) error {
		return filepath.Walk(srcRoot, func(p string, info os.FileInfo, err error) error {
			if err != nil {
				if os.IsNotExist(err) {
					return nil
				}
				return err
			}
			if info.IsDir() || !strings.HasSuffix(p, ".go") {
				return nil
			}
			rel, _ := filepath.Rel(srcRoot, p)
			b, err := os.ReadFile(p)
			if err != nil {
				return err
			}
			ov[filepath.Join(dstRoot, rel)] = b
			return nil
		})
	}
	if err := add(filepath.Join(verifDir, "harness"), repoDir); err != nil {
		return nil, err
	}
	if err := add(filepath.Join(verifDir, "api", "verifapi"), filepath.Join(repoDir, "internal", "verifapi")); err != nil {
		return nil, err
	}
	if err := add(filepath.Join(verifDir, "models"), filepath.Join(repoDir, "internal", "verifmodels")); err != nil {
		return nil, err
	}
	return ov, nil
}

func loadProgram(pkgPaths []string) (*Loaded, error) {
	ov, err := buildOverlay()
	if err != nil {
		return nil, err
	}
	// A harness file that no longer compiles against the tree under test (it reaches into internals
	// that were refactored) is dropped and the load repeated, so that the remaining harnesses still
	// run; the harnesses it defined are reported as inconclusive by the caller.
	dropped := map[string]string{}
	for attempt := 0; attempt < 4; attempt++ {
		l, bad, err := loadWithOverlay(pkgPaths, ov)
		if err == nil {
			l.dropped = dropped
			return l, nil
		}
		if len(bad) == 0 {
			return nil, err
		}
		for f, msg := range bad {
			delete(ov, f)
			dropped[f] = msg
			fmt.Fprintf(os.Stderr, "harness file dropped (does not compile against this tree): %s: %s\n", f, msg)
		}
	}
	return nil, fmt.Errorf("harness files keep failing to compile")
}

func loadWithOverlay(pkgPaths []string, ov map[string][]byte) (*Loaded, map[string]string, error) {
	fset := token.NewFileSet()
	cfg := &packages.Config{
		Mode:       packages.NeedName | packages.NeedFiles | packages.NeedCompiledGoFiles | packages.NeedImports | packages.NeedDeps | packages.NeedTypes | packages.NeedSyntax | packages.NeedTypesInfo | packages.NeedTypesSizes | packages.NeedModule,
		Dir:        repoDir,
		Fset:       fset,
		Overlay:    ov,
		BuildFlags: []string{"-tags=verif,math_big_pure_go"},
		Env:        append(os.Environ(), "GOFLAGS=-mod=mod", "GOPROXY=off", "GOSUMDB=off", "GOTOOLCHAIN=local"),
	}
	var pats []string
	for _, p := range pkgPaths {
		pats = append(pats, repoMod+"/"+p)
	}
	pkgs, err := packages.Load(cfg, pats...)
	if err != nil {
		return nil, nil, err
	}
	nerr := 0
	bad := map[string]string{}
	packages.Visit(pkgs, nil, func(p *packages.Package) {
		for _, e := range p.Errors {
			if strings.HasPrefix(p.PkgPath, repoMod) {
				fmt.Fprintf(os.Stderr, "load error: %s: %v\n", p.PkgPath, e)
				nerr++
				// position "file:line:col"
				if i := strings.Index(e.Pos, ":"); i > 0 {
					f := e.Pos[:i]
					if _, isOv := ov[f]; isOv && strings.HasPrefix(filepath.Base(f), "zz_verif") {
						if _, seen := bad[f]; !seen {
							bad[f] = e.Msg
						}
					}
				}
			}
		}
	})
	if nerr > 0 {
		return nil, bad, fmt.Errorf("%d load errors in repo/harness packages", nerr)
	}
	prog, spkgs := ssautil.AllPackages(pkgs, ssa.InstantiateGenerics)
	prog.Build()
	l := &Loaded{prog: prog, pkgs: pkgs, fset: fset, ssaPkgs: map[string]*ssa.Package{}, overlay: ov, srcHash: map[string]string{}}
	for _, sp := range spkgs {
		if sp != nil {
			l.ssaPkgs[sp.Pkg.Path()] = sp
		}
	}
	for _, sp := range prog.AllPackages() {
		l.ssaPkgs[sp.Pkg.Path()] = sp
	}
	if ep := l.ssaPkgs["errors"]; ep != nil {
		if t := ep.Type("errorString"); t != nil {
			l.errStringPtr = types.NewPointer(t.Type())
		}
	}
	if bp := l.ssaPkgs["math/big"]; bp != nil {
		if t := bp.Type("Int"); t != nil {
			l.bigIntType = t.Type()
		}
	}
	l.reflMarker = types.NewNamed(types.NewTypeName(token.NoPos, nil, "nativeReflType", nil), types.NewStruct(nil, nil), nil)
	l.ctxMarker = types.NewNamed(types.NewTypeName(token.NoPos, nil, "nativeCtx", nil), types.NewStruct(nil, nil), nil)
	return l, nil, nil
}

// fileHash returns a short hash of a source file as currently on disk (or in the overlay).
func (l *Loaded) fileHash(path string) string {
	if h, ok := l.srcHash[path]; ok {
		return h
	}
	var b []byte
	if ob, ok := l.overlay[path]; ok {
		b = ob
	} else {
		b, _ = os.ReadFile(path)
	}
	s := sha256.Sum256(b)
	h := fmt.Sprintf("%x", s[:6])
	l.srcHash[path] = h
	return h
}

func (l *Loaded) findFunc(pkgRel, name string) *ssa.Function {
	sp := l.ssaPkgs[repoMod+"/"+pkgRel]
	if pkgRel == "" {
		sp = l.ssaPkgs[repoMod]
	}
	if sp == nil {
		return nil
	}
	return sp.Func(name)
}

func sortedKeys(m map[string]int) []string {
	var ks []string
	for k := range m {
		ks = append(ks, k)
	}
	sort.Strings(ks)
	return ks
}
