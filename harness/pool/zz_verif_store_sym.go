package pool

import (
	"github.com/vipnode/vipnode/v2/internal/verifapi"
	"github.com/vipnode/vipnode/v2/pool/store"
	"github.com/vipnode/vipnode/v2/pool/store/badger"
	"github.com/vipnode/vipnode/v2/pool/store/memory"
)

// newVerifStore: driver 0 = memory, 1 = badger (KV model in the symbolic build, real in-memory badger in replay).
func newVerifStore() store.Store {
	if verifapi.Param("driver", 0) == 1 {
		return badger.VerifOpen()
	}
	return memory.New()
}
