package verifapi

// Identity alphabets. Node ids are 128 hex characters (as real enode ids),
// wallets are 42-character addresses; they are only compared for equality by
// the code under test (DESIGN 3.5).

var nodeIDs = []string{
	"a0a0a0a0a0a0a0a0a0a0a0a0a0a0a0a0a0a0a0a0a0a0a0a0a0a0a0a0a0a0a0a0a0a0a0a0a0a0a0a0a0a0a0a0a0a0a0a0a0a0a0a0a0a0a0a0a0a0a0a0a0a0a0a0",
	"b1b1b1b1b1b1b1b1b1b1b1b1b1b1b1b1b1b1b1b1b1b1b1b1b1b1b1b1b1b1b1b1b1b1b1b1b1b1b1b1b1b1b1b1b1b1b1b1b1b1b1b1b1b1b1b1b1b1b1b1b1b1b1b1",
	"c2c2c2c2c2c2c2c2c2c2c2c2c2c2c2c2c2c2c2c2c2c2c2c2c2c2c2c2c2c2c2c2c2c2c2c2c2c2c2c2c2c2c2c2c2c2c2c2c2c2c2c2c2c2c2c2c2c2c2c2c2c2c2c2",
	"d3d3d3d3d3d3d3d3d3d3d3d3d3d3d3d3d3d3d3d3d3d3d3d3d3d3d3d3d3d3d3d3d3d3d3d3d3d3d3d3d3d3d3d3d3d3d3d3d3d3d3d3d3d3d3d3d3d3d3d3d3d3d3d3",
	"e4e4e4e4e4e4e4e4e4e4e4e4e4e4e4e4e4e4e4e4e4e4e4e4e4e4e4e4e4e4e4e4e4e4e4e4e4e4e4e4e4e4e4e4e4e4e4e4e4e4e4e4e4e4e4e4e4e4e4e4e4e4e4e4",
}

var wallets = []string{
	"0x1111111111111111111111111111111111111111",
	"0x2222222222222222222222222222222222222222",
	"0x3333333333333333333333333333333333333333",
}

// NodeID returns the i-th node identity of the alphabet.
func NodeID(i int) string { return nodeIDs[i] }

// Wallet returns the i-th wallet identity of the alphabet.
func Wallet(i int) string { return wallets[i] }
