//go:build !verifreplay

package gorilla

import (
	"encoding/json"
	"fmt"

	"github.com/vipnode/vipnode/v2/internal/verifapi"
	"github.com/vipnode/vipnode/v2/jsonrpc2"
)

// VerifC17WS: concurrent writers (and readers) on the websocket codec never
// overlap inside the connection, and every message arrives whole, once.
func VerifC17WS() {
	conn := verifConn()
	codec := &wsCodec{conn: conn}
	n := verifapi.Param("writers", 2)
	done := make(chan error, n)
	for i := 0; i < n; i++ {
		go func(i int) {
			id, _ := json.Marshal(i + 1)
			done <- codec.WriteMessage(&jsonrpc2.Message{ID: id, Version: jsonrpc2.Version, Request: &jsonrpc2.Request{Method: fmt.Sprint("m", i)}})
		}(i)
	}
	for i := 0; i < n; i++ {
		verifapi.Assert(<-done == nil, "c17.ws-write-ok")
	}
	verifapi.Assert(!verifOverlap(conn), "c17.ws-writers-never-interleave")
	// concurrent readers
	got := make(chan string, n)
	for i := 0; i < n; i++ {
		go func() {
			m, err := codec.ReadMessage()
			if err != nil {
				got <- "error"
				return
			}
			got <- string(m.ID)
		}()
	}
	seen := map[string]int{}
	for i := 0; i < n; i++ {
		seen[<-got]++
	}
	verifapi.Reach("c17.ws")
	verifapi.Assert(!verifOverlap(conn), "c17.ws-readers-never-interleave")
	for i := 0; i < n; i++ {
		id, _ := json.Marshal(i + 1)
		verifapi.Assert(seen[string(id)] == 1, "c17.ws-each-message-read-exactly-once")
	}
}
