#!/bin/bash
# seedcheck.sh <name> <worktree> <property> [tier]: confirm a seeded change (compiles, suite passes, demo fails
# with / passes without it), store it under /verif/seeded/<name>/, and run the property's check against the worktree.
set -u
name=$1; W=$2; prop=$3; tier=${4:-quick}
export GOFLAGS=-mod=mod GOPROXY=off GOSUMDB=off GOTOOLCHAIN=local
out=/verif/seeded/$name; mkdir -p $out
cd $W || exit 2
demos=$(git ls-files --others --exclude-standard | grep '_test.go$')
[ -z "$demos" ] && { echo "no demo test found"; exit 2; }
git diff > $out/patch.diff
[ -s $out/patch.diff ] || { echo "empty patch"; exit 2; }
echo "== build with change"; go build ./... || { echo BUILD-FAILS; exit 1; }
echo "== existing suite with change (demo moved away)"
mkdir -p /tmp/seedtmp.$$; for d in $demos; do mkdir -p /tmp/seedtmp.$$/$(dirname $d); mv $d /tmp/seedtmp.$$/$d; done
go test -vet=off -count=1 ./... 2>&1 | grep -v "no test files" | grep -v "^ok" > $out/suite.log; suite=$?
for d in $demos; do mv /tmp/seedtmp.$$/$d $d; done; rm -rf /tmp/seedtmp.$$
if [ -s $out/suite.log ]; then echo "SUITE-FAILS-WITH-CHANGE"; cat $out/suite.log | head; fi
pkgs=$(for d in $demos; do echo ./$(dirname $d); done | sort -u)
names=$(grep -h "^func Test" $demos | sed 's/func \(Test[A-Za-z0-9_]*\).*/\1/' | paste -sd'|')
echo "== demo with change (must FAIL)"; go test -vet=off -count=1 $pkgs -run "^($names)\$" > $out/demo_with.log 2>&1; w=$?
tail -3 $out/demo_with.log
echo "== demo without change (must PASS)"; git apply -R $out/patch.diff; go test -vet=off -count=1 $pkgs -run "^($names)\$" > $out/demo_without.log 2>&1; wo=$?; git apply $out/patch.diff
tail -3 $out/demo_without.log
for d in $demos; do mkdir -p $out/demo/$(dirname $d); cp $d $out/demo/$d; done
echo "demo_with_exit=$w demo_without_exit=$wo suite_clean=$([ -s $out/suite.log ] && echo no || echo yes)"
echo "== check $prop $tier against the worktree (demo moved away)"
mkdir -p /tmp/seedtmp2.$$; for d in $demos; do mkdir -p /tmp/seedtmp2.$$/$(dirname $d); mv $W/$d /tmp/seedtmp2.$$/$d; done
cd /verif && GOSYM_REPO=$W ./bin/gosym check $prop $tier > $out/check_$prop.$tier.log 2>&1; c=$?
for d in $demos; do mv /tmp/seedtmp2.$$/$d $W/$d; done; rm -rf /tmp/seedtmp2.$$
grep -h "^VIOLATION\|^INCONCLUSIVE\|^OK\|^KNOWN" $out/check_$prop.$tier.log | cut -c1-220 | head -8
echo "check_exit=$c"
