//go:build verifreplay

package main

import (
	"bytes"
	"encoding/json"
	"net"
	"net/http"
	"time"

	"github.com/vipnode/vipnode/v2/jsonrpc2"
)

// verifStartPool (native): the pool command really listens; calls go over HTTP.
func verifStartPool(opts Options) func(*jsonrpc2.Message) *jsonrpc2.Message {
	go runPool(opts)
	for i := 0; i < 200; i++ {
		c, err := net.Dial("tcp", opts.Pool.Bind)
		if err == nil {
			c.Close()
			break
		}
		time.Sleep(20 * time.Millisecond)
	}
	return func(m *jsonrpc2.Message) *jsonrpc2.Message {
		body, err := json.Marshal(m)
		if err != nil {
			return nil
		}
		resp, err := http.Post("http://"+opts.Pool.Bind+"/", "application/json", bytes.NewReader(body))
		if err != nil {
			return nil
		}
		defer resp.Body.Close()
		var out jsonrpc2.Message
		if err := json.NewDecoder(resp.Body).Decode(&out); err != nil {
			return nil
		}
		return &out
	}
}
