//go:build verifreplay

package sigs

import (
	"encoding/base64"

	"github.com/ethereum/go-ethereum/crypto"
	"github.com/vipnode/vipnode/v2/internal/verifapi"
	"github.com/vipnode/vipnode/v2/request"
)

var keys = []string{
	`Qz7wmX+MXfvY85IsJMnMFd8fOI4msOT24bp6Iw/NuPo=`,
	`OX9lnxz+fWNmEEBXCKfEmEsh5oGhCXXdHJBqilgZPNc=`,
	`pebDrvrc9iHxN8k7YJva6bvr6Mzimb9ZbFrGpVy/Wb0=`,
	`cl3X1He2rNZiXbsii3M9zxBTi9B7gB1Tqgk6u5rMytE=`,
	`+0HMUDyMBxFbNat59Vl6Sg+3EcVgiXt1y+JNtnjKb18=`,
	`exk5qBaBxCex5A5Rx9/0qokyz4tu2aAwCJNzsEtIXnk=`,
	`eqS1AIeHCa6xA4WWE2Q8hooTFVyUtQasJeDH3TSxkGU=`,
	`DvqsYyCf9KmbmcC34hTwIjzVWSJnXKTxSxJAlKABSBs=`,
}

// SignFor produces a real signature with the identity's real key.
func SignFor(identity string, method string, nonce int64, args ...interface{}) string {
	i := verifapi.KeyIndex(identity)
	if i < 0 {
		return "no-key-for-identity"
	}
	data, _ := base64.StdEncoding.DecodeString(keys[i])
	k, err := crypto.ToECDSA(data)
	if err != nil {
		panic(err)
	}
	sig, err := request.Sign(k, method, identity, nonce, args...)
	if err != nil {
		panic(err)
	}
	return sig
}
