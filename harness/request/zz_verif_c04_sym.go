//go:build !verifreplay

package request

import "crypto/ecdsa"

// verifKey returns the (modelled) private key of an identity of the alphabet.
func verifKey(identity string) *ecdsa.PrivateKey

// verifNextRecID fixes the recovery id of the next modelled signature.
func verifNextRecID(v int)

// verifSignV signs the request so that the signature's recovery id is v: in
// the model the id of a signature is arbitrary, so it is simply fixed; the
// native counterpart nudges the last parameter until the real signature has it.
func verifSignV(key *ecdsa.PrivateKey, v int, method, id string, nonce int64, arg verifArgs, extra int64) (string, int64, error) {
	verifNextRecID(v)
	sig, err := Sign(key, method, id, nonce, arg, extra)
	return sig, extra, err
}
