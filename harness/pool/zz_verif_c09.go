package pool

import (
	"github.com/vipnode/vipnode/v2/jsonrpc2"
	"context"
	"fmt"
	"strings"

	"github.com/vipnode/vipnode/v2/internal/verifapi"
	"github.com/vipnode/vipnode/v2/internal/verifmodels/faultstore"
	"github.com/vipnode/vipnode/v2/internal/verifmodels/sigs"
	"github.com/vipnode/vipnode/v2/pool/store"
)

// VerifC09History: histories of host connects (on any of 3 connections),
// connection closes and a final peer request, from the empty registry.
func VerifC09History() {
	db := newVerifStore()
	// with faults=1 the store may fail to record a registration (a storage fault at SetNode)
	fs := faultstore.New(db)
	p := New(fs, nil)
	faults := verifapi.Param("faults", 0) == 1
	now := verifapi.Time("now")
	verifapi.SetNow(now)
	nh := verifapi.Param("hosts", 2)
	nc := verifapi.Param("conns", 3)
	// a registration that failed on ANOTHER connection than the host's current one leaves open which
	// of the two counts as "most recently registered": nothing is claimed about that host until its next
	// successful registration. A failed re-announce on the SAME connection changes nothing.
	unsure := make([]bool, nh)
	conns := make([]*VerifHost, nc)
	live := make([]bool, nc)
	opened := make([]bool, nc)
	// with late=1 the connection objects report their own end (as jsonrpc2.Remote does), and a request that
	// was in flight when its connection ended may reach the pool afterwards: it is refused and changes nothing
	late := verifapi.Param("late", 0) == 1
	svcs := make([]jsonrpc2.Service, nc)
	for i := range conns {
		conns[i] = &VerifHost{Name: fmt.Sprint("s", i), Addr: fmt.Sprintf("192.0.2.%d:1", i+1), Behaviours: 1}
		svcs[i] = conns[i]
		if late {
			vc := &VerifConn{VerifHost: *conns[i]}
			conns[i], svcs[i] = &vc.VerifHost, vc
		}
		live[i] = true // a connection exists from the moment it is first used until closed
	}
	latest := make([]int, nh) // connection the host most recently registered on (-1: never)
	for i := range latest {
		latest[i] = -1
	}
	// a host may spell its node id in upper case or with a 0x prefix (the signature check accepts
	// either): to the pool that string IS its identity, on every path
	hostID := make([]string, nh)
	for h := range hostID {
		hostID[h] = verifapi.NodeID(1 + h)
		if verifapi.Param("spellings", 0) == 1 {
			switch verifapi.Choose(fmt.Sprint("spelling", h), 3) {
			case 1:
				hostID[h] = strings.ToUpper(hostID[h])
			case 2:
				hostID[h] = "0x" + hostID[h]
			}
		}
	}
	events := verifapi.Param("events", 3)
	for e := 0; e < events; e++ {
		k := verifapi.Choose(fmt.Sprint("event", e), nh*nc+nc+1)
		switch {
		case k < nh*nc: // host h connects on connection c
			h, c := k/nc, k%nc
			if !live[c] {
				if !late || !opened[c] {
					verifapi.Assume(false) // a closed socket cannot carry new requests
				}
				// a request that was in flight when the connection ended
				_, err := VerifConnectSvc(p, svcs[c], hostID[h], true, "")
				verifapi.Assert(err != nil, "c09.late-announce-on-ended-connection-refused")
				break
			}
			fs.Arm(-1, "")
			if faults && verifapi.Bool(fmt.Sprint("storagefault", e)) {
				fs.Arm(0, "SetNode")
			}
			_, err := VerifConnectSvc(p, svcs[c], hostID[h], true, "")
			faulted := fs.Failed != ""
			fs.Disarm()
			opened[c] = true
			if err != nil {
				if !faulted {
					verifapi.Unreachable("c09.host-connect-error")
					return
				}
				if latest[h] != c {
					unsure[h] = true
				}
			} else {
				verifapi.Assert(!faulted, "c09.unrecordable-registration-refused")
				latest[h], unsure[h] = c, false
			}
		case k < nh*nc+nc: // connection c closes (server calls the disconnect callback)
			c := k - nh*nc
			if !live[c] {
				verifapi.Assume(false)
			}
			live[c] = false
			conns[c].Closed = true
			p.CloseRemote(svcs[c])
		default: // no event
		}
		// the registry after every event
		nLive := 0
		ambiguous := false
		for h := 0; h < nh; h++ {
			if unsure[h] {
				ambiguous = true
				continue
			}
			id := store.NodeID(hostID[h])
			reg, ok := p.remoteHosts[id]
			can := latest[h] >= 0 && live[latest[h]]
			verifapi.Class("close-of-old-connection-unregisters-new", true)
			verifapi.Class("connection-registering-two-hosts-left-dangling", true)
			if can {
				nLive++
				verifapi.Assert(ok && reg == svcs[latest[h]], "c09.live-latest-connection-is-registered")
			} else {
				verifapi.Assert(!ok, "c09.closed-connection-not-registered")
				// an older connection of this host may still be open: which one counts is ambiguous
				for c := 0; c < nc; c++ {
					if opened[c] && live[c] && latest[h] >= 0 && latest[h] != c {
						ambiguous = true
					}
				}
			}
		}
		if !ambiguous {
			verifapi.Assert(p.NumRemotes() == nLive, "c09.numremotes-counts-live-hosts")
		}
	}
	verifapi.Reach("c09.history")
	// a peer request that starts now: instructions go to live latest connections only
	client := verifapi.NodeID(0)
	db.SetNode(store.Node{ID: store.NodeID(client), LastSeen: now})
	req := PeerRequest{Num: nh}
	nonce := VerifFreshNonce()
	p.Peer(context.Background(), sigs.SignFor(client, "vipnode_peer", nonce, req), client, nonce, req)
	for h := 0; h < nh; h++ {
		if unsure[h] {
			return
		}
	}
	for c := 0; c < nc; c++ {
		n := len(conns[c].Calls)
		expect := 0
		for h := 0; h < nh; h++ {
			if latest[h] == c && live[c] {
				expect++
			}
		}
		if !live[c] {
			verifapi.Assert(n == 0, "c09.closed-connection-never-called")
		} else {
			verifapi.Assert(n == expect, "c09.whitelist-goes-to-latest-live-connection")
		}
	}
}

// VerifC09CloseRace: a host registered on connection 1 reconnects on
// connection 2 while the pool is cleaning up after the end of connection 1
// (and, optionally, a second host lives on connection 1 as well): whatever
// the interleaving, afterwards the host is registered on the open connection
// 2, counted once, and a later peer request instructs it there and nowhere else.
func VerifC09CloseRace() {
	db := newVerifStore()
	p := New(db, nil)
	now := verifapi.Time("now")
	verifapi.SetNow(now)
	hid := verifapi.NodeID(1)
	conn1 := &VerifHost{Name: "s1", Addr: "192.0.2.1:1", Behaviours: 1}
	conn2 := &VerifHost{Name: "s2", Addr: "192.0.2.2:1", Behaviours: 1}
	if _, err := VerifConnect(p, conn1, hid, true, ""); err != nil {
		verifapi.Unreachable("c09.host-connect-error")
		return
	}
	other := verifapi.Bool("second-host-on-connection-1")
	if other {
		if _, err := VerifConnect(p, conn1, verifapi.NodeID(2), true, ""); err != nil {
			verifapi.Unreachable("c09.host-connect-error")
			return
		}
	}
	done := make(chan error, 2)
	go func() { done <- p.CloseRemote(conn1) }()
	go func() {
		_, err := VerifConnect(p, conn2, hid, true, "")
		done <- err
	}()
	e1, e2 := <-done, <-done
	verifapi.Reach("c09.closerace")
	verifapi.Assert(e1 == nil && e2 == nil, "c09.closerace.both-calls-succeed")
	p.mu.Lock()
	reg, ok := p.remoteHosts[store.NodeID(hid)]
	_, stale := p.remoteHosts[store.NodeID(verifapi.NodeID(2))]
	p.mu.Unlock()
	verifapi.Assert(ok && reg == conn2, "c09.live-latest-connection-is-registered")
	verifapi.Assert(!stale, "c09.closed-connection-not-registered")
	verifapi.Assert(p.NumRemotes() == 1, "c09.numremotes-counts-live-hosts")
	client := verifapi.NodeID(0)
	db.SetNode(store.Node{ID: store.NodeID(client), LastSeen: now})
	req := PeerRequest{Num: 2}
	nonce := VerifFreshNonce()
	p.Peer(context.Background(), sigs.SignFor(client, "vipnode_peer", nonce, req), client, nonce, req)
	verifapi.Assert(len(conn1.Calls) == 0, "c09.closed-connection-never-called")
	verifapi.Assert(len(conn2.Calls) == 1, "c09.whitelist-goes-to-latest-live-connection")
}
