package memory

import (
	"fmt"
	"time"

	"github.com/vipnode/vipnode/v2/internal/verifapi"
	"github.com/vipnode/vipnode/v2/pool/store"
)

// VerifC11Step: one UpdateNodePeers from an arbitrary store state:
// registered peers that are reported or still tracked are kept iff their
// recorded check-in is inside the expiry window; evicted ones are returned
// and forgotten; unknown ids are never tracked.
func VerifC11Step() {
	s := New()
	now := verifapi.Time("now")
	verifapi.SetNow(now)
	nn := verifapi.Param("nodes", 3) // node 0 = x, 1..nn-1 = other registered nodes
	ids := make([]store.NodeID, nn)
	lastSeen := make([]time.Time, nn)
	for i := 0; i < nn; i++ {
		ids[i] = store.NodeID(verifapi.NodeID(i))
		lastSeen[i] = verifapi.Time(fmt.Sprint("lastseen", i))
		verifapi.Assume(!lastSeen[i].After(now))
		s.nodes[ids[i]] = memNode{Node: store.Node{ID: ids[i], LastSeen: lastSeen[i], IsHost: i > 0}, peers: map[store.NodeID]time.Time{}}
	}
	unknown := store.NodeID("00" + string(store.NodeID(verifapi.NodeID(0)))[2:]) // an id the pool has never seen (differs from every registered one)
	// arbitrary tracked map of x: each other node tracked or not with an arbitrary recorded timestamp
	tracked := make([]bool, nn)
	trackedTs := make([]time.Time, nn)
	for i := 1; i < nn; i++ {
		tracked[i] = verifapi.Bool(fmt.Sprint("tracked", i))
		if tracked[i] {
			trackedTs[i] = verifapi.Time(fmt.Sprint("trackedts", i))
			verifapi.Assume(!trackedTs[i].After(now))
			s.nodes[ids[0]].peers[ids[i]] = trackedTs[i]
		}
	}
	// reported list: each registered node reported 0/1/2 times, plus possibly an unknown id
	reported := make([]bool, nn)
	var list []string
	for i := 1; i < nn; i++ {
		k := verifapi.Choose(fmt.Sprint("reported", i), 3)
		reported[i] = k > 0
		for j := 0; j < k; j++ {
			list = append(list, string(ids[i]))
		}
	}
	if verifapi.Bool("reportunknown") {
		list = append(list, string(unknown))
	}
	inactive, err := s.UpdateNodePeers(ids[0], list, 7)
	verifapi.Reach("c11.step")
	verifapi.Assert(err == nil, "c11.registered-node-no-error")
	deadline := now.Add(-store.ExpireInterval)
	for i := 1; i < nn; i++ {
		// recorded check-in after this keep-alive
		ts := trackedTs[i]
		known := tracked[i]
		if reported[i] {
			ts = lastSeen[i]
			known = true
		}
		nIn := 0
		for _, id := range inactive {
			if id == ids[i] {
				nIn++
			}
		}
		_, still := s.nodes[ids[0]].peers[ids[i]]
		if !known {
			verifapi.Assert(nIn == 0 && !still, "c11.untracked-unreported-not-declared")
			continue
		}
		if ts.After(deadline) {
			verifapi.Assert(nIn == 0, "c11.live-peer-never-declared-invalid")
			verifapi.Assert(still, "c11.live-peer-stays-tracked")
			verifapi.Assert(s.nodes[ids[0]].peers[ids[i]].Equal(ts), "c11.recorded-checkin-is-peers-lastseen")
		} else if ts.Before(deadline) {
			verifapi.Assert(nIn == 1, "c11.stale-peer-declared-invalid-once")
			verifapi.Assert(!still, "c11.stale-peer-forgotten")
		} else {
			// exactly on the boundary: either way, but consistently
			verifapi.Assert((nIn == 1) == !still, "c11.boundary-consistent")
		}
	}
	for _, id := range inactive {
		verifapi.Assert(id != unknown && id != ids[0], "c11.unknown-never-declared")
	}
	_, tu := s.nodes[ids[0]].peers[unknown]
	verifapi.Assert(!tu, "c11.unknown-never-tracked")
	verifapi.Assert(s.nodes[ids[0]].LastSeen.Equal(now), "c11.own-lastseen-updated")
	// NodePeers afterwards = the tracked registered peers
	active, _ := s.NodePeers(ids[0])
	for i := 1; i < nn; i++ {
		_, still := s.nodes[ids[0]].peers[ids[i]]
		n := 0
		for _, a := range active {
			if a.ID == ids[i] {
				n++
			}
		}
		if still {
			verifapi.Assert(n == 1, "c11.active-set-is-tracked-set")
		} else {
			verifapi.Assert(n == 0, "c11.active-set-excludes-evicted")
		}
	}
}

// VerifC11Live: a peer that checks in at least every <120s and is reported at
// every keep-alive is never declared invalid (history of k keep-alives).
func VerifC11Live() {
	s := New()
	t := verifapi.Time("t0")
	verifapi.SetNow(t)
	x, p := store.NodeID(verifapi.NodeID(0)), store.NodeID(verifapi.NodeID(1))
	s.SetNode(store.Node{ID: x, LastSeen: t})
	s.SetNode(store.Node{ID: p, IsHost: true, LastSeen: t})
	steps := verifapi.Param("steps", 3)
	lastP := t
	for k := 0; k < steps; k++ {
		// time passes; the peer checks in somewhere in between, within 120s of its previous check-in
		gap := verifapi.Dur(fmt.Sprint("gap", k))
		verifapi.Assume(gap >= 0)
		verifapi.Assume(gap < int64c(store.ExpireInterval))
		pAt := lastP.Add(gap)
		verifapi.SetNow(pAt)
		s.UpdateNodePeers(p, nil, 0)
		lastP = pAt
		// x's keep-alive comes later, but before the peer's check-in is 120s old
		lag := verifapi.Dur(fmt.Sprint("lag", k))
		verifapi.Assume(lag >= 0)
		verifapi.Assume(lag < int64c(store.ExpireInterval))
		verifapi.SetNow(pAt.Add(lag))
		inactive, err := s.UpdateNodePeers(x, []string{string(p)}, 0)
		verifapi.Assert(err == nil && len(inactive) == 0, "c11.live-reported-peer-never-invalid")
	}
	verifapi.Reach("c11.live")
}

func int64c(d time.Duration) time.Duration { return d }
