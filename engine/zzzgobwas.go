package main

// The gobwas websocket helpers (github.com/gobwas/ws/wsutil Reader / Writer) as a frame
// transport over a verifapi pipe, at the level jsonrpc2/ws/gobwas uses them: the Writer collects
// what json.Encoder writes until Flush sends it as ONE frame; the Reader's NextFrame moves to the
// next frame (dropping what was left of the previous one, blocking while there is none) and a
// json.Decoder on it reads the values of the current frame, hits EOF at the frame's end, and -
// like encoding/json - stays failed once it has returned a read error. Framing bytes, masking,
// fragmentation of large messages and control frames are outside the model. (Named zzz... so
// that its init runs after zzhttp.go, whose Encode / NewDecoder / Decode intercepts it wraps.)

import (
	"go/types"
	"math/big"
)

type gwWriter struct {
	s       *StreamObj
	pending []Value
	open    bool // a non-final fragment of the current message has been sent
}

type gwReader struct {
	s     *StreamObj
	frame int  // frames entered so far
	pos   int  // next unread message of the current frame
	end   int  // end of the current frame
	fin   bool // the current frame is the last one of its message
	// tail: bytes of the current frame that the JSON decoder did not consume (the encoder's trailing
	// newline stays unread whenever the value ends exactly where one of the decoder's reads ends).
	// NextFrame on a frame with unread bytes parses them as a frame header: a protocol error.
	tail bool
}

// enter moves the reader to frame i.
func (r *gwReader) enter(i int) {
	r.pos = 0
	if i > 0 {
		r.pos = r.s.frameEnds[i-1]
	}
	r.end = r.s.frameEnds[i]
	r.fin = !r.s.frameOpen[i]
	r.frame = i + 1
}

type gwDecoder struct {
	r    *gwReader
	buf  []int
	dead bool
}

func (m *Machine) gwNative(v Value) interface{} {
	iv, ok := v.(IfaceVal)
	if !ok || iv.typ == nil {
		return nil
	}
	p, ok := iv.v.(PtrVal)
	if !ok || p.obj == nil {
		return nil
	}
	switch x := p.obj.v.(type) {
	case *gwWriter, *gwReader:
		return x
	}
	return nil
}

func init() {
	const wu = "github.com/gobwas/ws/wsutil."
	pipeOf := func(m *Machine, v Value, field, what string) *StreamObj {
		inner, _ := m.ioResolve(v, field)
		s := streamOf(inner)
		if s == nil {
			panic(abortf("%s over something that is not a verifapi pipe: %s", what, describe(v)))
		}
		return s
	}
	regV(wu+"NewReader", func(m *Machine, g *Goroutine, a []Value) Value {
		return m.nativePtr(&gwReader{s: pipeOf(m, a[0], "Reader", "wsutil.NewReader")}, "wsutil.Reader")
	})
	regV(wu+"NewWriter", func(m *Machine, g *Goroutine, a []Value) Value {
		return m.nativePtr(&gwWriter{s: pipeOf(m, a[0], "Writer", "wsutil.NewWriter")}, "wsutil.Writer")
	})
	regV("(*"+wu+"Writer).Flush", func(m *Machine, g *Goroutine, a []Value) Value {
		w := m.nativeOf(a[0], "Writer.Flush").(*gwWriter)
		if w.s.closed {
			return m.newErrorValue("io: read/write on closed pipe")
		}
		// what is buffered goes out as the final frame of the message (an empty one if an oversized
		// write has already pushed everything out in a non-final fragment)
		w.s.msgs = append(w.s.msgs, w.pending...)
		w.pending = nil
		w.s.frameEnds = append(w.s.frameEnds, len(w.s.msgs))
		w.s.frameOpen = append(w.s.frameOpen, false)
		w.open = false
		return IfaceVal{}
	})
	// Buffered / Available / Size of the writer: what is pending is some number of bytes between 1 and the
	// buffer size; nothing pending = 0 (an oversized write went through as a non-final fragment)
	regV("(*"+wu+"Writer).Buffered", func(m *Machine, g *Goroutine, a []Value) Value {
		w := m.nativeOf(a[0], "Writer.Buffered").(*gwWriter)
		if len(w.pending) == 0 {
			return mkInt(0)
		}
		n := mkVar(m.uniqueName("writer-buffered"), SInt, big.NewInt(1), big.NewInt(4096))
		m.declare(n)
		return n
	})
	regV("(*"+wu+"Writer).Size", func(m *Machine, g *Goroutine, a []Value) Value { return mkInt(4096) })
	reg("(*"+wu+"Reader).NextFrame", func(m *Machine, g *Goroutine, c *callCtx) (Value, stepStatus) {
		r := m.nativeOf(c.args[0], "Reader.NextFrame").(*gwReader)
		hdr := m.zero(c.fn.Signature.Results().At(0).Type())
		if !g.atSched && m.maybePreempt(g) {
			return nil, stBlocked
		}
		if r.frame >= len(r.s.frameEnds) {
			if r.s.closed {
				g.waitFn = nil
				return TupleVal{hdr, m.newErrorValue("EOF")}, stNext
			}
			g.waitFn = func() bool { return r.frame < len(r.s.frameEnds) || r.s.closed }
			return nil, stBlocked
		}
		g.waitFn = nil
		if r.tail {
			return TupleVal{hdr, m.newErrorValue("websocket protocol error: stray payload bytes parsed as a frame header")}, stNext
		}
		r.enter(r.frame)
		// the header tells whether this frame ends its message
		ht := c.fn.Signature.Results().At(0).Type()
		if hs, ok := hdr.(StructVal); ok {
			if i := structFieldIndex(ht, "Fin"); i >= 0 {
				f := append([]Value{}, hs.f...)
				f[i] = mkBool(r.fin)
				hdr = StructVal{f}
			}
		}
		return TupleVal{hdr, IfaceVal{}}, stNext
	})
	reg("(*"+wu+"Reader).Discard", func(m *Machine, g *Goroutine, c *callCtx) (Value, stepStatus) {
		r := m.nativeOf(c.args[0], "Reader.Discard").(*gwReader)
		for {
			r.pos, r.tail = r.end, false // what is left of this frame
			if r.fin || r.frame == 0 {
				g.waitFn = nil
				return IfaceVal{}, stNext
			}
			if r.frame >= len(r.s.frameEnds) {
				if r.s.closed {
					g.waitFn = nil
					return m.newErrorValue("unexpected EOF"), stNext
				}
				g.waitFn = func() bool { return r.frame < len(r.s.frameEnds) || r.s.closed }
				return nil, stBlocked
			}
			r.enter(r.frame)
		}
	})
	prevEncode := icTable["(*encoding/json.Encoder).Encode"]
	reg("(*encoding/json.Encoder).Encode", func(m *Machine, g *Goroutine, c *callCtx) (Value, stepStatus) {
		e := m.nativeOf(c.args[0], "json.Encode").(*jsonEncoder)
		inner, _ := m.ioResolve(e.w, "Writer")
		if w, ok := m.gwNative(inner).(*gwWriter); ok {
			w.pending = append(w.pending, m.deepCopy(c.args[1], map[*Obj]*Obj{}))
			// the encoded value either fits the Writer's buffer (4096 bytes by default) or not: if
			// not, the Writer pushes it out at once as a NON-final fragment
			big := mkVar(m.uniqueName("exceeds-writer-buffer"), SBool, nil, nil)
			m.declare(big)
			if m.cfg.Params["gobwas_large"] == 1 && m.branch(big) {
				if w.s.closed {
					return m.newErrorValue("io: read/write on closed pipe"), stNext
				}
				w.s.msgs = append(w.s.msgs, w.pending...)
				w.pending = nil
				w.s.frameEnds = append(w.s.frameEnds, len(w.s.msgs))
				w.s.frameOpen = append(w.s.frameOpen, true)
				w.open = true
			}
			return IfaceVal{}, stNext
		}
		return prevEncode(m, g, c)
	})
	prevNewDecoder := icTable["encoding/json.NewDecoder"]
	reg("encoding/json.NewDecoder", func(m *Machine, g *Goroutine, c *callCtx) (Value, stepStatus) {
		inner, _ := m.ioResolve(c.args[0], "Reader")
		if r, ok := m.gwNative(inner).(*gwReader); ok {
			return m.nativePtr(&gwDecoder{r: r}, "jsondec.gobwas"), stNext
		}
		return prevNewDecoder(m, g, c)
	})
	prevDecode := icTable["(*encoding/json.Decoder).Decode"]
	reg("(*encoding/json.Decoder).Decode", func(m *Machine, g *Goroutine, c *callCtx) (Value, stepStatus) {
		d, ok := m.nativeOf(c.args[0], "Decode").(*gwDecoder)
		if !ok {
			return prevDecode(m, g, c)
		}
		if d.dead {
			return m.newErrorValue("EOF"), stNext
		}
		for len(d.buf) == 0 {
			for d.r.pos < d.r.end {
				d.buf = append(d.buf, d.r.pos)
				d.r.pos++
			}
			if len(d.buf) > 0 || d.r.fin {
				break
			}
			// the frame is a non-final fragment: Read goes on with the continuation frame
			if d.r.frame >= len(d.r.s.frameEnds) {
				if d.r.s.closed {
					d.dead = true
					return m.newErrorValue("unexpected EOF"), stNext
				}
				r := d.r
				g.waitFn = func() bool { return r.frame < len(r.s.frameEnds) || r.s.closed }
				return nil, stBlocked
			}
			g.waitFn = nil
			d.r.enter(d.r.frame)
		}
		if len(d.buf) == 0 {
			d.dead = true // the read error sticks (json.Decoder keeps it)
			return m.newErrorValue("EOF"), stNext
		}
		i := d.buf[0]
		d.buf = d.buf[1:]
		if len(d.buf) == 0 && d.r.pos >= d.r.end && m.cfg.Params["gobwas_large"] == 1 {
			// the value was the last of its frame: whether its trailing newline has been read as well
			// depends on where the decoder's reads happened to end
			left := mkVar(m.uniqueName("trailing-newline-left-unread"), SBool, nil, nil)
			m.declare(left)
			d.r.tail = m.branch(left)
		}
		return m.jsonStoreInto(d.r.s.msgs[i], c.args[1]), stNext
	})
}

var _ = types.Typ
