//go:build verifreplay

package payment

import (
	"context"
	"errors"
	"math/big"
	"strings"

	ethereum "github.com/ethereum/go-ethereum"
	"github.com/ethereum/go-ethereum/accounts/abi"
	"github.com/ethereum/go-ethereum/accounts/abi/bind"
	"github.com/ethereum/go-ethereum/common"
	"github.com/ethereum/go-ethereum/core/types"
	"github.com/ethereum/go-ethereum/crypto"
	"github.com/vipnode/vipnode-contract/go/vipnodepool"
)

// verifBackend is the Ethereum node of the native replay: it decodes the two
// contract calls contractPayment makes and answers from the chain model.
type verifBackend struct {
	abi abi.ABI
}

func (b *verifBackend) CodeAt(ctx context.Context, contract common.Address, blockNumber *big.Int) ([]byte, error) {
	return []byte{0x60}, nil
}
func (b *verifBackend) PendingCodeAt(ctx context.Context, account common.Address) ([]byte, error) {
	return []byte{0x60}, nil
}
func (b *verifBackend) call(data []byte) ([]byte, error) {
	method, err := b.abi.MethodById(data[:4])
	if err != nil {
		return nil, err
	}
	if method.Name != "accounts" {
		return nil, errors.New("verifBackend: unexpected call " + method.Name)
	}
	args, err := method.Inputs.UnpackValues(data[4:])
	if err != nil {
		return nil, err
	}
	bal, lock, err := verifChainAccounts(args[0].(common.Address).Hex())
	if err != nil {
		return nil, err
	}
	return method.Outputs.Pack(bal, lock)
}
func (b *verifBackend) CallContract(ctx context.Context, call ethereum.CallMsg, blockNumber *big.Int) ([]byte, error) {
	return b.call(call.Data)
}
func (b *verifBackend) PendingCallContract(ctx context.Context, call ethereum.CallMsg) ([]byte, error) {
	return b.call(call.Data)
}
func (b *verifBackend) PendingNonceAt(ctx context.Context, account common.Address) (uint64, error) {
	return uint64(len(verifTheChain.settled)), nil
}
func (b *verifBackend) SuggestGasPrice(ctx context.Context) (*big.Int, error) {
	return big.NewInt(1000000000), nil
}
func (b *verifBackend) EstimateGas(ctx context.Context, call ethereum.CallMsg) (uint64, error) {
	return 100000, nil
}
func (b *verifBackend) SendTransaction(ctx context.Context, tx *types.Transaction) error {
	data := tx.Data()
	method, err := b.abi.MethodById(data[:4])
	if err != nil {
		return err
	}
	if method.Name != "opSettle" {
		return errors.New("verifBackend: unexpected transaction " + method.Name)
	}
	args, err := method.Inputs.UnpackValues(data[4:])
	if err != nil {
		return err
	}
	return verifChainOpSettle(args[0].(common.Address).Hex(), args[1].(*big.Int), args[2].(*big.Int))
}
func (b *verifBackend) FilterLogs(ctx context.Context, query ethereum.FilterQuery) ([]types.Log, error) {
	return nil, nil
}
func (b *verifBackend) SubscribeFilterLogs(ctx context.Context, query ethereum.FilterQuery, ch chan<- types.Log) (ethereum.Subscription, error) {
	return nil, errors.New("verifBackend: no subscriptions")
}

func verifNewBinding() *vipnodepool.VipnodePool {
	parsed, err := abi.JSON(strings.NewReader(vipnodepool.VipnodePoolABI))
	if err != nil {
		panic(err)
	}
	c, err := vipnodepool.NewVipnodePool(common.HexToAddress("0x00000000000000000000000000000000000c0de1"), &verifBackend{abi: parsed})
	if err != nil {
		panic(err)
	}
	return c
}

func verifTransactOpts() *bind.TransactOpts {
	key, err := crypto.GenerateKey()
	if err != nil {
		panic(err)
	}
	return bind.NewKeyedTransactor(key)
}
