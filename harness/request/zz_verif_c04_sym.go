//go:build !verifreplay

package request

import "crypto/ecdsa"

// verifKey returns the (modelled) private key of an identity of the alphabet.
func verifKey(identity string) *ecdsa.PrivateKey
