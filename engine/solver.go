package main

// Long-lived SMT solver processes spoken to over stdin/stdout (SMT-LIB2).

import (
	"bufio"
	"fmt"
	"io"
	"os/exec"
	"strings"
	"sync/atomic"
	"time"
)

type Solver struct {
	name   string
	cmd    *exec.Cmd
	in     io.WriteCloser
	out    *bufio.Reader
	dead   bool
	nQuery int64
	tQuery time.Duration
	log    io.Writer // optional transcript
}

var solverTimeoutMs = 30000

func newSolver(name string) (*Solver, error) {
	var cmd *exec.Cmd
	switch name {
	case "z3":
		cmd = exec.Command("/usr/bin/z3", "-in", "-smt2")
	case "z3-new":
		cmd = exec.Command("z3-new", "-in", "-smt2")
	case "cvc5":
		cmd = exec.Command("cvc5", "--incremental", "--lang=smt2", "--produce-models", fmt.Sprintf("--tlimit-per=%d", solverTimeoutMs))
	default:
		return nil, fmt.Errorf("unknown solver %s", name)
	}
	in, err := cmd.StdinPipe()
	if err != nil {
		return nil, err
	}
	out, err := cmd.StdoutPipe()
	if err != nil {
		return nil, err
	}
	cmd.Stderr = cmd.Stdout
	if err := cmd.Start(); err != nil {
		return nil, err
	}
	s := &Solver{name: name, cmd: cmd, in: in, out: bufio.NewReaderSize(out, 1<<16)}
	s.init()
	return s, nil
}

func (s *Solver) init() {
	if s.name == "cvc5" {
		s.send("(set-logic ALL)")
	} else {
		s.send(fmt.Sprintf("(set-option :timeout %d)", solverTimeoutMs))
	}
	s.send(smtPrelude)
}

func (s *Solver) send(cmd string) {
	if s.dead {
		return
	}
	if s.log != nil {
		io.WriteString(s.log, cmd+"\n")
	}
	if _, err := io.WriteString(s.in, cmd+"\n"); err != nil {
		s.dead = true
	}
}

func (s *Solver) close() {
	if s == nil || s.cmd == nil {
		return
	}
	s.send("(exit)")
	s.in.Close()
	done := make(chan struct{})
	go func() { s.cmd.Wait(); close(done) }()
	select {
	case <-done:
	case <-time.After(2 * time.Second):
		s.cmd.Process.Kill()
	}
}

// readLine returns the next non-empty line.
func (s *Solver) readLine() (string, error) {
	for {
		l, err := s.out.ReadString('\n')
		if err != nil {
			s.dead = true
			return "", err
		}
		l = strings.TrimSpace(l)
		if l != "" {
			return l, nil
		}
	}
}

// readSexp reads one balanced s-expression (possibly spanning lines).
func (s *Solver) readSexp() (string, error) {
	var sb strings.Builder
	depth := 0
	started := false
	inBar := false
	for {
		c, err := s.out.ReadByte()
		if err != nil {
			s.dead = true
			return sb.String(), err
		}
		if !started {
			if c == ' ' || c == '\n' || c == '\t' || c == '\r' {
				continue
			}
			started = true
			if c != '(' {
				// atom: read to end of line
				rest, _ := s.out.ReadString('\n')
				return string(c) + strings.TrimSpace(rest), nil
			}
		}
		sb.WriteByte(c)
		if c == '|' {
			inBar = !inBar
		}
		if inBar {
			continue
		}
		if c == '(' {
			depth++
		} else if c == ')' {
			depth--
			if depth == 0 {
				return sb.String(), nil
			}
		}
	}
}

var totalQueries int64

// checkSat sends (check-sat) followed by an echo marker and reads up to the
// marker, so that stray output (errors of earlier commands) can never be
// mistaken for, or desynchronise, an answer. Any error line yields "unknown"
// (inconclusive, never success).
func (s *Solver) checkSat() string {
	if s.dead {
		return "unknown"
	}
	t0 := time.Now()
	s.nQuery++
	marker := fmt.Sprintf("sync-%d", s.nQuery)
	s.send("(check-sat)")
	s.send("(echo \"" + marker + "\")")
	atomic.AddInt64(&totalQueries, 1)
	ans := ""
	errLine := ""
	for {
		l, err := s.readLine()
		if err != nil {
			s.tQuery += time.Since(t0)
			return "unknown"
		}
		l = strings.Trim(l, "\"")
		if l == marker {
			break
		}
		switch {
		case l == "sat" || l == "unsat" || l == "unknown":
			ans = l
		case strings.HasPrefix(l, "(error"):
			errLine = l
		}
	}
	s.tQuery += time.Since(t0)
	if errLine != "" {
		return "unknown:" + errLine
	}
	if ans == "" {
		return "unknown"
	}
	return ans
}

// getValues asks for the values of the given variables after a sat answer.
func (s *Solver) getValues(vars []*Term) map[string]string {
	res := map[string]string{}
	if len(vars) == 0 || s.dead {
		return res
	}
	var sb strings.Builder
	sb.WriteString("(get-value (")
	for _, v := range vars {
		sb.WriteString(v.String())
		sb.WriteString(" ")
	}
	sb.WriteString("))")
	s.send(sb.String())
	txt, err := s.readSexp()
	if err != nil || strings.HasPrefix(txt, "(error") {
		return res
	}
	items := parseSexp(txt)
	if items == nil {
		return res
	}
	for _, it := range items.list {
		if len(it.list) == 2 {
			res[strings.Trim(it.list[0].flat(), "|")] = it.list[1].flat()
		}
	}
	return res
}

type sexp struct {
	atom string
	list []*sexp
	isL  bool
}

func (e *sexp) flat() string {
	if !e.isL {
		return e.atom
	}
	// normalise (- 5) to -5
	if len(e.list) == 2 && !e.list[0].isL && e.list[0].atom == "-" && !e.list[1].isL {
		return "-" + e.list[1].atom
	}
	parts := make([]string, len(e.list))
	for i, x := range e.list {
		parts[i] = x.flat()
	}
	return "(" + strings.Join(parts, " ") + ")"
}

func parseSexp(s string) *sexp {
	pos := 0
	var parse func() *sexp
	parse = func() *sexp {
		for pos < len(s) && (s[pos] == ' ' || s[pos] == '\n' || s[pos] == '\t' || s[pos] == '\r') {
			pos++
		}
		if pos >= len(s) {
			return nil
		}
		if s[pos] == '(' {
			pos++
			e := &sexp{isL: true}
			for {
				for pos < len(s) && (s[pos] == ' ' || s[pos] == '\n' || s[pos] == '\t' || s[pos] == '\r') {
					pos++
				}
				if pos >= len(s) {
					return e
				}
				if s[pos] == ')' {
					pos++
					return e
				}
				c := parse()
				if c == nil {
					return e
				}
				e.list = append(e.list, c)
			}
		}
		start := pos
		if s[pos] == '|' {
			pos++
			for pos < len(s) && s[pos] != '|' {
				pos++
			}
			pos++
			return &sexp{atom: s[start:pos]}
		}
		for pos < len(s) && s[pos] != ' ' && s[pos] != ')' && s[pos] != '(' && s[pos] != '\n' {
			pos++
		}
		return &sexp{atom: s[start:pos]}
	}
	return parse()
}
