package main

func cmdCheck(id, tier string) int { return 2 }
func cmdReplay(path string) int   { return 2 }
