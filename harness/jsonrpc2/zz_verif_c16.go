package jsonrpc2

import (
	"context"
	"encoding/json"
	"errors"
	"fmt"

	"github.com/vipnode/vipnode/v2/internal/verifapi"
)

// VerifLedger is registered on the real Server: one method with two required parameters.
type VerifLedger struct {
	ran []int64
}

func (l *VerifLedger) Transfer(ctx context.Context, to string, amount int64) (int64, error) {
	l.ran = append(l.ran, amount)
	return amount, nil
}

// Broken returns a value encoding/json cannot encode.
func (l *VerifLedger) Broken(ctx context.Context) (chan int, error) { return make(chan int), nil }

// Refuse fails.
func (l *VerifLedger) Refuse(ctx context.Context) (int64, error) { return 0, errors.New("refused") }

// Void returns nothing.
func (l *VerifLedger) Void(ctx context.Context) error { return nil }

// VerifC15Results: Server.Handle with registered methods whose outcome is a
// value, an error, nothing, or a value that cannot be encoded: the reply
// always carries the request's own id and version and either a result or an
// error - an unencodable result is answered with an error.
func VerifC15Results() {
	srv := &Server{}
	if err := srv.Register("bank_", &VerifLedger{}); err != nil {
		verifapi.Unreachable("c15.results-register")
	}
	id := []json.RawMessage{json.RawMessage("5"), json.RawMessage(`"abc"`), json.RawMessage("-7"), json.RawMessage("0"), json.RawMessage("-1.5e3"), json.RawMessage(`""`)}[verifapi.Choose("id", 6)]
	full, _ := json.Marshal([]interface{}{"alice", verifapi.Int64("amount")})
	kind := verifapi.Choose("call", 5)
	req := &Request{Method: []string{"bank_transfer", "bank_transfer", "bank_broken", "bank_refuse", "bank_void"}[kind]}
	if kind == 0 {
		req.Params = full
	}
	out := srv.Handle(context.Background(), &Message{ID: id, Version: Version, Request: req})
	verifapi.Reach("c15.results")
	verifapi.Assert(out != nil && out.Response != nil, "c15.handle-always-replies")
	if out == nil || out.Response == nil {
		return
	}
	verifapi.Assert(string(out.ID) == string(id), "c15.handle-reply-carries-request-id")
	verifapi.Assert(out.Version == Version, "c15.handle-reply-version")
	switch kind {
	case 0:
		verifapi.Assert(out.Response.Error == nil && len(out.Response.Result) > 0, "c15.results.value-is-returned")
	case 1, 2, 3:
		verifapi.Assert(out.Response.Error != nil, "c15.results.failure-is-an-error-reply")
	case 4:
		verifapi.Assert(out.Response.Error == nil, "c15.results.void-is-not-an-error")
	}
}

type verifSent struct {
	kind   int
	amount int64
}

// garbageBefore: did an invalid envelope precede message i (the connection may have been dropped)?
func garbageBefore(msgs []verifSent, i int) bool {
	for _, s := range msgs[:i] {
		if s.kind == 4 {
			return true
		}
	}
	return false
}

// VerifC16Stream: a connection served by the real Remote/Server over the
// stream codec receives a sequence of JSON values: complete calls, calls that
// lack the method name, the parameters or one parameter, and well-formed JSON
// values that are not valid envelopes (a wrongly typed member) - in any
// order. A method only ever runs for a message that itself names it and
// itself carries the right parameters; a message that lacks them is answered
// with method-not-found / invalid-params (or not at all when the connection
// was dropped because of the garbage before it), whatever preceded it.
func VerifC16Stream() {
	svc := &VerifLedger{}
	srv := &Server{}
	if err := srv.Register("bank_", svc); err != nil {
		verifapi.Unreachable("c16.stream-register")
	}
	in, out := verifapi.NewPipe(), verifapi.NewPipe()
	r := &Remote{Codec: IOCodec(verifDuplex{in, out, out}), Client: &Client{}, Server: srv}
	n := verifapi.Param("messages", 2)
	type sent = verifSent
	var msgs []sent
	for i := 0; i < n; i++ {
		amount := verifapi.Int64(fmt.Sprint("amount", i))
		id, _ := json.Marshal(i + 1)
		full, _ := json.Marshal([]interface{}{"alice", amount})
		one, _ := json.Marshal([]interface{}{"alice"})
		msg := &Message{ID: id, Version: Version}
		kind := verifapi.Choose(fmt.Sprint("kind", i), 6)
		switch kind {
		case 5: // a call that names the empty method (an unregistered name like any other)
			msg.Request = &Request{Method: "", Params: full}
		case 0, 4: // a complete call (4: inside an envelope with a wrongly typed member)
			msg.Request = &Request{Method: "bank_transfer", Params: full}
		case 1: // no method name (and so no request part at all): just id and version
		case 2: // no parameters
			msg.Request = &Request{Method: "bank_transfer"}
		case 3: // one parameter short
			msg.Request = &Request{Method: "bank_transfer", Params: one}
		}
		if kind == 4 {
			verifapi.WriteMistyped(in, msg)
		} else if err := json.NewEncoder(in).Encode(msg); err != nil {
			verifapi.Unreachable("c16.stream-write")
		}
		msgs = append(msgs, sent{kind, amount})
	}
	in.Close()
	r.Serve()
	verifapi.Quiesce() // the handlers finish and write their replies
	out.Close()
	verifapi.Reach("c16.stream")
	// the replies
	dec := json.NewDecoder(out)
	replies := map[string]*Message{}
	for {
		var reply Message
		if err := dec.Decode(&reply); err != nil {
			break
		}
		verifapi.Assert(replies[string(reply.ID)] == nil, "c16.stream.one-reply-per-request")
		m := reply
		replies[string(reply.ID)] = &m
	}
	// only complete calls may have run, each at most once and with its own amount
	var mayRun []int64
	for i, s := range msgs {
		id, _ := json.Marshal(i + 1)
		reply := replies[string(id)]
		switch s.kind {
		case 0:
			mayRun = append(mayRun, s.amount)
		case 4:
			// not a valid message: must not be served; the connection may be dropped or go on
			if reply != nil {
				verifapi.Assert(reply.Response != nil && reply.Response.Error != nil, "c16.stream.invalid-envelope-not-served")
			}
		case 1:
			if reply != nil {
				verifapi.Assert(reply.Response != nil && reply.Response.Error != nil && reply.Response.Error.Code == ErrCodeMethodNotFound, "c16.stream.no-method-name-is-method-not-found")
			}
		case 5:
			verifapi.Assert(garbageBefore(msgs, i) || (reply != nil && reply.Response != nil && reply.Response.Error != nil && reply.Response.Error.Code == ErrCodeMethodNotFound), "c16.stream.empty-name-is-method-not-found")
		case 2, 3:
			if reply != nil {
				verifapi.Assert(reply.Response != nil && reply.Response.Error != nil && reply.Response.Error.Code == ErrCodeInvalidParams, "c16.stream.missing-params-is-invalid-params")
			}
		}
	}
	verifapi.Assert(len(svc.ran) <= len(mayRun), "c16.stream.method-runs-only-for-complete-calls")
	for _, a := range svc.ran {
		own := false
		for _, b := range mayRun {
			if a == b {
				own = true
			}
		}
		verifapi.Assert(own, "c16.stream.method-runs-with-the-callers-own-parameters")
	}
	// without garbage on the connection every message is answered
	garbage, requests := false, 0
	for _, s := range msgs {
		garbage = garbage || s.kind == 4
		if s.kind != 1 && s.kind != 4 {
			requests++ // (a message without a request part is not a request)
		}
	}
	if !garbage {
		verifapi.Assert(len(replies) == requests && len(svc.ran) == len(mayRun), "c16.stream.every-request-answered")
	}
}

// VerifC16ConcurrentRegister: two registrations on one Server at the same
// time (a whole receiver under a prefix, and a single method under its own
// name): afterwards exactly the names of both are served - none is lost,
// whatever the interleaving.
func VerifC16ConcurrentRegister() {
	srv := &Server{}
	if verifapi.Bool("something-registered-before") {
		if err := srv.RegisterMethod("first_void", &VerifLedger{}, "Void"); err != nil {
			verifapi.Unreachable("c16.concurrent-register")
		}
	}
	done := make(chan error, 2)
	go func() { done <- srv.Register("bank_", &VerifLedger{}, "void", "refuse") }()
	go func() { done <- srv.RegisterMethod("other_void", &VerifLedger{}, "Void") }()
	e1, e2 := <-done, <-done
	verifapi.Reach("c16.concurrent-register")
	verifapi.Assert(e1 == nil && e2 == nil, "c16.registration-succeeds")
	served := func(name string) bool {
		id, _ := json.Marshal(1)
		out := srv.Handle(context.Background(), &Message{ID: id, Version: Version, Request: &Request{Method: name}})
		return !(out != nil && out.Response != nil && out.Response.Error != nil && out.Response.Error.Code == ErrCodeMethodNotFound)
	}
	verifapi.Assert(served("bank_void") && served("bank_refuse"), "c16.registered-name-is-served")
	verifapi.Assert(served("other_void"), "c16.registered-name-is-served")
	verifapi.Assert(!served("bank_transfer") && !served("bank_broken") && !served("other_refuse"), "c16.unregistered-name-is-method-not-found")
}

// VerifAnyBox has a method with a parameter of interface type (any JSON value is a valid argument for it).
type VerifAnyBox struct {
	notes int
	last  interface{}
}

// Note takes one parameter of type interface{}.
func (b *VerifAnyBox) Note(ctx context.Context, memo interface{}) (int64, error) {
	b.notes++
	b.last = memo
	return int64(b.notes), nil
}

// Tag takes a declared parameter of an interface type and a concrete one.
func (b *VerifAnyBox) Tag(ctx context.Context, memo interface{}, n int64) (int64, error) {
	b.notes++
	b.last = memo
	return n, nil
}

// VerifC16AnyParam: a method whose declared parameter has an interface type still has that parameter: a call
// without it is answered invalid-params and not run, a call with it runs and receives it (never the context),
// one more is refused.
func VerifC16AnyParam() {
	srv := &Server{}
	box := &VerifAnyBox{}
	if err := srv.Register("box_", box); err != nil {
		verifapi.Unreachable("c16.anyparam-register")
		return
	}
	method := []string{"box_note", "box_tag"}[verifapi.Choose("method", 2)]
	declared := 1
	if method == "box_tag" {
		declared = 2
	}
	n := verifapi.Choose("params", 4)
	all := []interface{}{"memo", int64(7), int64(8)}
	req := &Request{Method: method}
	if n > 0 || verifapi.Bool("empty-array") {
		req.Params, _ = json.Marshal(all[:n])
	}
	out := srv.Handle(context.Background(), &Message{ID: json.RawMessage("1"), Version: Version, Request: req})
	verifapi.Reach("c16.anyparam")
	if out == nil || out.Response == nil {
		verifapi.Assert(false, "c15.handle-always-replies")
		return
	}
	if n == declared {
		verifapi.Assert(out.Response.Error == nil && box.notes == 1, "c16.anyparam.declared-parameters-accepted")
		if s, ok := box.last.(string); box.notes == 1 {
			verifapi.Assert(ok && s == "memo", "c16.anyparam.method-receives-the-callers-value")
		}
	} else {
		verifapi.Assert(box.notes == 0, "c16.anyparam.wrong-count-does-not-run-the-method")
		verifapi.Assert(out.Response.Error != nil && out.Response.Error.Code == ErrCodeInvalidParams, "c16.anyparam.wrong-count-is-invalid-params")
	}
}
