package main

import "strings"

type kvDB struct{}

func (k *kvDB) snap(m *Machine, sb *strings.Builder, sn *SnapVal, seen map[*Obj]int, depth int) {}
