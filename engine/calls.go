package main

import (
	"go/types"

	"golang.org/x/tools/go/ssa"
)

// NativeIface is implemented by engine-native objects that sit behind Go
// interfaces (context.Context, reflect.Type ...).
type NativeIface interface {
	implements(it *types.Interface) bool
	invoke(m *Machine, g *Goroutine, method string, args []Value) (Value, stepStatus)
}

type callCtx struct {
	args  []Value
	instr ssa.Instruction // may be nil (deferred call)
	fr    *Frame
	fn    *ssa.Function
	// deliver completes a call whose intercept returned stStay after pushing frames.
	deliver func(v Value)
}

type intercept func(m *Machine, g *Goroutine, c *callCtx) (Value, stepStatus)

func (m *Machine) callCommon(g *Goroutine, fr *Frame, cc *ssa.CallCommon, instr ssa.Instruction, mode string) stepStatus {
	var fnv Value
	var args []Value
	if cc.IsInvoke() {
		recv, ok := m.get(fr, cc.Value).(IfaceVal)
		if !ok {
			panic(abortf("invoke on %T", m.get(fr, cc.Value)))
		}
		if recv.typ == nil {
			panic(goPanic{msg: "nil pointer dereference (method " + cc.Method.Name() + " on nil interface)"})
		}
		if nat, ok := recv.v.(NativeIface); ok {
			for _, a := range cc.Args {
				args = append(args, m.get(fr, a))
			}
			name := cc.Method.Name()
			if mode != "call" {
				if mode == "defer" {
					fr.defers = append(fr.defers, deferred{fn: FuncVal{native: &NativeFn{name: "invoke:" + name, fn: func(m *Machine, g *Goroutine, a []Value) Value {
						v, _ := nat.invoke(m, g, name, a)
						return v
					}}}, args: args})
					return stNext
				}
				panic(abortf("go on native method %s", name))
			}
			v, st := nat.invoke(m, g, name, args)
			if st == stNext {
				if iv, ok := instr.(ssa.Value); ok {
					fr.locals[iv] = v
				}
			}
			return st
		}
		if _, isOpq := recv.v.(OpaqueVal); isOpq && m.inInit {
			if iv, ok := instr.(ssa.Value); ok {
				fr.locals[iv] = m.opaqueResult(cc.Signature().Results())
			}
			return stNext
		}
		fn := m.prog.LookupMethod(recv.typ, cc.Method.Pkg(), cc.Method.Name())
		if fn == nil {
			panic(abortf("no method %s on %s", cc.Method.Name(), recv.typ))
		}
		fnv = FuncVal{fn: fn}
		args = append(args, recv.v)
	} else {
		fnv = m.get(fr, cc.Value)
	}
	for _, a := range cc.Args {
		args = append(args, m.get(fr, a))
	}
	switch mode {
	case "defer":
		fr.defers = append(fr.defers, deferred{fn: fnv, args: args, call: cc})
		return stNext
	case "go":
		if m.maybePreempt(g) {
			return stBlocked
		}
		ng := m.newGoroutine("go")
		fv := fnv.(FuncVal)
		if fv.fn == nil {
			panic(abortf("go on native function"))
		}
		if ic := m.lookupIntercept(fv.fn); ic != nil {
			// run the intercepted function inside a tiny synthetic goroutine
			panic(abortf("go on intercepted function %s", fv.fn.String()))
		}
		m.pushFrame(ng, fv.fn, args, fv.bind, nil, nil)
		m.raceSpawn(g, ng)
		return stNext
	}
	return m.invokeValue(g, fr, fnv, args, instr, nil, false)
}

// invokeValue calls fnv. For ordinary calls the result is bound to instr and
// the pc advances; with isDefer the caller stays on its RunDefers instruction.
func (m *Machine) invokeValue(g *Goroutine, fr *Frame, fnv Value, args []Value, instr ssa.Instruction, onRet func(Value), isDefer bool) stepStatus {
	fv, ok := fnv.(FuncVal)
	if !ok {
		panic(abortf("call of non-function %T", fnv))
	}
	finish := func(v Value) stepStatus {
		if isDefer {
			return stStay
		}
		if iv, ok := instr.(ssa.Value); ok {
			fr.locals[iv] = v
		}
		return stNext
	}
	if fv.native != nil {
		if fv.native.fn == nil {
			// builtin
			return finish(m.builtin(g, fr, fv.native.name, args, instr))
		}
		return finish(fv.native.fn(m, g, args))
	}
	if fv.fn == nil {
		panic(goPanic{msg: "nil pointer dereference (call of nil func)"})
	}
	if ic := m.lookupIntercept(fv.fn); ic != nil {
		m.intercepts[fv.fn.String()]++
		c := &callCtx{args: args, instr: instr, fr: fr, fn: fv.fn}
		c.deliver = func(v Value) {
			if isDefer {
				return
			}
			if iv, ok := instr.(ssa.Value); ok {
				fr.locals[iv] = v
			}
			fr.pc++
			g.atSched = false
		}
		v, st := ic(m, g, c)
		if st == stNext {
			return finish(v)
		}
		return st
	}
	if m.inInit && fv.fn.Pkg != nil && !m.ld.isRepoPkg(fv.fn.Pkg.Pkg.Path()) && fv.fn.Pkg.Pkg.Path() != "errors" {
		// package initialisers calling un-modelled externals get opaque values
		return finish(m.opaqueResult(fv.fn.Signature.Results()))
	}
	if isDefer {
		m.pushFrame(g, fv.fn, args, fv.bind, nil, func(Value) {})
	} else {
		m.pushFrame(g, fv.fn, args, fv.bind, instr, onRet)
	}
	return stStay
}

// callClosure pushes a frame for fv; onRet runs when it returns.
func (m *Machine) callClosure(g *Goroutine, fv FuncVal, args []Value, onRet func(Value)) {
	if fv.native != nil {
		onRet(fv.native.fn(m, g, args))
		return
	}
	if fv.fn == nil {
		panic(goPanic{msg: "call of nil func"})
	}
	if ic := m.lookupIntercept(fv.fn); ic != nil {
		c := &callCtx{args: args, fn: fv.fn, deliver: onRet}
		v, st := ic(m, g, c)
		if st == stNext {
			onRet(v)
			return
		}
		if st == stBlocked {
			panic(abortf("blocking intercept %s called from native code", fv.fn.String()))
		}
		return
	}
	m.pushFrame(g, fv.fn, args, fv.bind, nil, onRet)
}

func (m *Machine) builtin(g *Goroutine, fr *Frame, name string, args []Value, instr ssa.Instruction) Value {
	switch name {
	case "builtin:len":
		switch x := args[0].(type) {
		case StrVal:
			return m.strLen(x)
		case SliceVal:
			if x.arr != nil {
				if bl, ok := x.arr.v.(*Blob); ok {
					return m.blobLen(bl)
				}
			}
			return mkInt(int64(x.len))
		case MapVal:
			if x.m == nil {
				return mkInt(0)
			}
			return mkInt(int64(len(x.m.keys)))
		case ChanVal:
			if x.c == nil {
				return mkInt(0)
			}
			return mkInt(int64(len(x.c.buf)))
		case ArrayVal:
			return mkInt(int64(len(x.e)))
		case PtrVal:
			return mkInt(int64(len(m.load(x).(ArrayVal).e)))
		}
	case "builtin:cap":
		switch x := args[0].(type) {
		case SliceVal:
			return mkInt(int64(x.cap))
		case ChanVal:
			return mkInt(int64(x.c.cap))
		case ArrayVal:
			return mkInt(int64(len(x.e)))
		}
	case "builtin:append":
		return m.appendOp(args[0], args[1], instr)
	case "builtin:copy":
		dst := args[0].(SliceVal)
		n := dst.len
		switch src := args[1].(type) {
		case SliceVal:
			if src.len < n {
				n = src.len
			}
			if n > 0 {
				sa := src.arr.v.(ArrayVal)
				tmp := make([]Value, n)
				copy(tmp, sa.e[src.off:src.off+n])
				for i := 0; i < n; i++ {
					m.store(PtrVal{obj: dst.arr, path: []int{dst.off + i}}, tmp[i])
				}
			}
		case StrVal:
			bs := strBytes(src)
			if len(bs) < n {
				n = len(bs)
			}
			for i := 0; i < n; i++ {
				m.store(PtrVal{obj: dst.arr, path: []int{dst.off + i}}, bs[i])
			}
		}
		return mkInt(int64(n))
	case "builtin:delete":
		mv := args[0].(MapVal)
		if mv.m != nil {
			m.mapDelete(mv.m, args[1])
		}
		return nil
	case "builtin:close":
		m.chanClose(args[0].(ChanVal))
		return nil
	case "builtin:panic":
		panic(goPanic{msg: "panic: " + describe(args[0]), val: args[0]})
	case "builtin:recover":
		if g.panicV != nil {
			panic(abortf("recover() during a panic is not modelled"))
		}
		return IfaceVal{}
	case "builtin:print", "builtin:println":
		return nil
	case "builtin:min", "builtin:max":
		a, b := args[0].(*Term), args[1].(*Term)
		if name == "builtin:min" {
			return tIte(tLe(a, b), a, b)
		}
		return tIte(tLe(a, b), b, a)
	case "builtin:ssa:wrapnilchk":
		p := args[0].(PtrVal)
		if p.obj == nil {
			panic(goPanic{msg: "nil pointer dereference (wrapnilchk)"})
		}
		return p
	}
	panic(abortf("unsupported builtin %s(%T)", name, args[0]))
}

func (m *Machine) appendOp(s Value, add Value, instr ssa.Instruction) Value {
	dst := s.(SliceVal)
	var elems []Value
	switch a := add.(type) {
	case SliceVal:
		if a.arr != nil {
			if bl, ok := a.arr.v.(*Blob); ok {
				return m.blobAppend(dst, bl)
			}
			arr := a.arr.v.(ArrayVal)
			elems = append(elems, arr.e[a.off:a.off+a.len]...)
		}
	case StrVal:
		for _, b := range strBytes(a) {
			elems = append(elems, b)
		}
		if a.atom != nil {
			return m.blobAppend(dst, &Blob{kind: "atombytes", str: a})
		}
	default:
		panic(abortf("append of %T", add))
	}
	if dst.arr != nil {
		if bl, ok := dst.arr.v.(*Blob); ok {
			return m.blobAppendElems(bl, elems)
		}
	}
	if len(elems) == 0 {
		return dst
	}
	n := dst.len + len(elems)
	if dst.arr != nil && n <= dst.cap {
		for i, e := range elems {
			m.store(PtrVal{obj: dst.arr, path: []int{dst.off + dst.len + i}}, e)
		}
		return SliceVal{arr: dst.arr, off: dst.off, len: n, cap: dst.cap}
	}
	ncap := dst.cap * 2
	if ncap < n {
		ncap = n
	}
	var elemT types.Type
	if instr != nil {
		if v, ok := instr.(ssa.Value); ok {
			if st, ok := v.Type().Underlying().(*types.Slice); ok {
				elemT = st.Elem()
			}
		}
	}
	ne := make([]Value, ncap)
	if dst.arr != nil {
		copy(ne, dst.arr.v.(ArrayVal).e[dst.off:dst.off+dst.len])
	}
	copy(ne[dst.len:], elems)
	for i := n; i < ncap; i++ {
		if elemT != nil {
			ne[i] = m.zero(elemT)
		} else {
			ne[i] = elems[0]
		}
	}
	var at types.Type
	if elemT != nil {
		at = types.NewArray(elemT, int64(ncap))
	}
	o := m.newObj(ArrayVal{ne}, at, "append")
	return SliceVal{arr: o, off: 0, len: n, cap: ncap}
}

// ---- maps ----

func (m *Machine) mapFind(mo *MapObj, k Value) int {
	for i, ek := range mo.keys {
		eq := m.valueEq(ek, k)
		if m.branch(eq) {
			return i
		}
	}
	return -1
}

func (m *Machine) mapSet(mo *MapObj, k, v Value) {
	m.noteMapWrite(mo)
	if i := m.mapFind(mo, k); i >= 0 {
		mo.vals[i] = v
		return
	}
	mo.keys = append(mo.keys, k)
	mo.vals = append(mo.vals, v)
}

func (m *Machine) mapDelete(mo *MapObj, k Value) {
	m.noteMapWrite(mo)
	if i := m.mapFind(mo, k); i >= 0 {
		mo.keys = append(append([]Value{}, mo.keys[:i]...), mo.keys[i+1:]...)
		mo.vals = append(append([]Value{}, mo.vals[:i]...), mo.vals[i+1:]...)
	}
}

func (m *Machine) lookup(c Value, k Value, x *ssa.Lookup) Value {
	switch mv := c.(type) {
	case MapVal:
		var res Value
		found := false
		if mv.m != nil {
			m.noteMapRead(mv.m)
			if i := m.mapFind(mv.m, k); i >= 0 {
				res = mv.m.vals[i]
				found = true
			}
		}
		if !found {
			res = m.zero(x.X.Type().Underlying().(*types.Map).Elem())
		}
		if x.CommaOk {
			return TupleVal{res, mkBool(found)}
		}
		return res
	case StrVal:
		return m.index(mv, k.(*Term))
	}
	panic(abortf("lookup on %T", c))
}

type IterObj struct {
	mo   *MapObj
	keys []Value
	pos  int
	str  []rune
	strS string
	bpos int
	symStr []*Term
	isSym  bool
}

func (m *Machine) newIter(c Value) Value {
	switch x := c.(type) {
	case MapVal:
		it := &IterObj{mo: x.m}
		if x.m != nil {
			m.noteMapRead(x.m)
			it.keys = append(it.keys, x.m.keys...)
		}
		return it
	case StrVal:
		if x.atom != nil {
			panic(abortf("range over an atom string"))
		}
		if x.sym != nil {
			return &IterObj{symStr: x.sym, isSym: true}
		}
		return &IterObj{strS: x.s, str: []rune(x.s)}
	}
	panic(abortf("range over %T", c))
}

func (m *Machine) iterNext(it *IterObj, x *ssa.Next) Value {
	if x.IsString && it.isSym {
		if it.bpos >= len(it.symStr) {
			return TupleVal{tFalse, mkInt(0), mkInt(0)}
		}
		b := it.symStr[it.bpos]
		if !m.branch(tLt(b, mkInt(128))) {
			panic(abortf("range over a symbolic string reached a non-ASCII byte (multi-byte runes are outside the model)"))
		}
		idx := it.bpos
		it.bpos++
		return TupleVal{tTrue, mkInt(int64(idx)), b}
	}
	if x.IsString {
		if it.bpos >= len(it.strS) {
			return TupleVal{tFalse, mkInt(0), mkInt(0)}
		}
		// decode rune at bpos
		r, size := decodeRune(it.strS[it.bpos:])
		idx := it.bpos
		it.bpos += size
		return TupleVal{tTrue, mkInt(int64(idx)), mkInt(int64(r))}
	}
	mt := x.Iter.(*ssa.Range).X.Type().Underlying().(*types.Map)
	// remaining live keys
	var live []int
	for i := range it.keys {
		if it.keys[i] == nil {
			continue
		}
		// still present?
		present := false
		for _, k := range it.mo.keys {
			if sameKey(k, it.keys[i]) {
				present = true
				break
			}
		}
		if present {
			live = append(live, i)
		}
	}
	if len(live) == 0 {
		return TupleVal{tFalse, m.zero(mt.Key()), m.zero(mt.Elem())}
	}
	pick := live[0]
	if m.mapOrdAll && len(live) > 1 {
		pick = live[m.choose(len(live), "maporder")]
	}
	k := it.keys[pick]
	it.keys[pick] = nil
	var v Value
	for i, ek := range it.mo.keys {
		if sameKey(ek, k) {
			v = it.mo.vals[i]
		}
	}
	return TupleVal{tTrue, k, v}
}

// sameKey is structural identity for map keys already known to be distinct or equal.
func sameKey(a, b Value) bool {
	switch x := a.(type) {
	case *Term:
		y, ok := b.(*Term)
		return ok && (x == y || x.String() == y.String())
	case StrVal:
		y, ok := b.(StrVal)
		if !ok {
			return false
		}
		if x.concrete() && y.concrete() {
			return x.s == y.s
		}
		return x.atom != nil && y.atom != nil && x.atom == y.atom
	case IfaceVal:
		y, ok := b.(IfaceVal)
		if !ok {
			return false
		}
		if x.typ == nil || y.typ == nil {
			return x.typ == nil && y.typ == nil
		}
		return types.Identical(x.typ, y.typ) && sameKey(x.v, y.v)
	case PtrVal:
		y, ok := b.(PtrVal)
		if !ok || x.obj != y.obj || len(x.path) != len(y.path) {
			return false
		}
		for i := range x.path {
			if x.path[i] != y.path[i] {
				return false
			}
		}
		return true
	case StructVal:
		y, ok := b.(StructVal)
		if !ok || len(x.f) != len(y.f) {
			return false
		}
		for i := range x.f {
			if !sameKey(x.f[i], y.f[i]) {
				return false
			}
		}
		return true
	case *CtxObj:
		return a == b
	}
	return false
}

func decodeRune(s string) (rune, int) {
	for i, r := range s {
		_ = i
		n := len(string(r))
		if r == 0xFFFD {
			n = 1
		}
		return r, n
	}
	return 0, 0
}

func (m *Machine) opaqueOf(t types.Type) Value {
	switch t.Underlying().(type) {
	case *types.Interface:
		return IfaceVal{typ: m.ld.ctxMarker, v: OpaqueVal{typ: t, tag: "init-opaque"}}
	case *types.Pointer:
		return PtrVal{obj: m.newObj(OpaqueVal{typ: t, tag: "init-opaque"}, nil, "opaque")}
	}
	return m.zero(t)
}

func (m *Machine) opaqueResult(res *types.Tuple) Value {
	switch res.Len() {
	case 0:
		return nil
	case 1:
		return m.opaqueOf(res.At(0).Type())
	}
	tv := make(TupleVal, res.Len())
	for i := range tv {
		tv[i] = m.opaqueOf(res.At(i).Type())
	}
	return tv
}
